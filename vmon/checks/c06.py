"""C06 cache invisibility: same-tree shadow render + cache ledger over mutation histories.

At every render step of a history the real tree is rendered three times:
    c0 = fresh (cache dictionaries swapped for empty ones, then swapped back)
    c1 = normal (cache available)
    c2 = fresh again
A step is judged only when c0 == c2 (rendering is idempotent there); then c1 must equal them in
content and cursor.  Because the real cache survives the comparison, stale entries for other sizes
and focus values keep accumulating across the history.  A ledger fingerprints every canvas the
cache stores and re-verifies all live ones after every step.
"""

from __future__ import annotations

import gc
import json
import random
import sys
import warnings
import weakref

from vmon import reach
from vmon.gen import c06_trees as T
from vmon.models import grid as G

PROPERTY = "C06"
LEVEL = "exploration"
SHARDS = {"quick": 8, "thorough": 16}
BUDGET = {"quick": 28.0, "thorough": 420.0}
REQUIRE = {
    "render_steps_judged": 400,
    "render_steps_judged:orderA": 150,
    "render_steps_judged:orderB": 150,
    "render_steps_with_cache_hit": 150,
    "mutations_applied": 300,
    "rows_steps_judged": 10,
    "inner_rows_judged": 200,
    "ledger_canvases_verified": 3000,
    "gc_steps": 10,
    "cache_clear_steps": 10,
    "directed_cases": 150,
    "mut:Text.set_layout": 5,
    "cache_cleanups": 100,
}
RULE = (
    "directed core: every mutator kind of every widget of 25 prototype trees, alone and under 4-5 standard parents (warm all "
    "sizes x focus, one change, look again; and the variant with a render at another size in between), then random histories (25 ops quick / 60 thorough) on generated widget trees (Text, Edit, IntEdit, CheckBox, Button, ProgressBar, "
    "Divider, SelectableIcon, SolidFill; AttrMap, Padding, LineBox, BoxAdapter, WidgetPlaceholder, Filler, Scrollable; "
    "Pile, Columns, GridFlow, Frame, Overlay, ListBox with both simple walkers; depth<=3) of render/rows at 2-3 alternating "
    "sizes x both focus values, public mutators of a random widget in the tree (set_text, edit keys, set_edit_text/pos/"
    "caption, set_state/toggle, set_label, set_completion, set_layout (same or other align/wrap, standard or user-defined layout object), set_title, attr/focus maps, Padding align/width, BoxAdapter "
    "height, placeholder/decoration child swap, contents insert/append/assign/delete/swap, focus_position, Frame "
    "header/body/footer, Overlay parameters/top/bottom, walker insert/append/assign/delete, ListBox set_focus/"
    "set_focus_valign, Scrollable.set_scrollpos), keypress / mouse press at the root, dropping held canvases + gc, CanvasCache.clear() in mid-history; "
    "distinct = distinct (mode, recipe, op list); non-trivial = at least one judged render step after a mutation"
)
ASSUMES = [
    "a render step is judged only where two cache-less renders around it agree (rendering is idempotent at that point)",
    "plain attribute pokes (w.dividechars = 2) are not public mutators and are not used",
    "a history in which a mutator or a cache-less render raises is abandoned, not judged (C01 / C08 territory)",
    "canvas equality = equal cells (text, attribute, charset flag) after flattening + equal cursor",
]

MODES = {"utf8": "utf-8", "wide": "euc-jp", "narrow": "ascii"}
KEYS = ["up", "down", "left", "right", "page up", "page down", "home", "end", "a", "Z", " ", "enter", "tab", "backspace", "delete"]


class Abandon(Exception):
    pass


def fp_canvas(c, mode=None):
    rows = tuple(tuple((a if isinstance(a, (str, int, type(None))) else repr(a), cs, bytes(t)) for a, cs, t in row) for row in c.content())
    return (c.cols(), c.rows(), rows, c.cursor, None if c.get_pop_up() is None else c.get_pop_up()[:2])


class Ledger:
    """fingerprints of every canvas handed to CanvasCache.store; installed once per process"""

    installed = None

    def __init__(self):
        self.entries = []
        self.recording = True
        self.handed_out = 0

    @classmethod
    def install(cls):
        if cls.installed is not None:
            return cls.installed
        from urwid.canvas import CanvasCache

        led = cls()
        orig = CanvasCache.store.__func__

        def store(ccls, wcls, canvas):
            orig(ccls, wcls, canvas)
            if led.recording and canvas.cacheable:
                try:
                    led.entries.append((weakref.ref(canvas), fp_canvas(canvas), "stored"))
                except Exception:  # noqa: BLE001
                    pass

        orig_fetch = CanvasCache.fetch.__func__

        def fetch(ccls, widget, wcls, size, focus):
            canv = orig_fetch(ccls, widget, wcls, size, focus)
            if canv is not None and led.recording:
                led.handed_out += 1
            return canv

        CanvasCache.store = classmethod(store)
        CanvasCache.fetch = classmethod(fetch)
        cls.installed = led
        return led

    def reset(self):
        self.entries = []

    def verify(self, in_tree):
        """in_tree: ids of the widgets of the live tree.  Only canvases rendered by those widgets are judged
        (a helper widget a render() creates privately, e.g. ProgressBar's temporary Text, owns its canvas).
        -> (n_verified, first changed canvas or None)"""
        n = 0
        live = []
        for ref, fp, how in self.entries:
            c = ref()
            if c is None:
                continue
            live.append((ref, fp, how))
            wi = c.widget_info
            if not wi or id(wi[0]) not in in_tree:
                continue
            n += 1
            try:
                now = fp_canvas(c)
            except Exception as e:  # noqa: BLE001
                return n, (c, f"content() raises {type(e).__name__}")
            if now != fp:
                what = "size" if now[:2] != fp[:2] else ("content" if now[2] != fp[2] else "cursor/popup")
                return n, (c, what)
        self.entries = live
        return n, None


class Shadow:
    """run a callable with the three cache dictionaries swapped for empty ones.

    Rendering may change widget state and invalidate (ListBox completing a pending focus change moves
    an Edit's cursor, which calls _invalidate()).  Under swapped dictionaries such an invalidation would
    only clear the shadow entries, so it is recorded and re-applied to the real cache afterwards -
    exactly what the same render would have done in a normal session."""

    in_shadow = False
    pending_invalidations: list = []
    hooked = False

    def __init__(self):
        self.graveyard = []
        self.hook()

    @classmethod
    def hook(cls):
        if cls.hooked:
            return
        from urwid.canvas import CanvasCache as CC

        orig = CC.invalidate.__func__

        def invalidate(ccls, widget):
            if cls.in_shadow:
                cls.pending_invalidations.append(widget)
            return orig(ccls, widget)

        CC.invalidate = classmethod(invalidate)
        cls.orig_invalidate = orig
        cls.hooked = True

    def __call__(self, fn):
        from urwid.canvas import CanvasCache as CC

        saved = (CC._widgets, CC._refs, CC._deps)
        CC._widgets, CC._refs, CC._deps = {}, {}, {}
        led = Ledger.installed
        rec = led.recording if led else None
        if led:
            led.recording = False
        outer = Shadow.in_shadow
        Shadow.in_shadow = True
        try:
            res = fn()
        finally:
            Shadow.in_shadow = outer
            if led:
                led.recording = rec
            self.graveyard.append((CC._widgets, CC._refs, CC._deps))
            CC._widgets, CC._refs, CC._deps = saved
            if not outer:
                todo, Shadow.pending_invalidations = Shadow.pending_invalidations, []
                for w in todo:
                    Shadow.orig_invalidate(CC, w)
        self.graveyard.append(res)
        return res

    def bury(self):
        """let the shadow canvases die against their own dictionaries"""
        from urwid.canvas import CanvasCache as CC

        saved = (CC._widgets, CC._refs, CC._deps)
        CC._widgets, CC._refs, CC._deps = {}, {}, {}
        self.graveyard = []
        gc.collect()
        CC._widgets, CC._refs, CC._deps = saved


def flat(c, mode):
    return (c.cols(), c.rows(), G.flatten_rows(c.content(), mode), c.cursor)


class History:
    def __init__(self, ctx, desc, count=True):
        self.ctx = ctx
        self.desc = desc
        self.mode = desc["mode"]
        self.count = count
        self.ops_done = []
        self.held = []
        self.shadow = Shadow()
        self.ledger = Ledger.install()
        self.found = []  # (sig, msg)
        self.last_mut = None
        self.judged_after_mut = False
        self.root = None

    def c(self, key, n=1):
        if self.count:
            self.ctx.count(key, n)

    # ---- lifecycle
    def start(self):
        from urwid.canvas import CanvasCache

        CanvasCache.clear()
        self.ledger.reset()
        self.root = T.build(self.desc["recipe"])
        self.kind = self.desc["kind"]
        self.sizes = [tuple(s) for s in self.desc["sizes"]]

    def finish(self):
        from urwid.canvas import CanvasCache

        self.held = []
        self.root = None
        self.shadow.bury()
        CanvasCache.clear()
        gc.collect()

    # ---- steps
    def do(self, op):
        """execute one op; raises Abandon"""
        self.ops_done.append(op)
        k = op[0]
        if k == "render":
            self.render_step(self.sizes[op[1] % len(self.sizes)], bool(op[2]), op[3] if len(op) > 3 else "A")
        elif k == "rows":
            self.rows_step(self.sizes[op[1] % len(self.sizes)], bool(op[2]))
        elif k == "mut":
            ws = T.walk(self.root)
            w = ws[op[1] % len(ws)]
            try:
                T.apply_mutation(w, op[2], self.sizes[0])
            except Exception as e:  # noqa: BLE001
                self.c("abandoned:mutator-raised")
                raise Abandon(f"mutator {op[2][0]} on {type(w).__name__} raised {type(e).__name__}: {e}") from e
            self.c("mutations_applied")
            self.c(f"mut:{type(w).__name__}.{op[2][0]}")
            self.last_mut = f"{type(w).__name__}.{op[2][0]}"
        elif k == "key":
            size = self.sizes[op[1] % len(self.sizes)]
            try:
                if self.root.selectable():
                    self.root.keypress(size, op[2])
                    self.c("root_keypresses")
                    self.last_mut = f"root.keypress"
            except Exception as e:  # noqa: BLE001
                self.c("abandoned:keypress-raised")
                raise Abandon(f"keypress raised {type(e).__name__}: {e}") from e
        elif k == "mouse":
            size = self.sizes[op[1] % len(self.sizes)]
            col = op[2] % size[0]
            row = op[3] % (size[1] if len(size) > 1 else 3)
            try:
                self.root.mouse_event(size, "mouse press", op[4], col, row, True)
                self.c("root_mouse_events")
                self.last_mut = "root.mouse_event"
            except Exception as e:  # noqa: BLE001
                self.c("abandoned:mouse-raised")
                raise Abandon(f"mouse_event raised {type(e).__name__}: {e}") from e
        elif k == "clear":
            # the application empties the cache itself (public CanvasCache.clear()); canvases handed out
            # earlier stay alive in self.held, as on a screen
            from urwid.canvas import CanvasCache as _CC

            _CC.clear()
            self.c("cache_clear_steps")
        elif k == "gc":
            rng = random.Random(op[1])
            if len(op) > 2 and op[2] == "keep-last":
                # what a screen does: only the most recently drawn canvas stays referenced
                self.held = self.held[-1:]
            else:
                self.held = [c for c in self.held if rng.random() < 0.5]
            gc.collect()
            self.c("gc_steps")
        else:
            raise AssertionError(op)
        if k not in ("render", "gc", "clear") and op is not self.desc["ops"][-1:]:
            return
        n, bad = self.ledger.verify(T.all_widgets(self.root))
        self.c("ledger_canvases_verified", n)
        if bad is not None:
            canv, what = bad
            wi = canv.widget_info
            cls = type(wi[0]).__name__ if wi else "?"
            self.found.append((f"C06|cached-canvas-modified:{what}|canvas-of={cls}|after={self.last_mut}", f"a canvas stored in the cache for {cls} changed ({what}) after op {op}"))
            self.ledger.reset()

    def render_step(self, size, focus, order="A"):
        """order A: fresh, cached, fresh (the cached render sandwiched).  order B: cached first, then two
        fresh renders.  A cannot see a change that left only *pending* state behind when the first fresh
        render consumes it and invalidates (ListBox.set_focus_valign); B cannot tell a stale canvas from a
        first render that legitimately differs from later ones, so in B a divergence counts only when a
        widget's cached canvas really differs from its fresh render (culprit found)."""
        from urwid.canvas import CanvasCache as CC

        root = self.root
        mode = self.mode

        def fresh(which):
            try:
                c = self.shadow(lambda: root.render(size, focus))
                return flat(c, mode)
            except Exception as e:  # noqa: BLE001
                self.c("abandoned:fresh-render-raised")
                raise Abandon(f"{which} fresh render raised {type(e).__name__}: {e}") from e

        fa = fresh("first") if order == "A" else None
        hits0 = CC.hits
        try:
            c1 = root.render(size, focus)
            f1 = flat(c1, mode)
        except Exception as e:  # noqa: BLE001
            if order == "A":
                self.found.append((f"C06|cached-render-raises:{type(e).__name__}|root={type(root).__name__}|after={self.last_mut}", f"render with the cache raised {type(e).__name__}: {e} but fresh render succeeded"))
                raise Abandon("cached render raised") from e
            self.c("abandoned:render-raised")
            raise Abandon(f"render raised {type(e).__name__}: {e}") from e
        hit = CC.hits > hits0
        snapshot = None
        if order != "A":
            # what the cache held when the cached render was answered (the fresh renders below may invalidate it)
            snapshot = {}
            for w in T.walk(root):
                ent = CC._widgets.get(w)
                if ent:
                    snapshot[id(w)] = [(k, ref()) for k, ref in ent.items() if ref() is not None]
        fb = fresh("second")
        if order != "A":
            fa, fb = fb, fresh("third")
        self.held.append(c1)
        if not c1.widget_info:
            self.found.append((f"C06|render-returned-unfinalized-canvas|{type(root).__name__}", "canvas handed out is not finalized"))
        if fa != fb:
            self.c("render_steps_not_idempotent")
            return
        self.c("render_steps_judged")
        self.c(f"render_steps_judged:order{order}")
        if hit:
            self.c("render_steps_with_cache_hit")
        if self.last_mut is not None:
            self.judged_after_mut = True
        if f1 != fa:
            culprit = self.culprit(snapshot)
            if order != "A" and (culprit == "none-found" or not hit):
                # nothing cached is stale: the first render simply differs from the following ones
                self.c("orderB_first_render_differs_without_stale_canvas")
                return
            d = G.first_diff(f1[2], fa[2]) if f1[:2] == fa[:2] else None
            what = "size" if f1[:2] != fa[:2] else ("cursor" if f1[2] == fa[2] else f"cell:{G.diff_kind(d)}")
            self.found.append(
                (
                    f"C06|stale|culprit={culprit}|after={self.last_mut}|{what}",
                    f"render{size!r} focus={focus} (order {order}): cached result differs from fresh ({what}); first diff {d}; cached cursor {f1[3]} fresh cursor {fa[3]}",
                )
            )

    def inner_rows_step(self):
        """row counts answered from cached canvases == computed afresh, for every flow widget of the tree
        that has cached canvases (the cached rows() wrapper answers from them)"""
        from urwid.canvas import CanvasCache as CC

        for w in T.walk(self.root):
            entries = CC._widgets.get(w)
            if not entries or not hasattr(w, "rows"):
                continue
            asked = set()
            for (wcls, size, focus0), ref in list(entries.items()):
                if len(size) != 1 or ref() is None:
                    continue
                asked.add((size, focus0))
                asked.add((size, not focus0))  # no canvas for this focus value (yet): must not be answered from the other one
            for size, focus in sorted(asked, key=repr):
                try:
                    r0 = self.shadow(lambda w=w, size=size, focus=focus: w.rows(size, focus))
                    r1 = w.rows(size, focus)
                    r2 = self.shadow(lambda w=w, size=size, focus=focus: w.rows(size, focus))
                except Exception:  # noqa: BLE001
                    continue
                if r0 != r2:
                    continue
                try:
                    fresh_rows = self.shadow(lambda w=w, size=size, focus=focus: w.render(size, focus).rows())
                except Exception:  # noqa: BLE001
                    continue
                if fresh_rows != r0:
                    # rows() disagrees with the widget's own fresh rendering: C01's contract (a known family there:
                    # containers reporting 1 row around an empty child); the cached answer cannot agree with both
                    self.c("inner_rows_not_judged_rows_method_disagrees_with_fresh_render")
                    continue
                self.c("inner_rows_judged")
                if r1 != r0:
                    self.found.append((f"C06|stale-rows|widget={type(w).__name__}|after={self.last_mut}", f"{type(w).__name__}.rows{size!r} focus={focus}: cached {r1} fresh {r0}"))
                    return

    def rows_step(self, size, focus):
        root = self.root
        self.inner_rows_step()
        if len(size) != 1:
            return
        try:
            r0 = self.shadow(lambda: root.rows(size, focus))
        except Exception as e:  # noqa: BLE001
            self.c("abandoned:fresh-rows-raised")
            raise Abandon(f"fresh rows raised {type(e).__name__}") from e
        try:
            r1 = root.rows(size, focus)
        except Exception as e:  # noqa: BLE001
            self.found.append((f"C06|cached-rows-raises:{type(e).__name__}|root={type(root).__name__}", f"{e}"))
            raise Abandon("cached rows raised") from e
        r2 = self.shadow(lambda: root.rows(size, focus))
        if r0 != r2:
            self.c("rows_steps_not_idempotent")
            return
        self.c("rows_steps_judged")
        if r1 != r0:
            self.found.append((f"C06|stale-rows|culprit={self.culprit()}|after={self.last_mut}", f"rows{size!r} focus={focus}: cached {r1} fresh {r0}"))

    def culprit(self, snapshot=None):
        """class of the deepest widget whose cached canvas differs from its fresh render
        (snapshot: {id(widget): [(key, canvas)]} taken earlier, else the live cache)"""
        from urwid.canvas import CanvasCache as CC

        depth = {}

        def walk(w, d):
            depth[id(w)] = (d, w)
            for ch in T.children(w):
                walk(ch, d + 1)

        walk(self.root, 0)
        best = None
        for _, (d, w) in sorted(depth.items(), key=lambda kv: -kv[1][0]):
            if snapshot is not None:
                entries_list = snapshot.get(id(w), [])
            else:
                entries = CC._widgets.get(w, None)
                entries_list = [(k, ref()) for k, ref in entries.items()] if entries else []
            for (wcls, size, focus), canv in entries_list:
                if canv is None:
                    continue
                try:
                    fresh = self.shadow(lambda w=w, size=size, focus=focus: w.render(size, focus))
                    if flat(fresh, self.mode) != flat(canv, self.mode):
                        name = type(w).__name__
                        if wcls is not type(w):
                            name += f"(render-of-{wcls.__name__})"
                        if best is None or d > best[0]:
                            best = (d, name)
                except Exception:  # noqa: BLE001
                    continue
            if best is not None and best[0] == d:
                break
        return best[1] if best else "none-found"


# ---------------------------------------------------------------- generation / execution


def gen_history(ctx, rng, mode, nops):
    """generate and execute a history; returns (desc, History)"""
    kind = rng.choice(["flow", "box", "box"])
    recipe = T.gen_tree(rng, kind, rng.randint(1, 3))
    if kind == "flow":
        sizes = [[rng.randint(8, 30)] for _ in range(rng.randint(2, 3))]
    else:
        sizes = [[rng.randint(8, 30), rng.randint(3, 12)] for _ in range(rng.randint(2, 3))]
    desc = {"mode": mode, "kind": kind, "recipe": recipe, "sizes": sizes, "ops": []}
    h = History(ctx, desc)
    try:
        with warnings.catch_warnings():
            warnings.simplefilter("ignore")
            h.start()

            def emit(op):
                desc["ops"].append(op)
                h.do(op)

            # warm the cache: every size x both focus values (the entries a later mutation can leave stale)
            warm = [(si, f) for si in range(len(sizes)) for f in (1, 0)]
            rng.shuffle(warm)
            for si, f in warm[: rng.randint(2, len(warm))]:
                emit(["render", si, f])
            n = len(desc["ops"])
            while n < nops:
                # a burst of 1-3 state changes ...
                for _ in range(rng.randint(1, 3)):
                    r = rng.random()
                    if r < 0.7:
                        ws = T.walk(h.root)
                        idx = rng.randrange(len(ws))
                        m = T.propose(rng, ws[idx])
                        if m is None or m[0] == "child_mutation":
                            continue
                        emit(["mut", idx, m])
                    elif r < 0.83:
                        emit(["key", rng.randrange(len(sizes)), rng.choice(KEYS)])
                    elif r < 0.90:
                        emit(["mouse", rng.randrange(len(sizes)), rng.randint(0, 40), rng.randint(0, 12), rng.choice([1, 1, 4, 5])])
                    elif r < 0.95:
                        # empty the cache, look again (new entries under old keys), then let old canvases die
                        emit(["clear"])
                        emit(["render", rng.randrange(len(sizes)), int(rng.random() < 0.65)])
                        emit(["gc", rng.randint(0, 10**6), "keep-last"])
                    else:
                        emit(["gc", rng.randint(0, 10**6), rng.choice(["keep-last", "random"])])
                    n += 1
                # ... then look: mostly at a (size, focus) rendered before
                if rng.random() < 0.2:
                    emit(["rows", rng.randrange(len(sizes)), int(rng.random() < 0.5)])
                for _ in range(rng.randint(1, 2)):
                    emit(["render", rng.randrange(len(sizes)), int(rng.random() < 0.65), rng.choice("AB")])
                    n += 1
    except Abandon:
        pass
    finally:
        h.finish()
    return desc, h


def execute(ctx, desc, count=False):
    h = History(ctx, desc, count=count)
    try:
        with warnings.catch_warnings():
            warnings.simplefilter("ignore")
            h.start()
            for op in desc["ops"]:
                h.do(op)
    except Abandon:
        pass
    finally:
        h.finish()
    return h


def sig_class(sig):
    """the part of a signature that must be preserved while shrinking (kind + culprit)"""
    return "|".join(sig.split("|")[:3])


def shrink(ctx, desc, sig):
    want = sig_class(sig)
    cur = desc
    budget = 80

    def reproduces(d):
        h = execute(ctx, d)
        for s, m in h.found:
            if sig_class(s) == want:
                return s, m
        return None

    # cut everything after the first reproduction
    i = len(cur["ops"]) - 1
    while i >= 0 and budget > 0:
        d = dict(cur, ops=cur["ops"][:i] + cur["ops"][i + 1 :])
        budget -= 1
        if reproduces(d):
            cur = d
        i -= 1
    res = reproduces(cur)
    return cur, res


# ---------------------------------------------------------------- directed core (runs first in every shard)

PROTOTYPES = {
    "flow": [
        {"t": "Text", "text": "alpha beta gamma delta", "align": "left", "wrap": "space"},
        {"t": "Edit", "caption": "c:", "text": "alpha 漢字 kanji lorem", "multiline": False, "align": "left", "wrap": "clip", "pos": 3},
        {"t": "Edit", "caption": "", "text": "one two three four five", "multiline": True, "align": "right", "wrap": "space", "pos": 9},
        {"t": "IntEdit", "caption": "n=", "val": 123},
        {"t": "CheckBox", "label": "check me", "state": False},
        {"t": "Button", "label": "cancel"},
        {"t": "ProgressBar", "cur": 40},
        {"t": "SelectableIcon", "text": "icon", "cpos": 1},
        {"t": "NoCacheText", "text": "no cache text here"},
        {"t": "Expander", "title": "item", "details": ["detail 1", "detail 2"]},
        {"t": "Pile", "items": [["pack", None, {"t": "Expander", "title": "item", "details": ["detail 1", "detail 2"]}], ["pack", None, {"t": "Text", "text": "tail", "align": "left", "wrap": "space"}]], "focus": 0},
        {"t": "Pile", "items": [["pack", None, {"t": "Text", "text": "a", "align": "left", "wrap": "space"}], ["pack", None, {"t": "Pile", "items": [], "focus": 0}]], "focus": 0},
        {"t": "Pile", "items": [["pack", None, {"t": "Pile", "items": [["pack", None, {"t": "Text", "text": "only", "align": "left", "wrap": "space"}]], "focus": 0}], ["pack", None, {"t": "Edit", "caption": "", "text": "e", "multiline": False, "align": "left", "wrap": "space", "pos": 0}]], "focus": 1},
        {"t": "AttrMap", "w": {"t": "Text", "text": "mapped", "align": "left", "wrap": "space"}, "am": "a", "fm": "b"},
        {"t": "AttrWrap", "w": {"t": "Text", "text": "wrapped", "align": "left", "wrap": "space"}, "am": "a", "fm": "b"},
        {"t": "AttrWrap", "w": {"t": "Button", "label": "wrapped button"}, "am": "a", "fm": None},
        {"t": "Padding", "w": {"t": "Text", "text": "padded text", "align": "left", "wrap": "space"}, "align": "left", "width": 8, "left": 1, "right": 1},
        {"t": "LineBox", "w": {"t": "Text", "text": "boxed", "align": "left", "wrap": "space"}, "title": "T"},
        {"t": "BoxAdapter", "w": {"t": "Filler", "w": {"t": "Text", "text": "fill", "align": "left", "wrap": "space"}, "valign": "top"}, "h": 3},
        {"t": "WidgetPlaceholder", "w": {"t": "Text", "text": "placeholder", "align": "left", "wrap": "space"}},
        {"t": "Pile", "items": [["pack", None, {"t": "Text", "text": "p0", "align": "left", "wrap": "space"}], ["pack", None, {"t": "Edit", "caption": "", "text": "p1", "multiline": False, "align": "left", "wrap": "space", "pos": 1}], ["pack", None, {"t": "CheckBox", "label": "p2", "state": True}]], "focus": 1},
        {"t": "Columns", "items": [["weight", 1, {"t": "Text", "text": "c0", "align": "left", "wrap": "space"}], ["given", 6, {"t": "Edit", "caption": "", "text": "c1", "multiline": False, "align": "left", "wrap": "space", "pos": 0}], ["pack", None, {"t": "Text", "text": "pack", "align": "left", "wrap": "space"}]], "div": 1, "focus": 1, "min_width": 1},
        {"t": "Columns", "items": [["given", 9, {"t": "Text", "text": "given nine", "align": "left", "wrap": "clip"}], ["pack", None, {"t": "Text", "text": "0123456789012345678901234567", "align": "left", "wrap": "space"}], ["weight", 2, {"t": "Text", "text": "w", "align": "left", "wrap": "space"}]], "div": 0, "focus": 0, "min_width": 2},
        {"t": "GridFlow", "cells": [{"t": "Button", "label": "ok"}, {"t": "Text", "text": "cell", "align": "left", "wrap": "space"}, {"t": "CheckBox", "label": "g", "state": False}], "cw": 7, "hs": 1, "vs": 0, "align": "left"},
    ],
    "box": [
        {"t": "Filler", "w": {"t": "Text", "text": "filled", "align": "left", "wrap": "space"}, "valign": "middle"},
        {"t": "ListBox", "items": [{"t": "Text", "text": "l0", "align": "left", "wrap": "space"}, {"t": "Edit", "caption": "", "text": "l1 edit", "multiline": False, "align": "left", "wrap": "space", "pos": 2}, {"t": "CheckBox", "label": "l2", "state": False}, {"t": "Text", "text": "l3\nl3b\nl3c", "align": "left", "wrap": "space"}, {"t": "Button", "label": "l4"}], "walker": "focus", "focus": 1},
        {"t": "ListBox", "items": [{"t": "Text", "text": "s0", "align": "left", "wrap": "space"}, {"t": "Button", "label": "s1"}, {"t": "Text", "text": "s2", "align": "left", "wrap": "space"}], "walker": "simple", "focus": 1},
        {"t": "ListBox", "items": [{"t": "Text", "text": f"r{i}", "align": "left", "wrap": "space"} if i % 3 else {"t": "Button", "label": f"r{i}"} for i in range(12)], "walker": "focus", "focus": 6},
        {"t": "ListBox", "items": [{"t": "Text", "text": "\n".join(f"line {i}" for i in range(12)), "align": "left", "wrap": "space"}, {"t": "Text", "text": "after", "align": "left", "wrap": "space"}], "walker": "simple", "focus": 0},
        {"t": "ListBox", "items": [{"t": "Text", "text": "before", "align": "left", "wrap": "space"}, {"t": "Edit", "caption": "", "text": "\n".join(f"e{i}" for i in range(9)), "multiline": True, "align": "left", "wrap": "space", "pos": 0}, {"t": "Button", "label": "b"}], "walker": "focus", "focus": 1},
        {"t": "Frame", "body": {"t": "Filler", "w": {"t": "Edit", "caption": "", "text": "body", "multiline": False, "align": "left", "wrap": "space", "pos": 0}, "valign": "top"}, "header": {"t": "Text", "text": "head", "align": "left", "wrap": "space"}, "footer": {"t": "Edit", "caption": "", "text": "foot", "multiline": False, "align": "left", "wrap": "space", "pos": 0}, "focus": "body"},
        {"t": "Frame", "body": {"t": "Filler", "w": {"t": "Edit", "caption": "", "text": "body", "multiline": False, "align": "left", "wrap": "space", "pos": 2}, "valign": "top"}, "header": {"t": "Button", "label": "hd"}, "footer": {"t": "SelectableIcon", "text": "footer icon", "cpos": 3}, "focus": "body"},
        {"t": "Overlay", "top": {"t": "Text", "text": "over lay", "align": "left", "wrap": "space"}, "bottom": {"t": "SolidFill", "ch": "."}, "align": "center", "width": 6, "valign": "middle", "height": "pack"},
        {"t": "Scrollable", "w": {"t": "Text", "text": "s0\ns1\ns2\ns3\ns4\ns5\ns6\ns7", "align": "left", "wrap": "space"}, "pos": 3},
        {"t": "Pile", "items": [["weight", 1, {"t": "SolidFill", "ch": "#"}], ["pack", None, {"t": "Edit", "caption": "", "text": "pe", "multiline": False, "align": "left", "wrap": "space", "pos": 0}], ["weight", 2, {"t": "Filler", "w": {"t": "Text", "text": "pf", "align": "left", "wrap": "space"}, "valign": "top"}]], "focus": 1},
    ],
}


def wrappers(kind, proto):
    """the prototype alone and inside a few standard parents (recipe, kind of the result)"""
    txt = {"t": "Text", "text": "sibling", "align": "left", "wrap": "space"}
    out = [(proto, kind)]
    if kind == "flow":
        out.append(({"t": "Pile", "items": [["pack", None, txt], ["pack", None, proto]], "focus": 1}, "flow"))
        out.append(({"t": "Columns", "items": [["weight", 1, proto], ["given", 4, txt]], "div": 1, "focus": 0, "min_width": 1}, "flow"))
        out.append(({"t": "LineBox", "w": {"t": "AttrMap", "w": proto, "am": None, "fm": "hi"}, "title": ""}, "flow"))
        out.append(({"t": "ListBox", "items": [txt, proto, txt], "walker": "focus", "focus": 1}, "box"))
        out.append(({"t": "Frame", "body": {"t": "Filler", "w": proto, "valign": "top"}, "header": txt, "footer": None, "focus": "body"}, "box"))
    else:
        out.append(({"t": "Frame", "body": proto, "header": txt, "footer": txt, "focus": "body"}, "box"))
        out.append(({"t": "Pile", "items": [["pack", None, txt], ["weight", 1, proto]], "focus": 1}, "box"))
        out.append(({"t": "LineBox", "w": proto, "title": "t"}, "box"))
        out.append(({"t": "BoxAdapter", "w": proto, "h": 5}, "flow"))
    return out


def directed_cases(mode, quick=False, seed=0):
    """every (prototype, wrapper, widget of the prototype, mutator kind): warm all sizes x focus, mutate once, look again"""
    import warnings as _w

    cases = []
    for kind, protos in PROTOTYPES.items():
        for proto in protos:
            wr = wrappers(kind, proto)
            if quick:
                # the prototype alone + one parent shape, rotating with the seed
                wr = [wr[0], wr[1 + (seed + len(cases)) % (len(wr) - 1)]]
            for recipe, rkind in wr:
                sizes = [[14], [22]] if rkind == "flow" else [[14, 5], [22, 8]]
                with _w.catch_warnings():
                    _w.simplefilter("ignore")
                    try:
                        root = T.build(recipe)
                    except Exception:  # noqa: BLE001
                        continue
                ws = T.walk(root)
                seen = set()
                # root-level input: a button-1 press at a 3x3 grid of cells and every navigation key, then look
                warm0 = [["render", 0, 1], ["render", 0, 0], ["render", 1, 1]]
                s0 = sizes[0]
                rows0 = s0[1] if len(s0) > 1 else 4
                inputs = [["mouse", 0, c, r, 1] for c in (0, s0[0] // 2, s0[0] - 2) for r in (0, rows0 // 2, rows0 - 1)]
                inputs += [["key", 0, k] for k in ("up", "down", "left", "right", "page down", "home", "end", "tab", " ", "x")]
                if quick:
                    inputs = inputs[(seed + len(cases)) % 3 :: 3]
                for j, inp in enumerate(inputs):
                    look = [[*o, "B"] for o in warm0] if j % 2 else warm0
                    cases.append({"mode": mode, "kind": rkind, "recipe": recipe, "sizes": sizes, "ops": [*warm0, inp, *look], "stratum": f"input:{recipe['t']}:{inp[0]}:{inp[2] if inp[0] == 'key' else ''}"})
                # sequences of navigation keys, looking after every key (scroll state reached only step by step)
                seqs = [["down", "down", "down", "page up"], ["page down", "page up"], ["down", "down", "up", "up"], ["page down", "page down", "page up", "up"], ["end", "page up", "home"], ["down", "page down", "up", "page up"]]
                if quick:
                    seqs = seqs[(seed + len(cases)) % 2 :: 2]
                for j, seq in enumerate(seqs):
                    ops = [["render", 0, 1]]
                    for q, key in enumerate(seq):
                        ops += [["key", 0, key], ["render", 0, 1, "AB"[(j + q) % 2]]]
                    cases.append({"mode": mode, "kind": rkind, "recipe": recipe, "sizes": sizes, "ops": ops, "stratum": f"keyseq:{recipe['t']}:{j}"})
                for idx, wd in enumerate(ws):
                    for trial in range(60):
                        m = T.propose(random.Random(f"{trial}:{idx}"), wd)
                        if m is None or m[0] == "child_mutation":
                            continue
                        key = (idx, m[0], json.dumps(m[1:2]))
                        if key in seen:
                            continue
                        named = m[0] in ("raising", "setprop")  # the second element names the mutator
                        if quick and not named and sum(1 for k2 in seen if k2[:2] == key[:2]) >= 2:
                            continue
                        seen.add(key)
                        warm = [["render", 0, 1], ["render", 0, 0], ["render", 1, 1]]
                        if m[0] == "raising":
                            # the change is half done when the handler raises: look at another size first
                            # (recomputes what the widget keeps per size), then at the sizes rendered before
                            ops = [warm[0], warm[1], ["mut", idx, m], warm[2], warm[0], warm[1], ["rows", 0, 0]]
                        elif len(seen) % 3 == 0:
                            # a render at the other size between the change and the look (state set by render)
                            ops = [warm[0], ["mut", idx, m], warm[2], warm[0], warm[1]]
                        else:
                            ops = [*warm, ["mut", idx, m], *warm, ["rows", 0, 0]]
                        if len(seen) % 2:
                            # look in order B: cached render first (sees changes that only left pending state)
                            k_mut = next(i for i, o in enumerate(ops) if o[0] == "mut")
                            ops = ops[: k_mut + 1] + [[*o, "B"] if o[0] == "render" else o for o in ops[k_mut + 1 :]]
                        stratum = f"{type(wd).__name__}.{m[0]}" + (f"/{m[1]}" if named else "") + f"@{recipe['t']}"
                        cases.append({"mode": mode, "kind": rkind, "recipe": recipe, "sizes": sizes, "ops": ops, "stratum": stratum})
    return cases


def stratified(cases, seed):
    """order: one case of every stratum (mutator of a widget class under a root class / input kind on a root
    class) first, then a second one of each, ... so that a run that cannot finish the directed core has
    still exercised every mutator kind; the choice inside a stratum rotates with the seed"""
    groups = {}
    for c in cases:
        groups.setdefault(c.get("stratum", ""), []).append(c)
    r = random.Random(f"C06-directed:{seed}")
    keys = sorted(groups)
    for k in keys:
        r.shuffle(groups[k])
    out = []
    depth = 0
    while True:
        layer = [groups[k][depth] for k in keys if len(groups[k]) > depth]
        if not layer:
            return out
        r.shuffle(layer)
        out += layer
        depth += 1


def regression_cases(mode):
    """hand-written histories for the mechanisms behind the defects found so far (each was a real bug once)"""
    T_ = lambda s, **k: {"t": "Text", "text": s, "align": k.get("align", "left"), "wrap": k.get("wrap", "space")}  # noqa: E731
    E_ = lambda cap, s, **k: {"t": "Edit", "caption": cap, "text": s, "multiline": False, "align": k.get("align", "left"), "wrap": k.get("wrap", "clip"), "pos": k.get("pos")}  # noqa: E731
    out = []
    # hidden PACK column (explicit width 0 and dropped from the width list), then the text shrinks
    cols = {"t": "Columns", "items": [["given", 9, T_("given nine", wrap="clip")], ["pack", None, T_("0123456789012345678901234567")], ["weight", 2, T_("w")]], "div": 0, "focus": 0, "min_width": 2}
    for size in ([11], [18]):
        out.append({"mode": mode, "kind": "flow", "recipe": cols, "sizes": [size, [30]], "ops": [["render", 0, 0], ["render", 0, 1], ["mut", 2, ["set_text", "be"]], ["render", 0, 0], ["render", 0, 1]]})
    cols2 = {"t": "Columns", "items": [["pack", None, T_("0123456789012345678901234567")], ["weight", 3, {"t": "Divider", "ch": "-"}], ["weight", 3, T_("x")]], "div": 0, "focus": 2, "min_width": 2}
    out.append({"mode": mode, "kind": "flow", "recipe": cols2, "sizes": [[18]], "ops": [["render", 0, 0], ["mut", 1, ["set_text", "be"]], ["render", 0, 0]]})
    # ListBox alignment request on a list shorter than the box
    lb = {"t": "ListBox", "items": [T_(f"s{i}") if i != 4 else {"t": "Button", "label": "s4"} for i in range(9)], "walker": "simple", "focus": 4}
    for v in ("bottom", "top", "middle"):
        out.append({"mode": mode, "kind": "box", "recipe": lb, "sizes": [[14, 4]], "ops": [["render", 0, 1], ["mut", 0, ["lb_valign", v]], ["render", 0, 1]]})
    # Edit rendered in one focus state, then the other, cursor beyond the clipped width
    ed = E_("c:", "alpha 漢字 kanji lorem", pos=18)
    out.append({"mode": mode, "kind": "flow", "recipe": ed, "sizes": [[8]], "ops": [["render", 0, 0], ["render", 0, 1], ["render", 0, 0]]})
    out.append({"mode": mode, "kind": "flow", "recipe": ed, "sizes": [[8]], "ops": [["render", 0, 1], ["render", 0, 0], ["render", 0, 1]]})
    # Scrollable position clamped by a render at another size
    sc = {"t": "Scrollable", "w": {"t": "BoxAdapter", "w": {"t": "Filler", "w": T_("f"), "valign": "top"}, "h": 4}, "pos": 3}
    out.append({"mode": mode, "kind": "box", "recipe": sc, "sizes": [[11, 3], [18, 8]], "ops": [["render", 0, 1], ["render", 1, 1], ["render", 0, 1]]})
    # uncacheable descendant: the parent must not be cached without dependency edges
    nc = {"t": "Pile", "items": [["pack", None, {"t": "LineBox", "w": T_("top"), "title": ""}], ["pack", None, {"t": "NoCacheText", "text": "0123456789012345678901234567"}]], "focus": 0}
    out.append({"mode": mode, "kind": "flow", "recipe": nc, "sizes": [[30], [12]], "ops": [["render", 0, 1], ["render", 1, 1], ["gc", 1], ["render", 0, 1], ["mut", 3, ["set_align_mode", "center"]], ["render", 0, 1], ["render", 1, 1]]})
    # same with a decoration that declares its dependencies explicitly (set_depends) around a ListBox whose
    # uncacheable item is visible at one size only
    pl = {"t": "Padding", "w": {"t": "ListBox", "items": [T_("i0"), T_("i1"), T_("i2"), {"t": "NoCacheText", "text": "nc item"}], "walker": "simple", "focus": 0}, "align": "right", "width": ["relative", 100], "left": 1, "right": 1}
    out.append({"mode": mode, "kind": "box", "recipe": pl, "sizes": [[19, 3], [29, 4]], "ops": [["render", 0, 0], ["render", 1, 1], ["mut", 5, ["set_text", "changed"]], ["render", 1, 1], ["render", 0, 0]]})
    # cache emptied by the application, old canvases die later, then a change below a re-cached ancestor
    fl = {"t": "Filler", "w": T_("one"), "valign": "top"}
    for seed in range(6):
        out.append({"mode": mode, "kind": "box", "recipe": fl, "sizes": [[10, 3], [10, 4]], "ops": [["render", 0, 0], ["clear"], ["render", 1, 0], (["gc", seed, "keep-last"] if seed % 2 else ["gc", seed]), ["mut", 1, ["set_text", "two"]], ["render", 1, 0], ["render", 0, 0]]})
    # a hidden PACK column next to a visible column that changes twice; and a hidden item whose own canvases die
    # (only the wide rendering kept them alive) before it changes
    hp = {"t": "Columns", "items": [["weight", 1, T_("ab")], ["pack", None, T_("packed")]], "div": 0, "focus": 0, "min_width": 1}
    chg = lambda i, txt: ["mut", i, ["set_text", txt]]  # noqa: E731
    out.append({"mode": mode, "kind": "flow", "recipe": hp, "sizes": [[20], [4]], "ops": [["render", 0, 0], chg(1, "cd"), ["render", 0, 0], chg(1, "ef"), ["render", 1, 0], chg(1, "gh"), ["render", 1, 0]]})
    out.append({"mode": mode, "kind": "flow", "recipe": hp, "sizes": [[20], [4]], "ops": [["render", 0, 0], ["render", 1, 0], ["gc", 1, "keep-last"], chg(2, "p"), ["render", 1, 0], ["render", 0, 0]]})
    out.append({"mode": mode, "kind": "flow", "recipe": {"t": "Pile", "items": [["pack", None, hp], ["pack", None, T_("below")]], "focus": 0}, "sizes": [[20], [4]], "ops": [["render", 0, 0], chg(2, "ij"), ["render", 1, 0], chg(2, "kl"), ["render", 1, 0], ["gc", 2, "keep-last"], chg(3, "q"), ["render", 1, 0]]})
    # an item with no rows inside a ListBox / Pile gets rows later
    zl = {"t": "ListBox", "items": [T_("top"), {"t": "Pile", "items": [], "focus": 0}, T_("bottom")], "walker": "simple", "focus": 0}
    out.append({"mode": mode, "kind": "box", "recipe": zl, "sizes": [[12, 5]], "ops": [["render", 0, 1], ["mut", 2, ["contents_append", 12345]], ["render", 0, 1]]})
    out.append({"mode": mode, "kind": "box", "recipe": zl, "sizes": [[12, 5]], "ops": [["render", 0, 0], ["mut", 2, ["contents_append", 777]], ["render", 0, 0], ["mut", 2, ["contents_clear"]], ["render", 0, 0], ["mut", 2, ["contents_append", 778]], ["render", 0, 0]]})
    # list shorter than the box below the focus: refilled from above, with an item that has no rows among the
    # refilled ones; and a view state that a render at a shorter height must not change
    zl2 = {"t": "ListBox", "items": [T_("t0"), {"t": "Pile", "items": [], "focus": 0}, T_("t2"), T_("t3")], "walker": "simple", "focus": 3}
    for v in ("top", "middle", "bottom"):
        out.append({"mode": mode, "kind": "box", "recipe": zl2, "sizes": [[12, 6]], "ops": [["mut", 0, ["lb_set_focus", 3, None]], ["mut", 0, ["lb_valign", v]], ["render", 0, 1], ["mut", 2, ["contents_append", 4242]], ["render", 0, 1]]})
    lb5 = {"t": "ListBox", "items": [T_(f"row {i}") for i in range(10)] + [E_("e:", "x")] + [T_(f"row {i}") for i in range(11, 16)], "walker": "focus", "focus": 10}
    for v in ("bottom", "middle"):
        for f in (1, 0):
            out.append({"mode": mode, "kind": "box", "recipe": lb5, "sizes": [[14, 9], [14, 3], [14, 1]], "ops": [["mut", 0, ["lb_set_focus", 10, None]], ["mut", 0, ["lb_valign", v]], ["render", 0, f], ["render", 1, f], ["render", 0, f], ["render", 2, f], ["render", 0, f], ["render", 1, f]]})
    # a flow Pile treats WEIGHT items like PACK items: one that has no rows is not rendered either
    wp = {"t": "Pile", "items": [["weight", 1, T_("a")], ["weight", 1, {"t": "Pile", "items": [], "focus": 0}]], "focus": 0}
    out.append({"mode": mode, "kind": "flow", "recipe": wp, "sizes": [[12]], "ops": [["render", 0, 0], ["mut", 2, ["contents_append", 99]], ["render", 0, 0]]})
    out.append({"mode": mode, "kind": "flow", "recipe": {"t": "LineBox", "w": wp, "title": ""}, "sizes": [[12]], "ops": [["render", 0, 1], ["mut", 3, ["contents_append", 98]], ["render", 0, 1]]})
    # a Frame part (header / footer) that reports no rows is left out of the canvas; a Pile rendered as a fixed
    # widget with an empty WEIGHT item; a Scrollable whose position is clamped (not reset) by a taller render
    fr = {"t": "Frame", "body": {"t": "SolidFill", "ch": "."}, "header": {"t": "Pile", "items": [], "focus": 0}, "footer": None, "focus": "body"}
    out.append({"mode": mode, "kind": "box", "recipe": fr, "sizes": [[8, 3]], "ops": [["render", 0, 0], ["mut", 1, ["contents_append", 31]], ["render", 0, 0]]})
    fr2 = {"t": "Frame", "body": {"t": "SolidFill", "ch": "."}, "header": T_("head"), "footer": {"t": "Pile", "items": [], "focus": 0}, "focus": "body"}
    out.append({"mode": mode, "kind": "box", "recipe": fr2, "sizes": [[8, 4]], "ops": [["render", 0, 1], ["mut", 3, ["contents_append", 32]], ["render", 0, 1]]})
    # an Overlay whose top widget renders nothing shows bottom_w alone, and must still notice top_w gaining rows
    for ovh, ovw in (("pack", ["relative", 60]), ("pack", "pack"), (["relative", 50], ["relative", 60])):
        ov = {"t": "Overlay", "top": {"t": "Pile", "items": [], "focus": 0}, "bottom": {"t": "SolidFill", "ch": "."}, "align": "right", "width": ovw, "valign": "top", "height": ovh}
        for f in (1, 0):
            out.append({"mode": mode, "kind": "box", "recipe": ov, "sizes": [[17, 12]], "ops": [["render", 0, f], ["mut", 1, ["contents_append", 34]], ["render", 0, f], ["mut", 1, ["contents_clear"]], ["render", 0, f], ["mut", 1, ["contents_insert", 0, 35]], ["render", 0, f]]})
    fx = {"t": "Pile", "items": [["pack", None, T_("hello")], ["weight", 1, {"t": "Pile", "items": [], "focus": 0}]], "focus": 0}
    out.append({"mode": mode, "kind": "fixed", "recipe": fx, "sizes": [[]], "ops": [["render", 0, 0], ["mut", 2, ["contents_append", 33]], ["render", 0, 0]]})
    sc2 = {"t": "Scrollable", "w": T_("\n".join(f"row {i}" for i in range(10))), "pos": 7}
    for f in (1, 0):
        out.append({"mode": mode, "kind": "box", "recipe": sc2, "sizes": [[11, 3], [11, 6], [11, 12]], "ops": [["render", 0, f], ["render", 1, f], ["render", 0, f], ["render", 2, f], ["render", 0, f]]})
    # scroll state reached only key by key: a tall item partly scrolled off, then back (looks after every key)
    tall = "\n".join(f"line {i}" for i in range(12))
    lbs = [
        {"t": "ListBox", "items": [T_(tall), T_("after")], "walker": "simple", "focus": 0},
        {"t": "ListBox", "items": [T_("before"), {"t": "Edit", "caption": "", "text": "\n".join(f"e{i}" for i in range(9)), "multiline": True, "align": "left", "wrap": "space", "pos": 0}, {"t": "Button", "label": "b"}], "walker": "focus", "focus": 1},
    ]
    for lbr in lbs:
        for seq in (["down", "down", "down", "page up"], ["page down", "page up"], ["down", "down", "up", "up"], ["page down", "page down", "page up", "up"], ["down", "page down", "up", "page up"]):
            ops = [["render", 0, 1]]
            for key in seq:
                ops += [["key", 0, key], ["render", 0, 1]]
            out.append({"mode": mode, "kind": "box", "recipe": lbr, "sizes": [[14, 5], [22, 8]], "ops": ops})
    both = []
    for d in out:
        both.append(d)
        both.append(dict(d, ops=[[*o, "B"] if o[0] == "render" else o for o in d["ops"]]))
    return both


def set_mode(mode):
    import urwid

    urwid.util.set_encoding(MODES[mode])


def run(ctx):
    import urwid
    from urwid.canvas import CanvasCache as CC

    reach.watch(CC.fetch, CC.invalidate, CC.cleanup, urwid.Widget._invalidate)
    unraisable = []
    old_hook = sys.unraisablehook
    sys.unraisablehook = lambda u: unraisable.append(type(u.exc_value).__name__)
    old_enc = urwid.util.get_encoding()
    rng = ctx.rng
    nops = ctx.pick(25, 60)
    k = 0
    cleanups0 = CC.cleanups
    try:
        # ---- directed core: every mutator kind of every prototype widget, alone and under standard parents
        set_mode("utf8")
        dcases = directed_cases("utf8", quick=ctx.quick, seed=ctx.seed)
        # one case per stratum first (see stratified) so that a run that cannot finish them all still covers every kind
        ctx.extra["directed_strata"] = len({c["stratum"] for c in dcases})
        dcases = stratified(dcases, ctx.seed)
        dcases = regression_cases("utf8") + dcases
        ctx.extra["directed_cases_total"] = len(dcases)
        done_all = True
        for i, desc in enumerate(dcases):
            if not ctx.mine(i):
                continue
            if not ctx.more(0.55):
                done_all = False
                break
            h = execute(ctx, desc, count=True)
            ctx.case(("directed", i), nontrivial=True)
            ctx.count("directed_cases")
            for sig, msg in h.found:
                small, res = shrink(ctx, desc, sig)
                if res is not None:
                    sig, msg = res
                ctx.violation(sig, msg, small if res is not None else desc)
        ctx.count("directed_shards_complete", int(done_all))
        # ---- random histories
        while ctx.more(1.0):
            mode = ("utf8", "utf8", "wide", "narrow")[k % 4]
            set_mode(mode)
            k += 1
            desc, h = gen_history(ctx, rng, mode, nops)
            ctx.case((mode, json.dumps(desc["recipe"], sort_keys=True), json.dumps(desc["ops"])), nontrivial=h.judged_after_mut)
            ctx.count("histories")
            if k <= 2:
                ctx.sample({"mode": mode, "kind": desc["kind"], "recipe": desc["recipe"], "sizes": desc["sizes"], "ops": desc["ops"][:12]})
            seen = set()
            for sig, msg in h.found:
                if sig_class(sig) in seen:
                    continue
                seen.add(sig_class(sig))
                small, res = shrink(ctx, desc, sig)
                if res is not None:
                    sig, msg = res
                    desc_out = small
                else:
                    desc_out = desc
                ctx.violation(sig, msg, desc_out)
    finally:
        sys.unraisablehook = old_hook
        urwid.util.set_encoding(old_enc)
    ctx.count("cache_cleanups", CC.cleanups - cleanups0)
    ctx.count("cache_hits_total", CC.hits)
    ctx.count("cache_fetches_total", CC.fetches)
    ctx.count("unraisable_in_weakref_callbacks", len(unraisable))
    reach.flush(ctx)


def replay(ctx, wit):
    import urwid

    old_enc = urwid.util.get_encoding()
    old_hook = sys.unraisablehook
    sys.unraisablehook = lambda u: None
    try:
        set_mode(wit["mode"])
        h = execute(ctx, wit, count=True)
        for sig, msg in h.found:
            ctx.violation(sig, msg, wit)
    finally:
        sys.unraisablehook = old_hook
        urwid.util.set_encoding(old_enc)
