"""C06 cache invisibility: same-tree shadow render + cache ledger over mutation histories.

At every render step of a history the real tree is rendered three times:
    c0 = fresh (cache dictionaries swapped for empty ones, then swapped back)
    c1 = normal (cache available)
    c2 = fresh again
A step is judged only when c0 == c2 (rendering is idempotent there); then c1 must equal them in
content and cursor.  Because the real cache survives the comparison, stale entries for other sizes
and focus values keep accumulating across the history.  A ledger fingerprints every canvas the
cache stores and re-verifies all live ones after every step.
"""

from __future__ import annotations

import gc
import json
import random
import sys
import warnings
import weakref

from vmon import reach
from vmon.gen import c06_trees as T
from vmon.models import grid as G

PROPERTY = "C06"
LEVEL = "exploration"
SHARDS = {"quick": 8, "thorough": 16}
BUDGET = {"quick": 28.0, "thorough": 420.0}
REQUIRE = {
    "render_steps_judged": 400,
    "render_steps_with_cache_hit": 150,
    "mutations_applied": 300,
    "rows_steps_judged": 10,
    "inner_rows_judged": 200,
    "ledger_canvases_verified": 3000,
    "gc_steps": 10,
    "cache_cleanups": 100,
}
RULE = (
    "histories (25 ops quick / 60 thorough) on generated widget trees (Text, Edit, IntEdit, CheckBox, Button, ProgressBar, "
    "Divider, SelectableIcon, SolidFill; AttrMap, Padding, LineBox, BoxAdapter, WidgetPlaceholder, Filler, Scrollable; "
    "Pile, Columns, GridFlow, Frame, Overlay, ListBox with both simple walkers; depth<=3) of render/rows at 2-3 alternating "
    "sizes x both focus values, public mutators of a random widget in the tree (set_text, edit keys, set_edit_text/pos/"
    "caption, set_state/toggle, set_label, set_completion, set_title, attr/focus maps, Padding align/width, BoxAdapter "
    "height, placeholder/decoration child swap, contents insert/append/assign/delete/swap, focus_position, Frame "
    "header/body/footer, Overlay parameters/top/bottom, walker insert/append/assign/delete, ListBox set_focus/"
    "set_focus_valign, Scrollable.set_scrollpos), keypress / mouse press at the root, dropping held canvases + gc; "
    "distinct = distinct (mode, recipe, op list); non-trivial = at least one judged render step after a mutation"
)
ASSUMES = [
    "a render step is judged only where two cache-less renders around it agree (rendering is idempotent at that point)",
    "plain attribute pokes (w.dividechars = 2) are not public mutators and are not used",
    "a history in which a mutator or a cache-less render raises is abandoned, not judged (C01 / C08 territory)",
    "canvas equality = equal cells (text, attribute, charset flag) after flattening + equal cursor",
]

MODES = {"utf8": "utf-8", "wide": "euc-jp", "narrow": "ascii"}
KEYS = ["up", "down", "left", "right", "page up", "page down", "home", "end", "a", "Z", " ", "enter", "tab", "backspace", "delete"]


class Abandon(Exception):
    pass


def fp_canvas(c, mode=None):
    rows = tuple(tuple((a if isinstance(a, (str, int, type(None))) else repr(a), cs, bytes(t)) for a, cs, t in row) for row in c.content())
    return (c.cols(), c.rows(), rows, c.cursor, None if c.get_pop_up() is None else c.get_pop_up()[:2])


class Ledger:
    """fingerprints of every canvas handed to CanvasCache.store; installed once per process"""

    installed = None

    def __init__(self):
        self.entries = []
        self.recording = True
        self.handed_out = 0

    @classmethod
    def install(cls):
        if cls.installed is not None:
            return cls.installed
        from urwid.canvas import CanvasCache

        led = cls()
        orig = CanvasCache.store.__func__

        def store(ccls, wcls, canvas):
            orig(ccls, wcls, canvas)
            if led.recording and canvas.cacheable:
                try:
                    led.entries.append((weakref.ref(canvas), fp_canvas(canvas), "stored"))
                except Exception:  # noqa: BLE001
                    pass

        orig_fetch = CanvasCache.fetch.__func__

        def fetch(ccls, widget, wcls, size, focus):
            canv = orig_fetch(ccls, widget, wcls, size, focus)
            if canv is not None and led.recording:
                led.handed_out += 1
            return canv

        CanvasCache.store = classmethod(store)
        CanvasCache.fetch = classmethod(fetch)
        cls.installed = led
        return led

    def reset(self):
        self.entries = []

    def verify(self, in_tree):
        """in_tree: ids of the widgets of the live tree.  Only canvases rendered by those widgets are judged
        (a helper widget a render() creates privately, e.g. ProgressBar's temporary Text, owns its canvas).
        -> (n_verified, first changed canvas or None)"""
        n = 0
        live = []
        for ref, fp, how in self.entries:
            c = ref()
            if c is None:
                continue
            live.append((ref, fp, how))
            wi = c.widget_info
            if not wi or id(wi[0]) not in in_tree:
                continue
            n += 1
            try:
                now = fp_canvas(c)
            except Exception as e:  # noqa: BLE001
                return n, (c, f"content() raises {type(e).__name__}")
            if now != fp:
                what = "size" if now[:2] != fp[:2] else ("content" if now[2] != fp[2] else "cursor/popup")
                return n, (c, what)
        self.entries = live
        return n, None


class Shadow:
    """run a callable with the three cache dictionaries swapped for empty ones.

    Rendering may change widget state and invalidate (ListBox completing a pending focus change moves
    an Edit's cursor, which calls _invalidate()).  Under swapped dictionaries such an invalidation would
    only clear the shadow entries, so it is recorded and re-applied to the real cache afterwards -
    exactly what the same render would have done in a normal session."""

    in_shadow = False
    pending_invalidations: list = []
    hooked = False

    def __init__(self):
        self.graveyard = []
        self.hook()

    @classmethod
    def hook(cls):
        if cls.hooked:
            return
        from urwid.canvas import CanvasCache as CC

        orig = CC.invalidate.__func__

        def invalidate(ccls, widget):
            if cls.in_shadow:
                cls.pending_invalidations.append(widget)
            return orig(ccls, widget)

        CC.invalidate = classmethod(invalidate)
        cls.orig_invalidate = orig
        cls.hooked = True

    def __call__(self, fn):
        from urwid.canvas import CanvasCache as CC

        saved = (CC._widgets, CC._refs, CC._deps)
        CC._widgets, CC._refs, CC._deps = {}, {}, {}
        led = Ledger.installed
        rec = led.recording if led else None
        if led:
            led.recording = False
        outer = Shadow.in_shadow
        Shadow.in_shadow = True
        try:
            res = fn()
        finally:
            Shadow.in_shadow = outer
            if led:
                led.recording = rec
            self.graveyard.append((CC._widgets, CC._refs, CC._deps))
            CC._widgets, CC._refs, CC._deps = saved
            if not outer:
                todo, Shadow.pending_invalidations = Shadow.pending_invalidations, []
                for w in todo:
                    Shadow.orig_invalidate(CC, w)
        self.graveyard.append(res)
        return res

    def bury(self):
        """let the shadow canvases die against their own dictionaries"""
        from urwid.canvas import CanvasCache as CC

        saved = (CC._widgets, CC._refs, CC._deps)
        CC._widgets, CC._refs, CC._deps = {}, {}, {}
        self.graveyard = []
        gc.collect()
        CC._widgets, CC._refs, CC._deps = saved


def flat(c, mode):
    return (c.cols(), c.rows(), G.flatten_rows(c.content(), mode), c.cursor)


class History:
    def __init__(self, ctx, desc, count=True):
        self.ctx = ctx
        self.desc = desc
        self.mode = desc["mode"]
        self.count = count
        self.ops_done = []
        self.held = []
        self.shadow = Shadow()
        self.ledger = Ledger.install()
        self.found = []  # (sig, msg)
        self.last_mut = None
        self.judged_after_mut = False
        self.root = None

    def c(self, key, n=1):
        if self.count:
            self.ctx.count(key, n)

    # ---- lifecycle
    def start(self):
        from urwid.canvas import CanvasCache

        CanvasCache.clear()
        self.ledger.reset()
        self.root = T.build(self.desc["recipe"])
        self.kind = self.desc["kind"]
        self.sizes = [tuple(s) for s in self.desc["sizes"]]

    def finish(self):
        from urwid.canvas import CanvasCache

        self.held = []
        self.root = None
        self.shadow.bury()
        CanvasCache.clear()
        gc.collect()

    # ---- steps
    def do(self, op):
        """execute one op; raises Abandon"""
        self.ops_done.append(op)
        k = op[0]
        if k == "render":
            self.render_step(self.sizes[op[1] % len(self.sizes)], bool(op[2]))
        elif k == "rows":
            self.rows_step(self.sizes[op[1] % len(self.sizes)], bool(op[2]))
        elif k == "mut":
            ws = T.walk(self.root)
            w = ws[op[1] % len(ws)]
            try:
                T.apply_mutation(w, op[2], self.sizes[0])
            except Exception as e:  # noqa: BLE001
                self.c("abandoned:mutator-raised")
                raise Abandon(f"mutator {op[2][0]} on {type(w).__name__} raised {type(e).__name__}: {e}") from e
            self.c("mutations_applied")
            self.c(f"mut:{type(w).__name__}.{op[2][0]}")
            self.last_mut = f"{type(w).__name__}.{op[2][0]}"
        elif k == "key":
            size = self.sizes[op[1] % len(self.sizes)]
            try:
                if self.root.selectable():
                    self.root.keypress(size, op[2])
                    self.c("root_keypresses")
                    self.last_mut = f"root.keypress"
            except Exception as e:  # noqa: BLE001
                self.c("abandoned:keypress-raised")
                raise Abandon(f"keypress raised {type(e).__name__}: {e}") from e
        elif k == "mouse":
            size = self.sizes[op[1] % len(self.sizes)]
            col = op[2] % size[0]
            row = op[3] % (size[1] if len(size) > 1 else 3)
            try:
                self.root.mouse_event(size, "mouse press", op[4], col, row, True)
                self.c("root_mouse_events")
                self.last_mut = "root.mouse_event"
            except Exception as e:  # noqa: BLE001
                self.c("abandoned:mouse-raised")
                raise Abandon(f"mouse_event raised {type(e).__name__}: {e}") from e
        elif k == "gc":
            rng = random.Random(op[1])
            self.held = [c for c in self.held if rng.random() < 0.5]
            gc.collect()
            self.c("gc_steps")
        else:
            raise AssertionError(op)
        if k not in ("render", "gc") and op is not self.desc["ops"][-1:]:
            return
        n, bad = self.ledger.verify(T.all_widgets(self.root))
        self.c("ledger_canvases_verified", n)
        if bad is not None:
            canv, what = bad
            wi = canv.widget_info
            cls = type(wi[0]).__name__ if wi else "?"
            self.found.append((f"C06|cached-canvas-modified:{what}|canvas-of={cls}|after={self.last_mut}", f"a canvas stored in the cache for {cls} changed ({what}) after op {op}"))
            self.ledger.reset()

    def render_step(self, size, focus):
        from urwid.canvas import CanvasCache as CC

        root = self.root
        mode = self.mode
        try:
            c0 = self.shadow(lambda: root.render(size, focus))
            f0 = flat(c0, mode)
        except Exception as e:  # noqa: BLE001
            self.c("abandoned:fresh-render-raised")
            raise Abandon(f"fresh render raised {type(e).__name__}: {e}") from e
        hits0 = CC.hits
        try:
            c1 = root.render(size, focus)
            f1 = flat(c1, mode)
        except Exception as e:  # noqa: BLE001
            self.found.append((f"C06|cached-render-raises:{type(e).__name__}|root={type(root).__name__}|after={self.last_mut}", f"render with the cache raised {type(e).__name__}: {e} but fresh render succeeded"))
            raise Abandon("cached render raised") from e
        hit = CC.hits > hits0
        try:
            c2 = self.shadow(lambda: root.render(size, focus))
            f2 = flat(c2, mode)
        except Exception as e:  # noqa: BLE001
            self.c("abandoned:fresh-render-raised")
            raise Abandon(f"second fresh render raised {type(e).__name__}: {e}") from e
        self.held.append(c1)
        if not c1.widget_info:
            self.found.append((f"C06|render-returned-unfinalized-canvas|{type(root).__name__}", "canvas handed out is not finalized"))
        if f0 != f2:
            self.c("render_steps_not_idempotent")
            return
        self.c("render_steps_judged")
        if hit:
            self.c("render_steps_with_cache_hit")
        if self.last_mut is not None:
            self.judged_after_mut = True
        if f1 != f0:
            culprit = self.culprit()
            d = G.first_diff(f1[2], f0[2]) if f1[:2] == f0[:2] else None
            what = "size" if f1[:2] != f0[:2] else ("cursor" if f1[2] == f0[2] else f"cell:{G.diff_kind(d)}")
            self.found.append(
                (
                    f"C06|stale|culprit={culprit}|after={self.last_mut}|{what}",
                    f"render{size!r} focus={focus}: cached result differs from fresh ({what}); first diff {d}; cached cursor {f1[3]} fresh cursor {f0[3]}",
                )
            )

    def inner_rows_step(self):
        """row counts answered from cached canvases == computed afresh, for every flow widget of the tree
        that has cached canvases (the cached rows() wrapper answers from them)"""
        from urwid.canvas import CanvasCache as CC

        for w in T.walk(self.root):
            entries = CC._widgets.get(w)
            if not entries or not hasattr(w, "rows"):
                continue
            for (wcls, size, focus), ref in list(entries.items()):
                if len(size) != 1 or ref() is None:
                    continue
                try:
                    r0 = self.shadow(lambda w=w, size=size, focus=focus: w.rows(size, focus))
                    r1 = w.rows(size, focus)
                    r2 = self.shadow(lambda w=w, size=size, focus=focus: w.rows(size, focus))
                except Exception:  # noqa: BLE001
                    continue
                if r0 != r2:
                    continue
                self.c("inner_rows_judged")
                if r1 != r0:
                    self.found.append((f"C06|stale-rows|widget={type(w).__name__}|after={self.last_mut}", f"{type(w).__name__}.rows{size!r} focus={focus}: cached {r1} fresh {r0}"))
                    return

    def rows_step(self, size, focus):
        root = self.root
        self.inner_rows_step()
        if len(size) != 1:
            return
        try:
            r0 = self.shadow(lambda: root.rows(size, focus))
        except Exception as e:  # noqa: BLE001
            self.c("abandoned:fresh-rows-raised")
            raise Abandon(f"fresh rows raised {type(e).__name__}") from e
        try:
            r1 = root.rows(size, focus)
        except Exception as e:  # noqa: BLE001
            self.found.append((f"C06|cached-rows-raises:{type(e).__name__}|root={type(root).__name__}", f"{e}"))
            raise Abandon("cached rows raised") from e
        r2 = self.shadow(lambda: root.rows(size, focus))
        if r0 != r2:
            self.c("rows_steps_not_idempotent")
            return
        self.c("rows_steps_judged")
        if r1 != r0:
            self.found.append((f"C06|stale-rows|culprit={self.culprit()}|after={self.last_mut}", f"rows{size!r} focus={focus}: cached {r1} fresh {r0}"))

    def culprit(self):
        """class of the deepest widget whose cached canvas differs from its fresh render"""
        from urwid.canvas import CanvasCache as CC

        depth = {}

        def walk(w, d):
            depth[id(w)] = (d, w)
            for ch in T.children(w):
                walk(ch, d + 1)

        walk(self.root, 0)
        best = None
        for _, (d, w) in sorted(depth.items(), key=lambda kv: -kv[1][0]):
            entries = CC._widgets.get(w, None)
            if not entries:
                continue
            for (wcls, size, focus), ref in list(entries.items()):
                canv = ref()
                if canv is None:
                    continue
                try:
                    fresh = self.shadow(lambda w=w, size=size, focus=focus: w.render(size, focus))
                    if flat(fresh, self.mode) != flat(canv, self.mode):
                        name = type(w).__name__
                        if wcls is not type(w):
                            name += f"(render-of-{wcls.__name__})"
                        if best is None or d > best[0]:
                            best = (d, name)
                except Exception:  # noqa: BLE001
                    continue
            if best is not None and best[0] == d:
                break
        return best[1] if best else "none-found"


# ---------------------------------------------------------------- generation / execution


def gen_history(ctx, rng, mode, nops):
    """generate and execute a history; returns (desc, History)"""
    kind = rng.choice(["flow", "box", "box"])
    recipe = T.gen_tree(rng, kind, rng.randint(1, 3))
    if kind == "flow":
        sizes = [[rng.randint(8, 30)] for _ in range(rng.randint(2, 3))]
    else:
        sizes = [[rng.randint(8, 30), rng.randint(3, 12)] for _ in range(rng.randint(2, 3))]
    desc = {"mode": mode, "kind": kind, "recipe": recipe, "sizes": sizes, "ops": []}
    h = History(ctx, desc)
    try:
        with warnings.catch_warnings():
            warnings.simplefilter("ignore")
            h.start()

            def emit(op):
                desc["ops"].append(op)
                h.do(op)

            # warm the cache: every size x both focus values (the entries a later mutation can leave stale)
            warm = [(si, f) for si in range(len(sizes)) for f in (1, 0)]
            rng.shuffle(warm)
            for si, f in warm[: rng.randint(2, len(warm))]:
                emit(["render", si, f])
            n = len(desc["ops"])
            while n < nops:
                # a burst of 1-3 state changes ...
                for _ in range(rng.randint(1, 3)):
                    r = rng.random()
                    if r < 0.7:
                        ws = T.walk(h.root)
                        idx = rng.randrange(len(ws))
                        m = T.propose(rng, ws[idx])
                        if m is None or m[0] == "child_mutation":
                            continue
                        emit(["mut", idx, m])
                    elif r < 0.83:
                        emit(["key", rng.randrange(len(sizes)), rng.choice(KEYS)])
                    elif r < 0.92:
                        emit(["mouse", rng.randrange(len(sizes)), rng.randint(0, 40), rng.randint(0, 12), rng.choice([1, 1, 4, 5])])
                    else:
                        emit(["gc", rng.randint(0, 10**6)])
                    n += 1
                # ... then look: mostly at a (size, focus) rendered before
                if rng.random() < 0.2:
                    emit(["rows", rng.randrange(len(sizes)), int(rng.random() < 0.5)])
                for _ in range(rng.randint(1, 2)):
                    emit(["render", rng.randrange(len(sizes)), int(rng.random() < 0.65)])
                    n += 1
    except Abandon:
        pass
    finally:
        h.finish()
    return desc, h


def execute(ctx, desc, count=False):
    h = History(ctx, desc, count=count)
    try:
        with warnings.catch_warnings():
            warnings.simplefilter("ignore")
            h.start()
            for op in desc["ops"]:
                h.do(op)
    except Abandon:
        pass
    finally:
        h.finish()
    return h


def sig_class(sig):
    """the part of a signature that must be preserved while shrinking (kind + culprit)"""
    return "|".join(sig.split("|")[:3])


def shrink(ctx, desc, sig):
    want = sig_class(sig)
    cur = desc
    budget = 80

    def reproduces(d):
        h = execute(ctx, d)
        for s, m in h.found:
            if sig_class(s) == want:
                return s, m
        return None

    # cut everything after the first reproduction
    i = len(cur["ops"]) - 1
    while i >= 0 and budget > 0:
        d = dict(cur, ops=cur["ops"][:i] + cur["ops"][i + 1 :])
        budget -= 1
        if reproduces(d):
            cur = d
        i -= 1
    res = reproduces(cur)
    return cur, res


def set_mode(mode):
    import urwid

    urwid.util.set_encoding(MODES[mode])


def run(ctx):
    import urwid
    from urwid.canvas import CanvasCache as CC

    reach.watch(CC.fetch, CC.invalidate, CC.cleanup, urwid.Widget._invalidate)
    unraisable = []
    old_hook = sys.unraisablehook
    sys.unraisablehook = lambda u: unraisable.append(type(u.exc_value).__name__)
    old_enc = urwid.util.get_encoding()
    rng = ctx.rng
    nops = ctx.pick(25, 60)
    k = 0
    cleanups0 = CC.cleanups
    try:
        while ctx.more(1.0):
            mode = ("utf8", "utf8", "wide", "narrow")[k % 4]
            set_mode(mode)
            k += 1
            desc, h = gen_history(ctx, rng, mode, nops)
            ctx.case((mode, json.dumps(desc["recipe"], sort_keys=True), json.dumps(desc["ops"])), nontrivial=h.judged_after_mut)
            ctx.count("histories")
            if k <= 2:
                ctx.sample({"mode": mode, "kind": desc["kind"], "recipe": desc["recipe"], "sizes": desc["sizes"], "ops": desc["ops"][:12]})
            seen = set()
            for sig, msg in h.found:
                if sig_class(sig) in seen:
                    continue
                seen.add(sig_class(sig))
                small, res = shrink(ctx, desc, sig)
                if res is not None:
                    sig, msg = res
                    desc_out = small
                else:
                    desc_out = desc
                ctx.violation(sig, msg, desc_out)
    finally:
        sys.unraisablehook = old_hook
        urwid.util.set_encoding(old_enc)
    ctx.count("cache_cleanups", CC.cleanups - cleanups0)
    ctx.count("cache_hits_total", CC.hits)
    ctx.count("cache_fetches_total", CC.fetches)
    ctx.count("unraisable_in_weakref_callbacks", len(unraisable))
    reach.flush(ctx)


def replay(ctx, wit):
    import urwid

    old_enc = urwid.util.get_encoding()
    old_hook = sys.unraisablehook
    sys.unraisablehook = lambda u: None
    try:
        set_mode(wit["mode"])
        h = execute(ctx, wit, count=True)
        for sig, msg in h.found:
            ctx.violation(sig, msg, wit)
    finally:
        sys.unraisablehook = old_hook
        urwid.util.set_encoding(old_enc)
