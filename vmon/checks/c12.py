"""C12 MainLoop ordering and terminal restoration: fault enumeration over real pty sessions.

Every case is one scripted MainLoop.run() session in a FRESH subprocess on a real pseudo-terminal
(vmon/monitors/pty_term.py).  A fault-free run per configuration numbers the callback invocations
(site, k); then one run per (site, k, kind in {ExitMainLoop, Boom}) injects at that invocation.
The oracle (this file, parent process) is evaluated on what the child recorded:
  ORD   ordering of filter -> widget -> unhandled per input event, keys in arrival order
  RDW   logical redraw rule (render log + the terminal contents, via the independent VT model)
  EXIT  how run() ended (returned / same Boom object), nothing runs after the injected fault
  RST   terminal restoration: VT state from the bytes read off the pty master, termios, signal
        handlers, screen.started
"""

from __future__ import annotations

import concurrent.futures
import re

from vmon import core
from vmon.models.vt import VT
from vmon.monitors import pty_term

PROPERTY = "C12"
LEVEL = "fault_enumeration"
SHARDS = {"quick": 1, "thorough": 1}  # one shard; it runs 16 session subprocesses at a time (threads + subprocess.run)
BUDGET = {"quick": 100.0, "thorough": 900.0}  # ceilings (heavily loaded machine); typical use is 15-25 s / 2-4 min
WORKERS = 24  # sessions mostly sleep (alarms, holds): more children than cores
REQUIRE = {
    "GROW_checked": 6,
    "GROW_checked:nohook": 3,
    "GROW_checked:no-alarm-pending": 3,
    "GROW_checked:hook": 3,
    "early_redraw_fault_sessions": 80,
    "early_redraw_fault_sessions:tornado:redraw1": 3,
    "early_redraw_fault_sessions:asyncio:redraw1": 3,
    "early_redraw_fault_sessions:zmq:redraw1": 3,
    "modes_sessions:mouse=1,paste=0,focus=1": 4,
    "modes_sessions:mouse=0,paste=0,focus=1": 4,
    "modes_sessions:mouse=1,paste=1,focus=0": 4,
    "modes_sessions:mouse=0,paste=1,focus=0": 4,
    "modes_sessions:mouse=1,paste=0,focus=0": 4,
    "modes_sessions:mouse=0,paste=1,focus=1": 4,
    "filter_called_from_rehook:rehook-in-screen-start": 4,
    "filter_called_from_rehook:rehook-in-loop-start": 4,
    "fault_in_filter_called_from_rehook": 12,
    "MID_shell-out_checked": 30,
    "MID_suspend_checked": 3,
    "ORD_input_events_after_shell_out": 50,
    "fd0_sessions": 60,
    "fd0_sessions:tornado": 8,
    "fd0_sessions_ended_by_an_exception": 20,
    "fd0_rerun_sessions": 10,
    "SIZE_bursts_settled": 10,
    "SIZE_resize_and_key_in_one_batch": 4,
    "SIZE_widget_sizes_checked": 200,
    "RST_termios_checked_after_stty_between_runs": 20,
    "RST_termios_checked_after_signal_keys_changed_between_runs": 8,
    "RST_termios_checked_after_other_settings_changed_between_runs": 12,
    "EXIT_group_shape_checked": 40,
    "EXIT_group_shape_checked:eg1_boom": 8,
    "EXIT_group_shape_checked:beg1_base": 8,
    "EXIT_group_shape_checked:eg2": 8,
    "EXIT_group_shape_checked:egnest": 8,
    "EXIT_group_of_only_exitmainloop_ended_run_normally": 8,
    "ORD_popups_on_after_swap_checked": 100,
    "ORD_popups_on_after_swap_checked:swapped-before-any-popup": 20,
    "ORD_popups_on_after_swap_checked:swapped-after-popup-closed": 20,
    "ORD_popups_on_after_swap_checked:swapped-while-popup-open": 10,
    "RDW_page_checked_after_swap": 5,
    "rerun_sessions": 30,
    "reruns_judged": 60,
    "reruns_judged:rerun-after-boom": 8,
    "reruns_judged:rerun-after-base": 5,
    "reruns_judged:rerun-after-exit": 8,
    "reruns_judged:rerun-after-scripted-exit": 8,
    "ign_handler_sessions": 20,
    "ign_handler_sessions:ign": 8,
    "ign_handler_sessions:ign:SIGTSTP": 3,
    "ORD_same_batch_after_swap_checked": 50,
    "ORD_same_batch_after_swap_checked:to-N": 10,
    "ORD_same_batch_after_swap_checked:to-T": 10,
    "ORD_keys_past_unselectable_top": 20,
    "inject_reached:base": 40,
    "EXIT_base_checked": 40,
    "inject_reached:sysexit": 8,
    "split_observed": 12,
    "split_stale_alarm_window_covered": 3,
    "reach:display._posix_raw_display.Screen._stop": 100,
    "reach:display._posix_raw_display.Screen.signal_restore": 100,
    "reach:display._raw_display_base.Screen._stop_mouse_restore_buffer": 100,
    "reach:display._raw_display_base.Screen._sigwinch_handler": 50,
    "reach:event_loop.main_loop.MainLoop._run_screen_event_loop": 5,
    "reach:event_loop.main_loop.MainLoop.entering_idle": 500,
    "reach:widget.popup.PopUpTarget.keypress": 50,
    "fresh_vs_forked_agree": 6,
    "sessions": 100,
    "sessions_faultfree": 8,
    "inject_reached:exit": 40,
    "inject_reached:boom": 40,
    "ORD_input_events_checked": 300,
    "ORD_unhandled_checked": 100,
    "RDW_log_pairs_checked": 100,
    "RDW_vt_checked": 50,
    "EXIT_exit_checked": 40,
    "EXIT_boom_checked": 40,
    "RST_checked": 100,
    "RST_modes_were_on": 100,
    "popup_routed_events": 5,
    "nohook_sessions": 5,
    "custom_handler_sessions": 3,
    "loop:select": 20,
    "loop:asyncio": 20,
    "loop:tornado": 8,
    "loop:twisted": 8,
    "loop:trio": 8,
    "loop:zmq": 8,
    "site_injected:filter": 2,
    "site_injected:keypress": 2,
    "site_injected:mouse": 2,
    "site_injected:unhandled": 2,
    "site_injected:alarm": 2,
    "site_injected:file": 2,
    "site_injected:pipe": 2,
    "site_injected:render": 2,
}
RULE = (
    "a case = one MainLoop.run() session in a fresh subprocess on a pty: configuration (event loop in select/asyncio/"
    "tornado/twisted/trio/zmq, screen with or without hook_event_loop, pop_ups on/off, mouse tracking/bracketed paste/"
    "focus reporting on or off, initial signal dispositions default | application functions | SIG_IGN (all four or one signal)) x scripted session (keys, SGR "
    "mouse presses, focus/paste sequences, SIGWINCH with a real size change, 2 alarms, watch_pipe write, watch_file "
    "write, pop-up open/close, a widget never served from the canvas cache with faults at redraw 0-3, all 8 (mouse, bracketed paste, focus reporting) combinations, a partial escape sequence pending across shell-out and across run() calls, shell-out (screen.stop() ... screen.start() inside a key handler / alarm callback) and SIGTSTP/SIGCONT mid-session, the terminal on file descriptors 0/1, resize bursts (2-3 real size changes in a row) followed by a key written inside get_input()'s resize throttle, stty changes of the terminal between two runs (iflag/lflag bits, erase/kill/eof, intr/quit/start/stop/susp), MainLoop.run() called two or three times on the same MainLoop/event-loop/screen objects (every loop but twisted; each run ended by a fault kind or the scripted exit and judged separately), several keys in one write whose first key makes a callback replace loop.widget by a page of other selectability / other handled keys, keys split over two writes (ESC|[A, a split UTF-8 char, a split SGR mouse report, a split f5) "
    "with the second write made after the loop read the first and the loop then held waiting > complete_wait; fixed orders + "
    "seeded shuffles in thorough) x injection (none, or ExitMainLoop / Boom(Exception) / Halt(BaseException) / SystemExit / exception groups (of one Boom, one ExitMainLoop, one BaseException, two members, nested one-in-one) "
    "at the k-th invocation of one of the 8 callback sites, enumerated from the fault-free run of the same "
    "configuration); quick = full enumeration for select and asyncio, first/last/per-site points elsewhere; thorough = "
    "full enumeration everywhere; distinct = distinct (configuration, script, injection); non-trivial = run() was entered "
    "and the terminal modes were observed switched on"
)
ASSUMES = [
    "an exception group raised by a callback is judged by type, message, notes, shape and the identity of its leaf exceptions (the group leaving run() is an equal COPY on every loop: contextlib.suppress(ExitMainLoop) in MainLoop.run re-raises BaseExceptionGroup.split()[1], and Trio rebuilds groups too; counted as EXIT_group_equal_copy)",
    "a group whose only leaves are ExitMainLoop ends run() normally on every loop: MainLoop.run and the select/zmq loops use contextlib.suppress(ExitMainLoop), which since Python 3.12 removes matching members from exception groups (stdlib semantics, measured on all six loops and the no-hook path); it is counted, and judged only in that run() must end at that point and the terminal be restored",
    "each session runs in its own process forked from a template interpreter that has only imported urwid and the loop libraries (no loop, reactor, screen or signal handler was ever created in it); 12 sessions per run are repeated in brand-new interpreters (subprocess.run) and must agree (fresh_vs_forked_agree), VERIF_C12_FRESH=1 and --replay use brand-new interpreters throughout",
    "callbacks that run between an injected fault and the end of run() are counted, not judged (asyncio/tornado/twisted/trio stop at the end of the current loop iteration); a fault that does not end run() before the session's own scripted exit is a violation",
    "'window resize' is an input event seen by the input filter only (MainLoop documents that it handles resizing itself); it is not expected at the widget",
    "the pop-up routing model: with pop_ups=True a key goes to the pop-up widget while one is open, a mouse event goes to it iff it lies inside the pop-up rectangle",
    "the logical redraw rule (>= 50 ms between an event and a later alarm's due time => a redraw of that state lies between them) stands for 'before the loop next waits'; because a descheduled process can fake its precondition, an RDW violation is reported only if two re-executions of the same session show it again",
    "SIGINT under TwistedEventLoop is changed by the Twisted reactor itself (reactor.run installs it), not by the display; it is counted, not judged",
    "a screen without external event-loop support is modelled by a raw Screen subclass whose hook_event_loop attribute is absent; MainLoop only accepts it with the default SelectEventLoop, and watch_file/watch_pipe are not serviced there (not judged)",
    "vt.py is the judge of what the byte stream does to a terminal; the bytes are those read from the pty master",
    "decoding bytes->keys is C05's subject: the expected key list per script step is a fixed table for a handful of unambiguous sequences",
]

LOOPS = ("select", "asyncio", "tornado", "twisted", "trio", "zmq")
# exception groups raised by the callback: ExceptionGroup of one Boom / of one ExitMainLoop, BaseExceptionGroup of one
# BaseException, ExceptionGroup of two, ExceptionGroup of one ExceptionGroup of one
GROUP_KINDS = ("eg1_boom", "eg1_exit", "beg1_base", "eg2", "egnest")
SITES = pty_term.SITES
POP = {"left": 2, "top": 1, "w": 12, "h": 3}
HANDLED_KEYS = ("a", "p", "c", "x", "y", "w", "begin paste", "end paste")
# pages that the scripted callbacks install as loop.widget: selectability and handled keys differ
PAGE_SELECTABLE = {"M": True, "N": False, "T": True}
PAGE_HANDLED = {"M": HANDLED_KEYS, "P": HANDLED_KEYS, "N": (), "T": ("b", "t", "w")}
SWAP_KEYS = {"n": "N", "s": "T", "m": "M"}  # unhandled_input(key) does loop.widget = page; key 'w' handled by a widget -> page N
STATEFUL = ("keypress", "mouse", "unhandled", "alarm", "pipe", "file")

# token -> (bytes written to the master, decoded input events expected from them)
TOK = {
    "a": ("a", ["a"]),
    "bz": ("bz", ["b", "z"]),
    "x": ("x", ["x"]),
    "up": ("\x1b[A", ["up"]),
    "m1": ("\x1b[<0;4;3M", [["mouse press", 1, 3, 2]]),
    "m3": ("\x1b[<2;4;3M", [["mouse press", 3, 3, 2]]),
    "m1out": ("\x1b[<0;25;7M", [["mouse press", 1, 24, 6]]),
    "p": ("p", ["p"]),
    "c": ("c", ["c"]),
    "focus": ("\x1b[I", ["focus in"]),
    "paste": ("\x1b[200~xy\x1b[201~", ["begin paste", "x", "y", "end paste"]),
    "Q": ("Q", ["Q"]),
    "sh": ("S", ["S"]),
    "bigA": ("A", ["A"]),
    "up2": ("[A", ["up"]),  # completes the ESC left pending by the "@part_esc" step  # unhandled_input('S') shells out: loop.screen.stop(); ...; loop.screen.start()
    # several keys in ONE write; the first one swaps loop.widget, the rest must follow the new topmost widget
    "nab": ("nab", ["n", "a", "b"]),
    "sbt": ("sbt", ["s", "b", "t"]),
    "ta": ("ta", ["t", "a"]),
    "wab": ("wab", ["w", "a", "b"]),
    "mab": ("mab", ["m", "a", "b"]),
    "sab": ("sab", ["s", "a", "b"]),
}
# the same page swaps with pop_ups=True: before any pop-up was opened, after one was opened and closed, while one is open
SCRIPT_WP = ["a", "nab", "m1", "sbt", "@alarm0", "ta", "mab", "p", "a", "m1", "c", "sab", "ta", "mab", "p", "wab", "m1", "@alarm1", "mab", "c", "sbt", "@alarm2", "Q"]
SCRIPT_W = ["a", "nab", "m1", "sbt", "@alarm0", "ta", "wab", "@winch", "@pipe", "mab", "sab", "m3", "@alarm1", "Q"]
# one key whose bytes reach the terminal in two writes, the second after the loop has read the first: (frag1, frag2, keys)
SPLIT = {
    "s_up": ("\x1b", "[A", ["up"]),
    "s_u8": ("\xc3", "\xa9", ["\u00e9"]),
    "s_m1": ("\x1b[<0;4", ";3M", [["mouse press", 1, 3, 2]]),
    "s_f5": ("\x1b[1", "5~", ["f5"]),
}
# resize bursts: the terminal changes size 2-3 times in a row, then a key is written without waiting for the redraw
BURSTS = {"@burst2": ([[50, 12], [60, 14]], "a"), "@burst3": ([[44, 11], [52, 13], [36, 9]], "x")}
# shell-out from a key handler and from an alarm callback (and ctrl-z / fg where the app's own SIGTSTP handler allows it),
# with input, mouse and a resize afterwards
SCRIPT_K = ["@shalarm", "a", "sh", "up", "m1", "@alarm0", "bz", "@suspend", "x", "@winch", "a", "sh", "m3", "@alarm1", "a", "Q"]
# a partial escape sequence is pending in the screen while a callback shells out (stop / start re-hook the input)
SCRIPT_PK = ["@shalarm", "a", "@part_esc", "@alarm0", "up2", "bz", "m1", "@alarm1", "Q"]
# a truncated escape sequence grows during complete_wait (ESC, then "[") and stays incomplete, then silence, then the next key:
# the pending bytes must be delivered once complete_wait has passed, not withheld until (and merged with) the next key
SCRIPT_G = ["a", "@grow", "@hold", "bigA", "bz", "@alarm0", "@grow", "@hold", "up", "@alarm1", "Q"]
SCRIPT_G0 = ["@noalarms", "a", "@grow", "@hold", "bigA", "bz", "m1", "@grow", "@hold", "up", "Q"]  # the same with no alarm pending
SCRIPT_Z = ["a", "@burst2", "up", "m1", "@alarm0", "@burst3", "bz", "m3", "@alarm1", "@winch", "a", "Q"]
COMPLETE_WAIT = 0.4  # generous, so that a slow driver thread does not let a split key time out for real
HOLD = COMPLETE_WAIT + 0.6  # the loop is kept waiting this long after the last split's first fragment was read
SCRIPT_P = ["a", "s_up", "bz", "s_u8", "@alarm0", "s_m1", "s_f5", "@hold", "up", "@alarm1", "Q"]
SCRIPT_A = ["a", "bz", "m1", "up", "focus", "@alarm0", "@winch", "@pipe", "@file", "paste", "p", "a", "m1", "m1out", "c", "@alarm1", "Q"]
SCRIPT_S = ["a", "bz", "m1", "@alarm0", "@winch", "@pipe", "@file", "up", "m3", "@alarm1", "Q"]
SCRIPT_B = ["@winch", "@pipe", "a", "m3", "@alarm0", "@file", "p", "bz", "m1", "c", "up", "paste", "@alarm1", "@winch2", "focus", "Q"]


def build_script(tokens, cfg):
    """token list -> pty_term script steps (+ the token kept as 3rd element for the oracle)"""
    steps = []
    for t in tokens:
        if t == "focus" and not cfg["focus"]:
            continue
        if t == "paste" and not cfg["paste"]:
            continue
        if t in ("@pipe", "@file") and not cfg["hook"]:
            continue
        if t == "@part_esc":
            if cfg["hook"]:
                steps.append(["part1", "\x1b", t])
            continue
        if t == "up2" and not cfg["hook"]:
            continue
        if t == "@shalarm":
            continue  # not a step: the first harness alarm's callback shells out (spec["shell_in_alarm0"])
        if t == "@suspend":
            # only when the application installed its own SIGTSTP handler: the harness's one blocks the main thread until SIGCONT
            # has been delivered (stand-in for the process really being stopped) instead of stopping the whole child
            if cfg["handlers"] == "custom":
                steps.append(["suspend", None, t])
            continue
        if t == "@noalarms":
            continue  # not a step: the session has no alarm at all (the loop waits for input with no timeout)
        if t == "@grow":
            steps.append(["grow", ["\x1b", "[", 0.05], t])
            continue
        if (t in SPLIT or (t == "@hold" and "@grow" not in tokens)) and not cfg["hook"]:
            continue  # _run_screen_event_loop never shows an incomplete read to the filter: a split cannot be observed
        if t in SPLIT:
            steps.append(["split", [SPLIT[t][0], SPLIT[t][1]], t])
            continue
        if t == "@hold":
            steps.append(["hold", HOLD, t])
            continue
        if t == "@alarm0":
            steps.append(["alarm", 0, t])
        elif t == "@alarm1":
            steps.append(["alarm", 1, t])
        elif t == "@alarm2":
            steps.append(["alarm", 2, t])
        elif t == "@winch":
            steps.append(["winch", [30, 8], t])
        elif t == "@winch2":
            steps.append(["winch", [36, 9], t])
        elif t in BURSTS:
            steps.append(["burst", {"sizes": BURSTS[t][0], "key": BURSTS[t][1], "gap": 0.03}, t])
        elif t == "@pipe":
            steps.append(["pipe", "P", t])
        elif t == "@file":
            steps.append(["file", "F", t])
        else:
            steps.append(["keys", TOK[t][0], t])
    return steps


def make_spec(cfg, tokens, inject=None):
    return {
        "repo": core.REPO,
        "loop": cfg["loop"],
        "hook": cfg["hook"],
        "fd0": bool(cfg.get("fd0")),
        "shell_in_alarm0": "@shalarm" in tokens,
        "pop_ups": cfg["pop_ups"],
        "mouse": cfg["mouse"],
        "paste": cfg["paste"],
        "focus": cfg["focus"],
        "handlers": cfg["handlers"],
        "size": [40, 10],
        "alarms": [] if "@noalarms" in tokens else ([0.09, 0.17, 0.25] if "@alarm2" in tokens else [0.09, 0.17]),
        "backstop": None if "@noalarms" in tokens else 4.0,
        "step_wait": 0.3,
        "script": build_script(tokens, cfg),
        "tokens": list(tokens),
        "inject": inject,
        "utf8": any(t in SPLIT for t in tokens),
        "complete_wait": COMPLETE_WAIT if any(t in SPLIT or t in ("@part_esc", "@grow") for t in tokens) else None,
        "always_render": bool(cfg.get("always_render")),
    }


def cfg_of(spec):
    return {k: spec.get(k) for k in ("loop", "hook", "pop_ups", "mouse", "paste", "focus", "handlers", "fd0")}


def cfg_tag(spec):
    return f"{spec['loop']}|{'hook' if spec['hook'] else 'nohook'}"


# ------------------------------------------------------------------ oracle


def inject_class(spec, log):
    """abstract name of the injection point for signatures: site (+ context for render) : kind"""
    inj = spec.get("inject")
    if not inj:
        return "none"
    site = inj["site"]
    if site == "render":
        pos = next((i for i, e in enumerate(log) if e["site"] == "inject"), None)
        via = log[pos - 1].get("via", "other") if pos else "unreached"
        first = pos is not None and not any(e["site"] == "flush" for e in log[:pos])
        site = "render-initial" if first else {"input": "render-in-input", "idle": "render-idle", "screenloop": "render-idle"}.get(via, f"render-{via}")
    if site == "filter":
        pos = next((i for i, e in enumerate(log) if e["site"] == "inject"), None)
        via = log[pos - 1].get("via", "input") if pos else "input"
        if via != "input":
            site = f"filter-{via}"  # the filter was called from inside Screen._stop / _start / MainLoop.start (re-hook)
    return f"{site}:{inj['kind']}"


def expected_keys(spec):
    out = []
    for st in spec["script"]:
        if st[0] == "keys":
            out.extend(TOK[st[2]][1])
        elif st[0] == "split":
            out.extend(SPLIT[st[2]][2])
        elif st[0] == "burst":
            out.extend(list(BURSTS[st[2]][1]))
        elif st[0] == "grow":
            out.append("meta [")  # ESC [ left incomplete for longer than complete_wait is delivered as it stands
    return out


def split_facts(spec, log, limit, ctx):
    """bookkeeping for split keys -> (some split timed out for real, stale-alarm window covered)"""
    timed_out = False
    n_obs = 0
    last_first_read = None
    for i in range(limit):
        e = log[i]
        if e["site"] != "step" or e["kind"] != "split":
            continue
        j = next((x for x in range(i + 1, limit) if log[x]["site"] == "step2" and log[x]["n"] == e["n"]), None)
        if j is None:
            continue
        between = [x for x in log[i + 1 : j] if x["site"] == "filter"]
        if any(x["keys"] for x in between):
            timed_out = True  # complete_wait really expired before the second write: urwid rightly delivered the fragment
            ctx.count("split_timed_out_not_judged")
        elif log[j].get("first_read_seen"):
            n_obs += 1
            ctx.count("split_observed")
            ctx.count(f"split_observed:{spec['script'][e['n']][2]}")
            last_first_read = next(x["t"] for x in between if not x["keys"])
        else:
            ctx.count("split_not_observed")
    covered = False
    if n_obs and last_first_read is not None:
        held = next((x for x in log[:limit] if x["site"] == "held"), None)
        if held is not None and held["t"] >= last_first_read + float(spec["complete_wait"]) + 0.03:
            covered = True
            ctx.count("split_stale_alarm_window_covered")
    return timed_out, covered


def judge(spec, res, ctx, base_rst=None):  # noqa: C901, PLR0912, PLR0915
    """-> list of (signature, message). Counters are added to ctx."""
    v = []
    tag = cfg_tag(spec) + spec.get("run_ctx", "")  # a later run() on the same objects: '|rerun-after-<how the previous run ended>'
    log = res["log"]
    inj = spec.get("inject")
    icls = inject_class(spec, log)
    inj_pos = next((i for i, e in enumerate(log) if e["site"] == "inject"), None)
    reached = inj_pos is not None
    out = res["outcome"]
    pop = "pop" if spec["pop_ups"] else "nopop"

    def add(clause, detail, msg):
        # ordering / redraw defects show before any fault is injected: their signature does not name the injection
        if clause in ("ORD", "RDW"):
            v.append((f"C12|{tag}|{clause}|{detail}", msg + f" [session inj={icls}]"))
        elif spec.get("rst_any_callback") and inj:
            v.append((f"C12|{tag}|{clause}|{detail}|inj=any-callback:{inj['kind']}", msg))
        else:
            v.append((f"C12|{tag}|{clause}|{detail}|inj={icls}", msg))

    def add_rst(detail, msg):
        # a restoration failure that the fault-free session of the same configuration shows too does not depend on the
        # exit path: one signature for it; otherwise the exit path (not the exact callback) names the mechanism
        if icls.startswith(("filter-rehook-in-loop-start:", "filter-rehook-in-screen-start:")):
            # MainLoop.start() itself raised (user code called while it hooks the screen): whatever is left unrestored is
            # one mechanism -- nothing stops the screen that start() had started
            sig_ = f"C12|{cfg_tag(spec)}|RST|display-left-started-when-MainLoop.start-raised|any-fault"
            if not any(x[0] == sig_ for x in v):
                v.append((sig_, f"a fault ({inj['kind']}) in the input filter, called from MainLoop.start() while re-hooking a screen with a pending partial escape sequence, left the display started: {detail}; {msg}"))
            return
        if detail.startswith("termios|changed-between-runs|"):
            # defined by what changed between the two sessions, not by how either of them ended
            v.append((f"C12|{cfg_tag(spec)}|RST|{detail}|any-exit-path", msg))
            return
        if not inj or (base_rst is not None and detail in base_rst):
            path = "any-exit-path"
        elif spec.get("rst_any_callback"):
            path = f"after-{inj['kind']}-from-any-callback"
        else:
            path = f"after-{icls}"
        v.append((f"C12|{tag}|RST|{detail}|{path}", msg))

    # ---------------- ORD: filter -> widget -> unhandled, arrival order
    exp_keys = expected_keys(spec)
    got_keys = []
    popup_open = False
    top = "M"  # which page is loop.widget right now (model of the scripted swaps)
    swaps_so_far = 0
    popup_ever = False
    popup_phase = "none"
    top_at_alarm = {}  # id(alarm event) -> page that is loop.widget when that alarm fires
    swapped_in_batch = False  # a swap happened while later keys of the same batch were still undelivered
    pending = []  # input events (already filtered) still to be delivered from the last filter call
    events = [e for e in log if e["site"] in ("filter", "keypress", "mouse", "unhandled", "ret", "inject", "alarm", "pipe", "file", "shell_end", "resumed")]
    shelled_out = False
    ord_broken = False
    cur = None  # input event being delivered
    cur_unh = None
    stage = None  # None | 'need-unhandled'
    for e in events:
        s = e["site"]
        if s == "inject":
            break
        if s in ("shell_end", "resumed"):
            shelled_out = True
            continue
        if s == "filter":
            if e.get("via", "input") != "input":
                ctx.count(f"filter_called_from_rehook:{e['via']}")
            if pending or stage in ("need-unhandled",):
                add("ORD", "next-filter-before-batch-delivered", f"filter called while {pending!r}/{stage} undelivered")
                ord_broken = True
                break
            ks = [k for k in e["keys"] if k != "window resize"]
            got_keys.extend(ks)
            pending = [k for k in ks if k != "z"]
            stage = None
            swapped_in_batch = False
            continue
        if s in ("alarm", "pipe", "file"):
            if s == "alarm":
                top_at_alarm[id(e)] = (top, bool(spec["pop_ups"] and popup_open and top == "M"))
            if pending or stage == "need-unhandled":
                add("ORD", f"{s}-callback-inside-input-batch", f"{s} callback ran while input {pending!r} was undelivered")
                ord_broken = True
                break
            continue
        if s in ("keypress", "mouse"):
            if stage == "need-unhandled":
                add("ORD", "unhandled-input-skipped", f"widget got {e.get('key', e.get('ev'))!r} but {cur!r} never reached unhandled_input")
                ord_broken = True
                break
            if not pending:
                add("ORD", f"spurious-{s}", f"widget {s} {e.get('key', e.get('ev'))!r} without a pending input event")
                ord_broken = True
                break
            cur = pending.pop(0)
            if _swallowed_by_overlay(spec, popup_open and top == "M", cur):
                # open pop-up + mouse event outside it: the topmost widget (PopUpTarget/Overlay) declines it without
                # asking any child, so it must have gone to unhandled_input -- which the log would show first
                add("ORD", "unhandled-input-skipped", f"{cur!r} (outside the open pop-up) never reached unhandled_input")
                ord_broken = True
                break
            if isinstance(cur, str) and not PAGE_SELECTABLE[top]:
                add("ORD", "key-offered-to-unselectable-topmost-widget", f"{cur!r}: the topmost widget is now page {top} (not selectable) but widget {e['w']} {s} was called with {e.get('key', e.get('ev'))!r}; it must go to unhandled_input")
                ord_broken = True
                break
            want_site = "keypress" if isinstance(cur, str) else "mouse"
            got = e.get("key") if s == "keypress" else e.get("ev")
            recv = top
            want = cur
            if spec["pop_ups"] and popup_open and top == "M":  # only page M carries the pop-up in its canvas
                recv = "P"
                if not isinstance(cur, str):
                    want = [cur[0], cur[1], cur[2] - POP["left"], cur[3] - POP["top"]]
            if s != want_site or got != want:
                add("ORD", "wrong-event-at-widget", f"expected {want_site} {want!r}, widget saw {s} {got!r}")
                ord_broken = True
                break
            if e["w"] != recv:
                add("ORD", f"wrong-receiver|{pop}", f"{cur!r} went to spy {e['w']} expected {recv} (popup_open={popup_open}, topmost page={top})")
                ord_broken = True
                break
            if e["w"] == "P":
                ctx.count("popup_routed_events")
            ctx.count("ORD_input_events_checked")
            if shelled_out:
                ctx.count("ORD_input_events_after_shell_out")
            if swapped_in_batch:
                ctx.count("ORD_same_batch_after_swap_checked")
                ctx.count(f"ORD_same_batch_after_swap_checked:to-{top}")
            if spec["pop_ups"] and swaps_so_far:
                ctx.count("ORD_popups_on_after_swap_checked")
                ctx.count(f"ORD_popups_on_after_swap_checked:{popup_phase}")
            # model of the spy's documented behaviour
            if s == "keypress":
                handled = cur in PAGE_HANDLED[e["w"]]
                if handled and cur == "w":
                    top = "N"
                    swapped_in_batch = bool(pending)
                    swaps_so_far += 1
                    popup_phase = "swapped-while-popup-open" if popup_open else ("swapped-after-popup-closed" if popup_ever else "swapped-before-any-popup")
                if handled and cur == "p" and e["w"] == "M":
                    popup_ever = True
                if handled and cur == "p" and e["w"] == "M":
                    popup_open = True
                if handled and cur == "c" and e["w"] == "P":
                    popup_open = False
            else:
                handled = cur[1] == 1
            cur_unh = cur  # unhandled_input gets the event as the topmost widget got it
            stage = None if handled else "need-unhandled"
            continue
        if s == "unhandled":
            if stage != "need-unhandled" and pending and _swallowed_by_overlay(spec, popup_open and top == "M", pending[0]):
                cur = cur_unh = pending.pop(0)
                stage = "need-unhandled"
                ctx.count("ORD_input_events_checked")
                ctx.count("popup_outside_mouse_events")
            elif stage != "need-unhandled" and pending and isinstance(pending[0], str) and not PAGE_SELECTABLE[top]:
                # the topmost widget is not selectable (PopUpTarget.selectable() is its body's): a key goes straight to unhandled_input
                cur = cur_unh = pending.pop(0)
                stage = "need-unhandled"
                ctx.count("ORD_input_events_checked")
                ctx.count("ORD_keys_past_unselectable_top")
                if swapped_in_batch:
                    ctx.count("ORD_same_batch_after_swap_checked")
                    ctx.count(f"ORD_same_batch_after_swap_checked:to-{top}")
            if stage != "need-unhandled":
                add("ORD", "unhandled-called-for-handled-input", f"unhandled_input({e['key']!r}) although the widget handled it / nothing pending")
                ord_broken = True
                break
            if e["key"] != cur_unh:
                add("ORD", "unhandled-wrong-event", f"unhandled_input got {e['key']!r}, expected {cur_unh!r}")
                ord_broken = True
                break
            ctx.count("ORD_unhandled_checked")
            stage = None
            if isinstance(cur_unh, str) and cur_unh in SWAP_KEYS:
                top = SWAP_KEYS[cur_unh]
                swapped_in_batch = bool(pending)
                swaps_so_far += 1
                popup_phase = "swapped-while-popup-open" if popup_open else ("swapped-after-popup-closed" if popup_ever else "swapped-before-any-popup")
            continue
    complete = not reached
    split_timed_out, _ = split_facts(spec, log, inj_pos if reached else len(log), ctx)
    # a lone ESC left pending on purpose ("@part_esc", completed by a later "[A", possibly in a later run()): if the process
    # was descheduled for longer than complete_wait in between, urwid rightly delivers the ESC on its own
    t_part = spec.get("partial_read_t")
    if t_part is None:
        t_part = next((e["t"] for e in log if e["site"] == "part1_read"), None)
    t_last = max((e["t"] for e in log if "t" in e), default=None)
    if spec.get("run_ctx") and spec.get("partial_family"):
        # later run() of a session that left a lone ESC pending across runs: the family exists for faults inside
        # MainLoop.start() (EXIT / RST); how the stale ESC combines with later bytes is not judged here
        split_timed_out = True
        ctx.count("partial_across_runs_arrival_not_judged")
    elif t_part is not None and t_last is not None and t_last - t_part > 0.6 * float(spec.get("complete_wait") or 0.125):
        split_timed_out = True
        ctx.count("partial_pending_too_long_not_judged")
    if split_timed_out:
        ctx.count("ORD_sessions_not_judged_split_timed_out")
    elif not ord_broken:
        if got_keys != exp_keys[: len(got_keys)]:
            i, extra = 0, []
            for g in got_keys:
                if i < len(exp_keys) and g == exp_keys[i]:
                    i += 1
                else:
                    extra.append(g)
            if extra and all(g not in exp_keys[i:] for g in extra):
                add("ORD", "phantom-input-event", f"the filter saw input that was never sent: {extra!r}; saw {got_keys!r}, script sent {exp_keys!r}")
            else:
                add("ORD", "arrival-order", f"filter saw {got_keys!r}, script sent {exp_keys!r}")
        elif complete and out["how"] == "returned" and got_keys != exp_keys:
            add("ORD", "input-lost", f"filter saw {got_keys!r}, script sent {exp_keys!r}")
        elif complete and (pending or stage == "need-unhandled") and not _final_exit(log):
            add("ORD", "batch-not-delivered", f"pending {pending!r} stage {stage}")
        ctx.count("ORD_sessions_checked")

    # ---------------- GROW: bytes pending longer than complete_wait are delivered without waiting for another key
    g_idx = None
    for idx in range(inj_pos if reached else len(log)):
        e = log[idx]
        if e["site"] == "grown":
            g_idx = idx
        elif e["site"] == "held" and g_idx is not None:
            if e["t"] - log[g_idx]["t"] >= float(spec.get("complete_wait") or 0.125) + 0.05:
                ctx.count("GROW_checked")
                ctx.count(f"GROW_checked:{'hook' if spec['hook'] else 'nohook'}")
                if spec.get("backstop") is None:
                    ctx.count("GROW_checked:no-alarm-pending")
                if not any(x["site"] == "filter" and x["keys"] for x in log[g_idx:idx]) and not any("pending-input-withheld" in x[0] for x in v):
                    add("ORD", "pending-input-withheld-until-next-key", f"ESC then '[' were written {e['t'] - log[g_idx]['t']:.2f} s ago (complete_wait {spec.get('complete_wait')}) and nothing else followed, but no input event has reached the filter: the bytes stay pending in the screen")
            g_idx = None

    # ---------------- SIZE: after a size change the loop has settled on, input and redraws use the terminal's size
    lim = inj_pos if reached else len(log)
    cur_size = list(spec["size"])
    changed = False  # the terminal size changed at least once
    resize_seen = True  # the filter saw 'window resize' after the last size change
    checking = False
    prev_settled = False
    size_bad = False
    for idx in range(lim):
        e = log[idx]
        s_ = e["site"]
        if s_ == "resized":
            cur_size, changed, resize_seen, checking = list(e["size"]), True, False, False
        elif s_ == "filter":
            if "window resize" in e["keys"]:
                resize_seen = True
                if len(e["keys"]) > 1:
                    ctx.count("SIZE_resize_and_key_in_one_batch")
        elif s_ == "settled":
            prev_settled = bool(e["ok"])
            k_ = spec["script"][e["n"]][0] if e["n"] < len(spec["script"]) else ""
            if k_ == "burst":
                ctx.count("SIZE_bursts_settled" if e["ok"] else "SIZE_bursts_not_settled")
        elif s_ == "step":
            if e["kind"] in ("keys", "split") and changed and prev_settled:
                # the previous step (a resize, a burst + key, or later input) was consumed and redrawn: from here on the
                # loop must know the terminal's current size
                if not resize_seen and not size_bad:
                    add("ORD", "window-resize-never-reached-the-filter", f"the terminal became {cur_size} but no 'window resize' reached the input filter before the next input step")
                    size_bad = True
                checking = True
        elif checking and s_ in ("keypress", "mouse", "render") and e.get("w") in ("M", "N", "T") and not size_bad:
            ctx.count("SIZE_widget_sizes_checked")
            if e["size"] != cur_size:
                add("RDW" if s_ == "render" else "ORD", f"stale-terminal-size-at-{s_}", f"{s_} got size {e['size']} but the terminal is {cur_size} since an earlier, settled size change")
                size_bad = True

    # ---------------- RDW: logical redraw rule
    limit = inj_pos if reached else len(log)
    vt = VT(spec["size"][0], spec["size"][1])
    vt_page_at = {}
    vt_stopped_at = set()
    vt_state_at = {}  # log index of alarm -> state number readable on the terminal just before it
    for idx in range(limit):
        e = log[idx]
        if e["site"] == "flush":
            vt.feed(e["data"].encode("latin-1"))
        elif e["site"] == "resized":
            vt.resize(e["size"][0], e["size"][1])
        elif e["site"] in ("shell_mid", "suspended"):
            # between screen.stop() and screen.start() (shell-out from a callback, ctrl-z) the terminal belongs to someone else
            what = "shell-out" if e["site"] == "shell_mid" else "suspend"
            ctx.count(f"MID_{what}_checked")
            badm = []
            if vt.alt_screen:
                badm.append("alt-screen")
            if not vt.cursor_visible:
                badm.append("cursor-hidden")
            badm += [f"mode{m}" for m in (1000, 1002, 1006, 2004, 1004) if m in vt.modes]
            if not e["termios_restored"]:
                badm.append("termios")
            if e["started"]:
                badm.append("screen-still-started")
            if e.get("handlers_restored") is False:
                badm.append("signal-handlers")
            for b in badm:
                add_rst(f"{what}|between-stop-and-start:{b}", f"while the screen is stopped inside the session ({what}): {b}")
        elif e["site"] == "alarm":
            if not vt.alt_screen and any(st_[0] == "suspend" for st_ in spec["script"]):
                vt_stopped_at.add(idx)
            m = re.search(r"[MNT]S=(\d+)\.", vt.row_text(0)) if vt.alt_screen else None
            vt_state_at[idx] = int(m.group(1)) if m else None
            vt_page_at[idx] = vt.row_text(0)[:1] if m else None
    rets = {}  # index of stateful event -> state after it
    for idx in range(limit):
        e = log[idx]
        if e["site"] in STATEFUL:
            for j in range(idx + 1, min(limit, idx + 12)):
                if log[j]["site"] == "ret" and log[j]["of"] == e["site"]:
                    rets[idx] = log[j]["state"]
                    break
    for ia in range(limit):
        a = log[ia]
        if a["site"] != "alarm":
            continue
        need = -1
        need_from = None
        for ie, s_after in rets.items():
            if ie < ia and a["due"] - log[ie]["t"] >= 0.05:
                ctx.count("RDW_log_pairs_checked")
                ok = any(log[j]["site"] == "render" and log[j]["w"] in ("M", "N", "T") and log[j]["state"] >= s_after for j in range(ie + 1, ia))
                if not ok:
                    add("RDW", f"no-redraw-between-{log[ie]['site']}-and-later-alarm", f"state {s_after} set by {log[ie]['site']} k={log[ie]['k']} was not rendered before alarm n={a['n']} due {a['due'] - log[ie]['t']:.3f}s later")
                if s_after > need:
                    need, need_from = s_after, log[ie]["site"]
        restarted = [log[j]["t"] for j in range(ia) if log[j]["site"] in ("shell_end", "suspended", "resumed") and "t" in log[j]]
        if need >= 0 and ia in vt_stopped_at:
            # the alarm fired while the screen was stopped (ctrl-z not yet followed by fg): nothing of urwid's is on the
            # terminal, which the MID clause checks
            ctx.count("RDW_vt_skipped_screen_stopped")
        elif need >= 0 and restarted and a["due"] - max(restarted) < 0.05:
            # the screen was stopped and started again (shell-out, ctrl-z) less than 50 ms before this alarm was due: the
            # repaint that follows a restart need not have happened yet
            ctx.count("RDW_vt_skipped_screen_just_restarted")
        elif need >= 0:
            ctx.count("RDW_vt_checked")
            shown = vt_state_at.get(ia)
            if shown is None or shown < need:
                add("RDW", f"terminal-not-showing-state-after-{need_from}", f"before alarm n={a['n']} the terminal shows state {shown}, but state {need} was set >= 50 ms before its due time")
            elif not ord_broken and id(a) in top_at_alarm and need == max(sa for ie, sa in rets.items() if ie < ia):
                # everything that happened before this alarm is >= 50 ms old: the screen must be painted by the page that
                # is loop.widget now (each page paints its own letter in the top-left corner)
                ctx.count("RDW_page_checked")
                want_page = top_at_alarm[id(a)][0]
                if want_page != "M":
                    ctx.count("RDW_page_checked_after_swap")
                if vt_page_at.get(ia) != want_page:
                    add("RDW", f"terminal-painted-by-replaced-widget|{pop}", f"before alarm n={a['n']} the terminal is painted by page {vt_page_at.get(ia)!r}, but loop.widget is page {want_page!r} since >= 50 ms")

    # ---------------- EXIT
    after = [e for e in log[inj_pos + 1 :] if e["site"] in SITES] if reached else []
    after += res.get("late_events", [])
    fe = _final_exit(log)
    if not reached:
        if inj:
            ctx.count("inject_not_reached")
        ctx.count("EXIT_faultfree_checked")
        if out["how"] != "returned":
            add("EXIT", f"faultfree-run-raised:{out.get('exc_type')}", f"run() raised {out.get('exc_repr')}\n{out.get('tb', '')}")
        elif fe != "Q":
            add("EXIT", f"session-ended-by:{fe}", "the scripted final 'Q' never ended the session")
    elif _final_exit(log[:inj_pos]) is not None:
        # the scripted final ExitMainLoop was raised first and a lazily stopping loop (asyncio/tornado/twisted/trio) still
        # ran the callback that carries the injection: two exits compete, the statement does not say which wins
        ctx.count("inject_after_final_exit_not_judged")
    else:
        kind = inj["kind"]
        fe = _final_exit(log[inj_pos:])
        ctx.count(f"inject_reached:{kind}")
        if icls.startswith("filter-rehook"):
            ctx.count("fault_in_filter_called_from_rehook")
        ctx.count(f"site_injected:{inj['site']}")
        ctx.count(f"EXIT_{kind}_checked")
        if kind == "exit":
            if out["how"] != "returned":
                add("EXIT", f"exitmainloop-raised:{out.get('exc_type')}", f"run() raised {out.get('exc_repr')}\n{out.get('tb', '')}")
            elif fe is not None:
                add("EXIT", "exitmainloop-ignored", f"ExitMainLoop from {icls} did not end run(); session went on until final exit via {fe}; {len(after)} callbacks later")
        elif kind in GROUP_KINDS:
            # an exception group raised by the callback: some loops (trio) rebuild group objects, so what leaves run() is judged
            # by type / message / notes / shape and by the IDENTITY of the leaf exceptions, not by the identity of the group
            want, got = out.get("injected_shape"), out.get("shape")
            if out["how"] == "returned":
                if kind == "eg1_exit" and fe is None:
                    # contextlib.suppress(ExitMainLoop) (MainLoop.run, select/zmq loops) strips ExitMainLoop members from groups
                    # since Python 3.12: a group of nothing but ExitMainLoop is an exit request (see ASSUMES); run() did end here
                    ctx.count("EXIT_group_of_only_exitmainloop_ended_run_normally")
                elif kind == "eg1_exit":
                    add("EXIT", "eg1_exit-ignored", f"a group holding only ExitMainLoop from {icls} neither ended run() nor propagated; session went on until final exit via {fe}")
                else:
                    add("EXIT", f"{kind}-swallowed", f"{kind} from {icls} never left run(): run() returned normally (final exit via {fe}); {len(after)} callbacks ran after it")
            else:
                ctx.count("EXIT_group_shape_checked")
                ctx.count(f"EXIT_group_shape_checked:{kind}")
                if got != want:
                    def subshapes(sh):
                        for m in sh.get("members", []):
                            yield m
                            yield from subshapes(m)
                    if want and any(got == m for m in subshapes(want)):
                        add("EXIT", f"{kind}-unwrapped-to-member:{got.get('type')}", f"run() raised the member {got!r} instead of the group the callback raised {want!r} (type, message and notes of the group lost)")
                    else:
                        add("EXIT", f"{kind}-replaced-by:{out.get('exc_type')}", f"run() raised {got!r}, the callback raised {want!r}\n{out.get('tb', '')}")
                elif out.get("same_object"):
                    ctx.count("EXIT_group_identical_object")
                else:
                    ctx.count("EXIT_group_equal_copy")
        else:
            if out["how"] == "returned":
                add("EXIT", f"{kind}-swallowed", f"{kind} from {icls} never left run(): run() returned normally (final exit via {fe}); {len(after)} callbacks ran after it")
            elif not out.get("same_object"):
                add("EXIT", f"{kind}-replaced-by:{out.get('exc_type')}", f"run() raised {out.get('exc_repr')} instead of the injected object\n{out.get('tb', '')}")
        # Callbacks that run between the fault and run() ending are COUNTED, not judged: asyncio/tornado/twisted/trio stop
        # at the end of the current loop iteration, so whatever was already ready in it still runs; the statement only
        # fixes how run() ends.  A fault that does not end run() shows up above (session reaches its own final exit).
        ctx.count("sessions_with_callbacks_between_fault_and_run_end", 1 if after else 0)
        ctx.count("callbacks_between_fault_and_run_end", len(after))
        if after:
            ctx.count(f"callbacks_between_fault_and_run_end:{spec['loop']}", len(after))

    # ---------------- RST
    ctx.count("RST_checked")
    data = res["master"].encode("latin-1")
    t = VT(spec["size"][0], spec["size"][1])
    t.feed(data)
    on_seen = b"\x1b[?1049h" in data
    want_on = [b"\x1b[?1049h"]
    if spec["mouse"]:
        want_on.append(b"\x1b[?1000h")
    if spec["paste"]:
        want_on.append(b"\x1b[?2004h")
    if spec["focus"]:
        want_on.append(b"\x1b[?1004h")
    if all(w in data for w in want_on):
        ctx.count("RST_modes_were_on")
    elif on_seen is False:
        ctx.count("RST_alt_screen_never_entered")
    bad = []
    if t.alt_screen:
        bad.append("alt-screen")
    if not t.cursor_visible:
        bad.append("cursor-hidden")
    for m, name in ((1000, "mouse1000"), (1002, "mouse1002"), (1003, "mouse1003"), (1006, "mouse1006"), (1015, "mouse1015"), (2004, "paste2004"), (1004, "focus1004"), (1049, "mode1049"), (47, "mode47"), (1047, "mode1047")):
        if m in t.modes:
            bad.append(name)
    if t.gl != 0 or t.charsets[0] != "B":
        bad.append("charset")
    if t.style.style() != VT(2, 2).style.style():
        bad.append("sgr")
    for b in bad:
        add_rst(f"terminal:{b}", f"final terminal state: {b} (modes={sorted(t.modes)}, alt={t.alt_screen}, cursor_visible={t.cursor_visible}); tail={data[-80:]!r}")
    if spec.get("stty_applied"):
        ctx.count("RST_termios_checked_after_stty_between_runs")
        if any(n in SIGNAL_KEY_STTY for n in spec["stty_applied"]):
            ctx.count("RST_termios_checked_after_signal_keys_changed_between_runs")
        if any(n not in SIGNAL_KEY_STTY for n in spec["stty_applied"]):
            ctx.count("RST_termios_checked_after_other_settings_changed_between_runs")
    if not res["termios_equal"]:
        tb, ta = res["termios_before"], res["termios_after"]
        diff = [n for n, (x, y) in enumerate(zip(tb, ta)) if x != y]
        ccdiff = [i for i, (x, y) in enumerate(zip(tb[6], ta[6])) if x != y]
        detail = "termios"
        if spec.get("stty_applied"):
            # the user changed the tty between two sessions: this run must restore what IT began with
            import termios as _t

            sigkeys = {_t.VINTR, _t.VQUIT, _t.VSTART, _t.VSTOP, _t.VSUSP}
            only_sigkeys = diff == [6] and set(ccdiff) <= sigkeys
            detail = "termios|changed-between-runs|" + ("signal-keys-forced-back-to-first-session-values" if only_sigkeys else "settings-of-this-session-not-restored")
        add_rst(detail, f"tcgetattr differs from what this run began with in fields {diff} (cc indices {ccdiff}): before iflag={tb[0]:#x} lflag={tb[3]:#x} cc={[tb[6][i] for i in ccdiff]!r}, after iflag={ta[0]:#x} lflag={ta[3]:#x} cc={[ta[6][i] for i in ccdiff]!r}; stty between runs: {spec.get('stty_applied')}")
    for name, d in sorted(res["signals"].items()):
        if d["same"]:
            continue
        if name == "SIGINT" and spec["loop"] == "twisted" and spec["hook"]:
            ctx.count("twisted_reactor_sigint_left_installed")
            continue
        add_rst(f"signal-handler:{name}|initial={spec['handlers']}", f"{name}: before {d['before']} after {d['after']}")
    if res["started_after"]:
        add_rst("screen-still-started", "screen.started is True after run()")
    return v


def _swallowed_by_overlay(spec, popup_open, ev):
    if not (spec["pop_ups"] and popup_open) or isinstance(ev, str):
        return False
    c, r = ev[2], ev[3]
    return not (POP["left"] <= c < POP["left"] + POP["w"] and POP["top"] <= r < POP["top"] + POP["h"])


def _final_exit(log):
    for e in log:
        if e["site"] == "final_exit":
            return e["via"]
    return None


# ------------------------------------------------------------------ workload


def base_cfg(**kw):
    c = {"loop": "select", "hook": True, "pop_ups": False, "mouse": True, "paste": True, "focus": True, "handlers": "default", "fd0": False, "always_render": False}
    c.update(kw)
    return c


def plan_configs(ctx):
    """-> list of (cfg, tokens, mode); mode: 'full' | 'ends' (k=0 and last per site) | 'first' (k=0 per site + a mid
    idle render + the very last invocation) | 'few'"""
    plans = []
    if ctx.quick:
        for lp in LOOPS:
            plans.append((base_cfg(loop=lp), SCRIPT_S, "full" if lp in ("select", "asyncio") else "first"))
        for lp in LOOPS:
            plans.append((base_cfg(loop=lp, pop_ups=True), SCRIPT_A, "first" if lp in ("select", "asyncio") else "few"))
            plans.append((base_cfg(loop=lp, pop_ups=True), SCRIPT_WP, "min"))  # page swaps under a PopUpTarget
        plans.append((base_cfg(hook=False, pop_ups=True), SCRIPT_WP, "min"))
        plans.append((base_cfg(hook=False), SCRIPT_A, "first"))
        plans.append((base_cfg(hook=False, pop_ups=True), SCRIPT_B, "few"))
        for lp in ("select", "asyncio", "twisted"):
            plans.append((base_cfg(loop=lp, handlers="custom"), SCRIPT_B, "few"))
        plans.append((base_cfg(mouse=False, paste=False, focus=False), SCRIPT_B, "few"))
        for lp in LOOPS:
            plans.append((base_cfg(loop=lp), SCRIPT_P, "min"))
        # pages swapped under a batch of keys x applications that ignore signals (all four / one at a time)
        ign = {"select": "ign", "asyncio": "ign:SIGTSTP", "tornado": "ign:SIGWINCH", "twisted": "ign", "trio": "ign:SIGCONT", "zmq": "ign:SIGINT"}
        for lp in LOOPS:
            plans.append((base_cfg(loop=lp, handlers=ign[lp]), SCRIPT_W, "few" if lp in ("select", "twisted") else "min"))
        plans.append((base_cfg(hook=False, handlers="ign"), SCRIPT_W, "min"))
        # resize bursts followed by a key inside get_input()'s resize throttle (screen without external loop support), and
        # the same bursts on hooked screens
        # the shell-out idiom (screen.stop() ... screen.start() inside a callback), ctrl-z / fg where the application's own
        # SIGTSTP handler keeps the process running; and the terminal on file descriptors 0 / 1 (Screen()'s defaults)
        for lp in LOOPS:
            plans.append((base_cfg(loop=lp, handlers="custom" if lp in ("select", "asyncio", "twisted") else "default", fd0=lp in ("asyncio", "zmq")), SCRIPT_K, "min"))
            plans.append((base_cfg(loop=lp, fd0=True), SCRIPT_S, "few"))
        plans.append((base_cfg(hook=False, handlers="custom", fd0=True), SCRIPT_K, "min"))
        # every early redraw really renders (widget never served from the canvas cache): faults at redraw 0, 1, 2, 3
        for lp in LOOPS:
            plans.append((base_cfg(loop=lp, always_render=True), SCRIPT_S, "early"))
        plans.append((base_cfg(hook=False, always_render=True), SCRIPT_S, "early"))
        # all (mouse, bracketed paste, focus reporting) combinations other than all-on / all-off
        combos = [(m, p_, f_) for m in (True, False) for p_ in (True, False) for f_ in (True, False) if (m, p_, f_) not in ((True, True, True), (False, False, False))]
        for n, lp in enumerate(LOOPS):
            m, p_, f_ = combos[n]
            plans.append((base_cfg(loop=lp, mouse=m, paste=p_, focus=f_), SCRIPT_B, "min"))
        for m, p_, f_ in combos:
            plans.append((base_cfg(hook=(m or p_), mouse=m, paste=p_, focus=f_), SCRIPT_B, "min"))
        # a partial escape sequence is pending while a callback shells out: the input filter is called from the re-hooks
        for lp in ("select", "asyncio", "tornado", "trio"):
            plans.append((base_cfg(loop=lp), SCRIPT_PK, "rehook"))
        plans.append((base_cfg(hook=False), SCRIPT_Z, "few"))
        plans.append((base_cfg(hook=False), SCRIPT_G, "min"))
        plans.append((base_cfg(hook=False), SCRIPT_G0, "min"))
        plans.append((base_cfg(loop="select"), SCRIPT_G0, "min"))
        plans.append((base_cfg(hook=False, pop_ups=True, fd0=True), SCRIPT_G, "min"))
        for lp in ("select", "asyncio", "twisted"):
            plans.append((base_cfg(loop=lp), SCRIPT_G, "min"))
        plans.append((base_cfg(hook=False, pop_ups=True), SCRIPT_Z, "min"))
        for lp in ("select", "asyncio", "trio"):
            plans.append((base_cfg(loop=lp), SCRIPT_Z, "min"))
        plans.append((base_cfg(), SCRIPT_W, "first"))
        return plans
    for lp in LOOPS:
        plans.append((base_cfg(loop=lp), SCRIPT_A, "full"))
        plans.append((base_cfg(loop=lp), SCRIPT_S, "full"))
        plans.append((base_cfg(loop=lp), SCRIPT_P, "full"))
        plans.append((base_cfg(loop=lp, pop_ups=True, handlers="custom"), SCRIPT_P, "ends"))
        plans.append((base_cfg(loop=lp), SCRIPT_W, "full"))
        plans.append((base_cfg(loop=lp, pop_ups=True), SCRIPT_WP, "full"))
        plans.append((base_cfg(loop=lp, handlers="ign"), SCRIPT_W, "ends"))
        for one in ("SIGWINCH", "SIGTSTP", "SIGCONT", "SIGINT"):
            plans.append((base_cfg(loop=lp, handlers=f"ign:{one}"), SCRIPT_B, "first"))
        plans.append((base_cfg(loop=lp, pop_ups=True), SCRIPT_A, "full"))
        plans.append((base_cfg(loop=lp, pop_ups=True), SCRIPT_B, "full"))
        plans.append((base_cfg(loop=lp, handlers="custom"), SCRIPT_B, "full"))
        plans.append((base_cfg(loop=lp, mouse=False, paste=False, focus=False), SCRIPT_B, "ends"))
        plans.append((base_cfg(loop=lp, mouse=True, paste=False, focus=True), SCRIPT_B, "first"))
        plans.append((base_cfg(loop=lp, mouse=False, paste=True, focus=False, pop_ups=True), SCRIPT_A, "first"))
    plans.append((base_cfg(hook=False), SCRIPT_A, "full"))
    plans.append((base_cfg(hook=False), SCRIPT_B, "full"))
    plans.append((base_cfg(hook=False, pop_ups=True), SCRIPT_A, "full"))
    plans.append((base_cfg(hook=False, handlers="custom", paste=False), SCRIPT_B, "ends"))
    plans.append((base_cfg(hook=False), SCRIPT_W, "full"))
    plans.append((base_cfg(hook=False), SCRIPT_Z, "full"))
    plans.append((base_cfg(hook=False), SCRIPT_G, "full"))
    plans.append((base_cfg(hook=False), SCRIPT_G0, "full"))
    plans.append((base_cfg(hook=False, pop_ups=True), SCRIPT_G0, "ends"))
    for lp in LOOPS:
        plans.append((base_cfg(loop=lp), SCRIPT_G0, "first"))
    plans.append((base_cfg(hook=False, pop_ups=True, fd0=True), SCRIPT_G, "ends"))
    for lp in LOOPS:
        plans.append((base_cfg(loop=lp), SCRIPT_G, "ends"))
    for lp in LOOPS:
        plans.append((base_cfg(loop=lp), SCRIPT_K, "full"))
        plans.append((base_cfg(loop=lp, handlers="custom", fd0=True), SCRIPT_K, "ends"))
        plans.append((base_cfg(loop=lp, fd0=True), SCRIPT_S, "full"))
        plans.append((base_cfg(loop=lp, fd0=True, pop_ups=True), SCRIPT_A, "ends"))
    plans.append((base_cfg(hook=False, handlers="custom"), SCRIPT_K, "full"))
    combos = [(m, p_, f_) for m in (True, False) for p_ in (True, False) for f_ in (True, False)]
    for lp in LOOPS:
        plans.append((base_cfg(loop=lp, always_render=True), SCRIPT_S, "full"))
        plans.append((base_cfg(loop=lp, always_render=True, pop_ups=True), SCRIPT_A, "early"))
        plans.append((base_cfg(loop=lp), SCRIPT_PK, "full"))
        for m, p_, f_ in combos:
            plans.append((base_cfg(loop=lp, mouse=m, paste=p_, focus=f_), SCRIPT_B, "first"))
    for m, p_, f_ in combos:
        plans.append((base_cfg(hook=False, mouse=m, paste=p_, focus=f_), SCRIPT_B, "first"))
    plans.append((base_cfg(hook=False, always_render=True), SCRIPT_S, "full"))
    plans.append((base_cfg(hook=False, fd0=True), SCRIPT_K, "ends"))
    plans.append((base_cfg(hook=False, pop_ups=True, handlers="custom"), SCRIPT_Z, "ends"))
    for lp in LOOPS:
        plans.append((base_cfg(loop=lp), SCRIPT_Z, "ends"))
    plans.append((base_cfg(hook=False, pop_ups=True), SCRIPT_WP, "ends"))
    plans.append((base_cfg(hook=False, handlers="ign"), SCRIPT_W, "ends"))
    plans.append((base_cfg(hook=False, handlers="ign:SIGTSTP"), SCRIPT_B, "first"))
    # seeded shuffles of the long script
    for n in range(12):
        r = ctx.subrng("shuffle", n)
        mid = [t for t in SCRIPT_A if t not in ("@alarm0", "@alarm1", "Q")]
        r.shuffle(mid)
        a0 = r.randrange(1, len(mid) - 2)
        a1 = r.randrange(a0 + 1, len(mid))
        toks = mid[:a0] + ["@alarm0"] + mid[a0:a1] + ["@alarm1"] + mid[a1:] + ["Q"]
        plans.append((base_cfg(loop=LOOPS[n % 6], pop_ups=bool(n & 1), hook=(n != 6)), toks, "ends"))
    return plans


def injection_points(counts, mode):
    """enumerate (site, k) from the fault-free run's per-site invocation counts"""
    pts = []
    for site in SITES:
        n = counts.get(site, 0)
        if not n:
            continue
        if mode == "full":
            ks = list(range(n))
        elif mode == "ends":
            ks = sorted({0, n - 1})
        elif mode == "first":
            ks = sorted({0, n // 2, n - 1}) if site == "render" else [0]
        elif mode == "min":
            ks = [n // 2] if site == "keypress" else []
        elif mode == "early":
            ks = [k for k in (0, 1, 2, 3) if k < n] if site == "render" else []
        elif mode == "rehook":
            ks = [k for k in (2, 3) if k < n] if site == "filter" else ([0] if site == "keypress" else [])
        else:  # few
            ks = [0] if site in ("keypress", "alarm", "filter") else ([n // 2] if site == "render" else [])
        pts.extend((site, k) for k in ks)
    return pts


class Runner:
    """plays specs in children forked from pre-imported template interpreters (pty_term.Pool); VERIF_C12_FRESH=1
    (and replay) use one brand-new interpreter per session instead"""

    def __init__(self):
        import os

        self.fresh = bool(os.environ.get("VERIF_C12_FRESH"))
        self.pool = None if self.fresh else pty_term.Pool(core.REPO, WORKERS, 30.0)

    def run(self, specs):
        if self.pool is not None:
            return list(zip(specs, self.pool.run(specs)))
        return run_fresh(specs)

    def close(self):
        if self.pool is not None:
            self.pool.close()


def run_fresh(specs, workers=WORKERS):
    with concurrent.futures.ThreadPoolExecutor(workers) as ex:
        futs = [ex.submit(pty_term.run_session, s, 30.0) for s in specs]
        return [(s, f.result()) for s, f in zip(specs, futs)]


def evaluate(ctx, spec, res, base_rst=None):
    """apply the oracle to one result; returns list of (sig, msg) or None when not judged"""
    if res is None:
        ctx.inconc(f"watchdog-30s:{cfg_tag(spec)}:inj={spec.get('inject')}")
        ctx.count("watchdog")
        return None
    if "harness_error" in res:
        ctx.inconc(f"child-died:{cfg_tag(spec)}:{res['harness_error'][:120]}")
        ctx.extra.setdefault("stderr", res.get("tb", "") + res.get("stderr_tail", ""))
        return None
    ctx.count("sessions")
    ctx.count(f"loop:{spec['loop']}")
    if not spec["hook"]:
        ctx.count("nohook_sessions")
    if spec["handlers"] == "custom":
        ctx.count("custom_handler_sessions")
    if spec["handlers"].startswith("ign"):
        ctx.count("ign_handler_sessions")
        ctx.count(f"ign_handler_sessions:{spec['handlers']}")
    if spec["pop_ups"]:
        ctx.count("popup_sessions")
    ctx.count(f"modes_sessions:mouse={int(spec['mouse'])},paste={int(spec['paste'])},focus={int(spec['focus'])}")
    if spec.get("always_render") and spec.get("inject") and spec["inject"]["site"] == "render" and spec["inject"]["k"] <= 3:
        ctx.count("early_redraw_fault_sessions")
        ctx.count(f"early_redraw_fault_sessions:{spec['loop']}:redraw{spec['inject']['k']}")
    if spec.get("fd0"):
        ctx.count("fd0_sessions")
        ctx.count(f"fd0_sessions:{spec['loop']}")
        if spec.get("inject") and spec["inject"]["kind"] not in ("exit",):
            ctx.count("fd0_sessions_ended_by_an_exception")
        if spec.get("more_runs"):
            ctx.count("fd0_rerun_sessions")
    if not spec.get("inject"):
        ctx.count("sessions_faultfree")
    for site, n in res["counts"].items():
        ctx.count(f"callbacks:{site}", n)
    for name, n in res.get("reach", {}).items():
        ctx.count(f"reach:{name}", n)
    if spec["loop"] in LOOPS and spec["hook"]:
        ctx.count(f"reach:event_loop.{spec['loop']}.run", 1)
    if res.get("runs") and len(res["runs"]) > 1:
        vs = []
        ctx.count("rerun_sessions")
        for k, (spec_k, res_k) in enumerate(run_views(spec, res)):
            if k and res["runs"][k - 1]["started_after"]:
                # the previous run left the display started (reported there): what follows begins on a dirty terminal
                ctx.count("reruns_not_judged_after_an_unrestored_run")
                break
            if k:
                ctx.count("reruns_judged")
                ctx.count(f"reruns_judged:{spec_k['run_ctx'].lstrip('|')}")
                ctx.count("RST_checked_between_runs")
            vs.extend(judge(spec_k, res_k, ctx, base_rst))
        for e in res["log"]:
            if e["site"] == "remove_alarm_error":
                vs.append((f"C12|{cfg_tag(spec)}|RERUN|remove_alarm-between-runs-raised", e["err"]))
    else:
        vs = judge(spec, res, ctx, base_rst)
    desc = [cfg_of(spec), spec["tokens"], spec.get("inject"), [[m.get("tokens"), m.get("inject")] for m in spec.get("more_runs") or []]]
    ctx.case(desc, nontrivial=b"\x1b[?1049h" in res["master"].encode("latin-1"))
    return vs


def run_views(spec, res):
    """a session with several MainLoop.run() calls -> one (spec, result) view per run, judged like a single-run session;
    the terminal bytes of a run are fed to a fresh VT of the size the terminal had when that run started"""
    out = []
    prev = None
    for k, rec in enumerate(res["runs"]):
        spec_k = dict(spec, script=rec["script"], inject=rec["inject"], size=rec["size"])
        spec_k.pop("more_runs", None)
        t_p = next((e["t"] for e in res["log"][: rec["hi"]] if e["site"] == "part1_read"), None)
        if t_p is not None:
            spec_k["partial_read_t"] = t_p
        spec_k["partial_family"] = any(st_[0] == "part1" for st_ in res["runs"][0]["script"])
        if k:
            spec_k["run_ctx"] = f"|rerun-after-{prev}"
            spec_k["stty_applied"] = list((spec["more_runs"][k - 1].get("stty")) or [])
        res_k = {
            "spec": spec_k,
            "log": res["log"][rec["lo"] : rec["hi"]],
            "late_events": rec["late_events"] if k == len(res["runs"]) - 1 else [],
            "counts": rec["counts"],
            "outcome": rec["outcome"],
            "master": res["master"][rec["master_lo"] : rec["master_hi"]],
            "termios_before": rec.get("termios_before", res["termios_before"]),  # the settings THAT run began with
            "termios_after": rec["termios_after"],
            "termios_equal": rec["termios_equal"],
            "signals": rec["signals"],
            "started_after": rec["started_after"],
            "t_set": rec["t_set"],
        }
        out.append((spec_k, res_k))
        prev = rec["inject"]["kind"] if rec["inject"] else "scripted-exit"
    return out


RST_DEFERRED: dict = {}


def shrink_and_report(ctx, spec, res, vs, known, base_rst=None):
    """report each violation; for unlisted signatures try one cheap shrink (truncate the script after the fault)"""
    for sig, msg in vs:
        if "|EXIT|" in sig and ("-swallowed|inj=" in sig or "-replaced-by:" in sig or "-unwrapped-to-member:" in sig) and not ctx.replaying and not spec.get("rst_any_callback"):
            # a fault that is swallowed / replaced wherever it is raised is one mechanism: grouped at the end (flush_rst)
            head, path = sig.rsplit("|inj=", 1)
            site, kind = path.rsplit(":", 1)
            RST_DEFERRED.setdefault((head, kind), {}).setdefault(site, []).append((sig, msg, spec))
            continue
        if "|RST|" in sig and "|after-" in sig and not ctx.replaying and not spec.get("rst_any_callback"):
            # restoration failures after an injected fault are grouped at the end of the run (flush_rst)
            head, path = sig.rsplit("|after-", 1)
            site, kind = path.rsplit(":", 1)
            RST_DEFERRED.setdefault((head, kind), {}).setdefault(site, []).append((sig, msg, spec))
            continue
        wit = spec
        s2 = sig.replace(" ", "_")
        if "|ORD|" in sig and any(st_[0] == "grow" for st_ in spec.get("script", [])) and s2 not in known and s2 not in ctx.violations and not ctx.replaying:
            # "nothing delivered complete_wait + 0.6 s after the last byte" is measured by the driver thread: a starved main
            # thread can fake it, so the verdict needs the same signature from two more executions of the session
            again = 0
            for _ in range(2):
                r2 = pty_term.run_session(spec, 30.0)
                if r2 and "log" in r2 and any(s == sig for s, _ in judge(spec, r2, core.Ctx("C12", ctx.tier, ctx.seed, 0, 1, 1.0), base_rst)):
                    again += 1
            if again < 2:
                ctx.count("GROW_unconfirmed_not_reproducible")
                continue
            ctx.count("GROW_confirmed_by_rerun")
        if "|RDW|" in sig and s2 not in known and s2 not in ctx.violations and not ctx.replaying:
            # the precondition of the redraw rule (">= 50 ms between the event and the alarm's due time, so the loop must
            # have waited") is the one place where a descheduled process can fake a violation: the verdict needs the
            # same signature from two more executions of the same session
            again = 0
            for _ in range(2):
                r2 = pty_term.run_session(spec, 30.0)
                if r2 and "log" in r2 and any(s == sig for s, _ in judge(spec, r2, core.Ctx("C12", ctx.tier, ctx.seed, 0, 1, 1.0), base_rst)):
                    again += 1
            if again < 2:
                ctx.count("RDW_unconfirmed_not_reproducible")
                continue
            ctx.count("RDW_confirmed_by_rerun")
        if s2 not in known and s2 not in ctx.violations and spec.get("inject") and not spec.get("more_runs") and not ctx.replaying:
            cand = _truncated(spec, res)
            if cand is not None:
                r2 = pty_term.run_session(cand, 30.0)
                if r2 and "log" in r2:
                    sub = core.Ctx("C12", ctx.tier, ctx.seed, 0, 1, 1.0)
                    if any(s == sig for s, _ in judge(cand, r2, sub, base_rst)):
                        wit = cand
                        ctx.count("witness_shrunk")
        ctx.violation(sig, msg, wit)


def _grouped_form(sig):
    """the 'from any callback' spelling of a per-site EXIT / RST signature (see flush_rst), else None"""
    m = re.match(r"(.*\|EXIT\|[^|]*(?:-swallowed|-replaced-by:[^|]*|-unwrapped-to-member:[^|]*))\|inj=[^|:]+:([a-z]+)$", sig)
    if m:
        return f"{m.group(1)}|inj=any-callback:{m.group(2)}"
    m = re.match(r"(.*\|RST\|.*)\|after-[^|:]+:([a-z]+)$", sig)
    if m:
        return f"{m.group(1)}|after-{m.group(2)}-from-any-callback"
    return None


def flush_rst(ctx):
    """one mechanism, one signature: a restoration failure seen after faults at >= 3 different callback sites does not
    depend on the site -> '<...>|after-<kind>-from-any-callback'; otherwise one signature per site"""
    for (head, kind), by_site in sorted(RST_DEFERRED.items()):
        if len(by_site) >= 3:
            n = 0
            best = None
            for site, items in by_site.items():
                for sig, msg, spec in items:
                    n += 1
                    if best is None or len(spec["script"]) < len(best[2]["script"]):
                        best = (sig, msg, spec)
            wit = dict(best[2], rst_any_callback=True)
            for _ in range(n):
                gsig = f"{head}|inj=any-callback:{kind}" if "|EXIT|" in head else f"{head}|after-{kind}-from-any-callback"
                ctx.violation(gsig, best[1] + f" [seen after faults in {sorted(by_site)}]", wit)
        else:
            for site, items in by_site.items():
                for sig, msg, spec in items:
                    ctx.violation(sig, msg, spec)
    RST_DEFERRED.clear()


def _truncated(spec, res):
    log = res["log"]
    pos = next((i for i, e in enumerate(log) if e["site"] == "inject"), None)
    if pos is None:
        return None
    last_step = max((e["n"] for e in log[:pos] if e["site"] == "step"), default=-1)
    steps = spec["script"][: last_step + 1]
    if len(steps) + 1 >= len(spec["script"]):
        return None
    cand = dict(spec)
    cand["script"] = steps + [["keys", "Q", "Q"]]
    cand["tokens"] = [s[2] for s in cand["script"]]
    return cand


STTY_SETTINGS = ["-ixon", "ixoff", "-icrnl", "-echoe", "erase=^H", "kill=^X", "eof=^E"]  # not the signal keys
SIGNAL_KEY_STTY = ["intr=^X", "quit=^T", "start=^W", "stop=^Y", "susp=^B"]
RERUN_LOOPS = ("select", "asyncio", "tornado", "trio", "zmq")  # a Twisted reactor cannot be restarted
SCRIPT_R1 = ["a", "bz", "m1", "@alarm0", "@pipe", "@file", "up", "@alarm1", "Q"]
SCRIPT_R2 = ["a", "up", "@alarm0", "m3", "bz", "Q"]
SCRIPT_R3 = ["bz", "@alarm0", "m1", "Q"]
# a (site, k) that SCRIPT_R1 / R2 reach for sure
R1_POINTS = {"filter": 1, "keypress": 1, "mouse": 0, "unhandled": 0, "alarm": 0, "pipe": 0, "file": 0, "render": 2}
R2_POINTS = {"filter": 1, "keypress": 0, "mouse": 0, "unhandled": 0, "alarm": 0, "render": 1}


def rerun_specs(ctx):
    """sessions that call MainLoop.run() two or three times on the same MainLoop / event loop / screen objects"""
    cfgs = [base_cfg(loop=lp) for lp in RERUN_LOOPS] + [base_cfg(hook=False)]
    cfgs += [base_cfg(loop=lp, fd0=True) for lp in (("tornado", "select") if ctx.quick else RERUN_LOOPS)]  # the terminal is fd 0 / 1
    if not ctx.quick:
        cfgs += [base_cfg(loop=lp, pop_ups=True, handlers="custom") for lp in RERUN_LOOPS]
    combos = []  # (first run fault, second run fault)  fault = None (scripted exit) | (site, kind)
    if ctx.quick:
        combos = [
            (("keypress", "boom"), None),
            (("alarm", "base"), ("filter", "exit")),
            (("render", "exit"), ("keypress", "boom")),
            (("render", "boom"), None),
            (("unhandled", "sysexit"), ("alarm", "boom")),
            (None, ("alarm", "base")),
            (("filter", "exit"), None),
        ]
    else:
        firsts = [None] + [(site, kind) for site in R1_POINTS for kind in ("exit", "boom", "base", "sysexit")]
        for n, f in enumerate(firsts):
            combos.append((f, None))
            site2 = list(R2_POINTS)[n % len(R2_POINTS)]
            combos.append((f, (site2, ("boom", "exit", "base")[n % 3])))
    out = []
    # a partial escape sequence is still pending in the screen when run() is called again: MainLoop.start() re-hooks the
    # screen, which re-parses it and calls the input filter -- faults right there
    for cfg in [base_cfg(loop=lp) for lp in RERUN_LOOPS]:
        for end1 in ("exit", "boom"):
            for kind2 in (None, "exit", "boom", "base"):
                spec = make_spec(cfg, ["a", "@part_esc", "@alarm0", "Q"], {"site": "alarm", "k": 0, "kind": end1})
                t2 = ["up2", "bz", "Q"]  # "[A" completes the ESC that is still pending from the first run
                t3 = SCRIPT_R3 if kind2 is None else ["up2", *SCRIPT_R3]
                spec["more_runs"] = [
                    {"script": build_script(t2, cfg), "tokens": t2, "inject": ({"site": "filter", "k": 0, "kind": kind2} if kind2 else None), "alarms": [0.07]},
                    {"script": build_script(t3, cfg), "tokens": t3, "inject": None, "alarms": [0.07]},
                ]
                spec["complete_wait"] = 1.5  # the pending ESC must not time out between the runs
                out.append(spec)
    for cfg in cfgs:
        for f1, f2 in combos:
            def inj(f, pts):
                if f is None or (f[0] in ("pipe", "file") and not cfg["hook"]):
                    return None
                return {"site": f[0], "k": pts[f[0]], "kind": f[1]}
            spec = make_spec(cfg, SCRIPT_R1, inj(f1, R1_POINTS))
            # what the user's `stty` does to the terminal between two sessions: nothing / other settings / signal keys / both
            n = len(out)
            stty2 = ([], STTY_SETTINGS[:3] + STTY_SETTINGS[4:5], SIGNAL_KEY_STTY[:2], [])[n % 4]
            stty3 = ([], STTY_SETTINGS[3:4] + STTY_SETTINGS[5:], [], SIGNAL_KEY_STTY[2:] + STTY_SETTINGS[:1])[n % 4]
            spec["more_runs"] = [
                {"script": build_script(SCRIPT_R2, cfg), "tokens": SCRIPT_R2, "inject": inj(f2, R2_POINTS), "alarms": [0.07], "stty": stty2},
                {"script": build_script(SCRIPT_R3, cfg), "tokens": SCRIPT_R3, "inject": None, "alarms": [0.07], "stty": stty3},
            ]
            out.append(spec)
    return out


def rst_details(vs):
    return {sig.split("|RST|", 1)[1].rsplit("|", 1)[0] for sig, _ in vs if "|RST|" in sig}


def summary(res):
    """what must agree between a forked-from-template child and a brand-new interpreter (which callback a render-indexed
    injection interrupts is timing dependent, so per-site counts are compared for fault-free sessions only)"""
    counts = None if res["spec"].get("inject") else {k: v for k, v in res["counts"].items() if k not in ("render", "filter")}  # (how input is batched into filter calls and how often render runs is timing dependent)
    return (res["outcome"]["how"], res["outcome"].get("same_object"), counts, res["termios_equal"], res["started_after"], sorted((n, d["same"]) for n, d in res["signals"].items()))


def run(ctx):
    runner = Runner()
    try:
        _run(ctx, runner)
    finally:
        runner.close()


def _run(ctx, runner):
    known = core.load_findings(PROPERTY)
    plans = plan_configs(ctx)
    # 1. fault-free runs
    phase = ctx.extra.setdefault("phase_seconds", {})
    phase["pool_start"] = round(ctx.elapsed(), 1)
    base_specs = [make_spec(cfg, toks) for cfg, toks, _ in plans]
    base = runner.run(base_specs)
    phase["baselines_done"] = round(ctx.elapsed(), 1)
    todo = []
    brst_by_tag: dict = {}
    for (cfg, toks, mode), (spec, res) in zip(plans, base):
        vs = evaluate(ctx, spec, res)
        if vs is None:
            continue
        ctx.sample({"cfg": cfg, "tokens": toks, "callback_counts": res["counts"], "outcome": res["outcome"]["how"]}, limit=2)
        shrink_and_report(ctx, spec, res, vs, known)
        brst = rst_details(vs)
        brst_by_tag.setdefault(cfg_tag(spec), set()).update(brst)
        pts = injection_points(res["counts"], mode)
        ctx.count("injection_points_enumerated", len(pts))
        base_pts = set(pts if (mode != "full" or not ctx.quick) else injection_points(res["counts"], "first"))
        sysexit_pts = set(injection_points(res["counts"], "few" if ctx.quick else "ends")) if (not ctx.quick or (mode == "first" and toks is SCRIPT_S) or mode == "full") else set()
        if toks is SCRIPT_P and ctx.quick:
            base_pts, sysexit_pts = set(injection_points(res["counts"], "min")), set()
        if mode in ("early", "rehook"):
            base_pts, sysexit_pts = set(pts), set(pts)
        for site, k in pts:
            kinds = ["exit", "boom"]
            if (site, k) in base_pts:
                kinds.append("base")  # a BaseException that is not an Exception
            if (site, k) in sysexit_pts:
                kinds.append("sysexit")
            for kind in kinds:
                todo.append((make_spec(cfg, toks, {"site": site, "k": k, "kind": kind}), brst))
        # exception groups: trio (the only loop with group handling of its own) gets every kind at every sampled point,
        # the other loops one kind per point in rotation (quick); thorough: every kind at both ends of every site, all
        # points on SCRIPT_S
        if ctx.quick:
            gpts = injection_points(res["counts"], "first") if ((toks is SCRIPT_S or toks is SCRIPT_A and not cfg["hook"]) and not cfg["fd0"]) else []
            few = set(injection_points(res["counts"], "few"))
            for n, (site, k) in enumerate(gpts):
                for kind in GROUP_KINDS if (cfg["loop"] == "trio" and (site, k) in few) else (GROUP_KINDS[n % len(GROUP_KINDS)],):
                    todo.append((make_spec(cfg, toks, {"site": site, "k": k, "kind": kind}), brst))
        elif mode == "full" and (toks is SCRIPT_S or toks is SCRIPT_A or toks is SCRIPT_WP) and cfg["handlers"] == "default":
            for site, k in pts if toks is SCRIPT_S else injection_points(res["counts"], "ends"):
                for kind in GROUP_KINDS:
                    todo.append((make_spec(cfg, toks, {"site": site, "k": k, "kind": kind}), brst))
    # 1b. the forked-child shortcut must not change what is observed: some sessions are repeated in brand-new interpreters
    # (in a background thread, while the injected runs are being played) and compared at the end
    forked: dict = {}
    fresh_out: list = []
    fresh_thread = None
    if not runner.fresh:
        import threading

        probe = [s for s, r in base[: len(LOOPS)] if r and "log" in r]
        forked.update((id(s), r) for s, r in base[: len(LOOPS)])
        stable = [t[0] for t in todo if t[0]["inject"]["site"] != "render" and t[0]["inject"]["kind"] in ("exit", "boom", "base")]
        probe += stable[:: max(1, len(stable) // 6)][:6]  # (which callback a render index hits is timing dependent)
        probe_ids = {id(s) for s in probe}
        fresh_thread = threading.Thread(target=lambda: fresh_out.extend(run_fresh(probe, 4)), daemon=True)
        fresh_thread.start()
    else:
        probe_ids = set()
    phase["fresh_probes_done"] = round(ctx.elapsed(), 1)
    # sessions in which trio swallows a fault from the idle redraw run until their scripted end with every step timing out
    # (3-4 s each): start them first so that they overlap with the short ones
    todo.sort(key=lambda t: not (t[0]["loop"] == "trio" and t[0]["inject"]["site"] == "render"))
    ctx.count("injected_runs_planned", len(todo))
    # 2. injected runs, in chunks so the budget is honoured
    done = 0
    chunk = WORKERS * 20
    for i in range(0, len(todo), chunk):
        if not ctx.more(0.95):
            ctx.inconc(f"budget-exhausted-after-{done}-of-{len(todo)}-injected-runs")
            break
        part = todo[i : i + chunk]
        for (spec, res), (_, brst) in zip(runner.run([t[0] for t in part]), part):
            vs = evaluate(ctx, spec, res, brst)
            done += 1
            if id(spec) in probe_ids:
                forked[id(spec)] = res
            if vs:
                shrink_and_report(ctx, spec, res, vs, known, brst)
    ctx.count("injected_runs_done", done)
    phase["injected_done"] = round(ctx.elapsed(), 1)
    # 3. the same objects run again: MainLoop.run() two or three times per session
    if ctx.more(0.97):
        judged = []
        for spec, res in runner.run(rerun_specs(ctx)):
            vs = evaluate(ctx, spec, res, brst_by_tag.get(cfg_tag(spec)))
            if vs:
                judged.append((spec, res, vs))
        # one mechanism, one signature: a violation in a later run that is also seen in first runs / single-run sessions keeps
        # the plain signature; '|rerun-after-<...>' is kept only for what shows up in re-runs alone
        strip = lambda sig: re.sub(r"\|rerun-after-[a-z-]+", "", sig)  # noqa: E731
        plain_seen = set(known) | set(ctx.violations) | {x[0] for by in RST_DEFERRED.values() for items in by.values() for x in items}
        plain_seen |= {sig for _, _, vs in judged for sig, _ in vs if "|rerun-after-" not in sig}
        plain_seen |= {g for g in (_grouped_form(x) for x in plain_seen) if g}
        for spec, res, vs in judged:
            vs2 = [(strip(sig), msg) if (strip(sig) in plain_seen or _grouped_form(strip(sig)) in plain_seen) else (sig, msg) for sig, msg in vs]
            shrink_and_report(ctx, spec, res, vs2, known, brst_by_tag.get(cfg_tag(spec)))
    else:
        ctx.inconc("budget-exhausted-before-rerun-sessions")
    phase["reruns_done"] = round(ctx.elapsed(), 1)
    if fresh_thread is not None:
        fresh_thread.join(120.0)
        for s_, r2 in fresh_out:
            r1 = forked.get(id(s_))
            if not (r1 and r2 and "log" in r1 and "log" in r2):
                ctx.count("fresh_vs_forked_unavailable")
            elif summary(r1) == summary(r2):
                ctx.count("fresh_vs_forked_agree")
            else:
                ctx.count("fresh_vs_forked_differ")
                ctx.inconc(f"forked-child-and-fresh-interpreter-disagree:{cfg_tag(s_)}:inj={s_.get('inject')}")
        phase["fresh_compared"] = round(ctx.elapsed(), 1)
    flush_rst(ctx)


def replay(ctx, wit):
    spec = dict(wit)
    spec["repo"] = core.REPO
    res = pty_term.run_session(spec, 30.0)
    vs = evaluate(ctx, spec, res)
    for sig, msg in vs or []:
        ctx.violation(sig, msg, spec)
