"""C19 space partition arithmetic: invariant monitor with spy children.

Real Columns / Pile / Padding / Filler / Overlay / GridFlow objects are driven over small exhaustive
integer ranges and random larger ones.  The children are spy widgets (real urwid.Widget subclasses) that
paint one unique glyph and log every size they are asked to pack / measure / render with, so the size a
child *receives* and the place it is *drawn at* are observed (child log + rendered canvas), not inferred
from urwid's own bookkeeping.  The oracle is the list of clauses of the property statement, written as
plain integer arithmetic over (options, available size, observed sizes); it never calls urwid.
"""

from __future__ import annotations

import itertools
import math
import traceback
import warnings
from collections import Counter

from vmon import reach

PROPERTY = "C19"
LEVEL = "exploration"
SHARDS = {"quick": 8, "thorough": 16}
BUDGET = {"quick": 27.0, "thorough": 400.0}
REQUIRE = {
    "col.evals": 40000,
    "col.cl_nonneg_int": 40000,
    "col.cl_own_or_nothing": 25000,
    "col.cl_focus_visible": 25000,
    "col.cl_no_overflow": 40000,
    "col.cl_filled_when_weighted": 15000,
    "col.cl_proportional": 5000,
    "col.cl_weighted_ge_minwidth": 15000,
    "col.child_sizes_observed": 5000,
    "col.canvas_layout_checked": 5000,
    "col.cache_hit_agrees": 5000,
    "col.live_focus_walks_at_same_width": 1500,
    "live.histories": 150,
    "live.ops_applied": 1000,
    "live.op_focus": 400,
    "live.op_size": 250,
    "live.op_set": 150,
    "live.op_boxcols": 10,
    "col.zero_domain_evals": 200,
    "pile.zero_domain_evals": 200,
    "pile.evals": 8000,
    "pile.cl_nonneg_int": 8000,
    "pile.cl_own_size": 12000,
    "pile.cl_weighted_fill_remainder": 6000,
    "pile.cl_proportional": 3000,
    "pile.child_sizes_observed": 2000,
    "pile.live_revisits_same_height": 250,
    "pile.canvas_layout_checked": 2000,
    "pad.evals": 5000,
    "pad.cl_sum_exact": 5000,
    "pad.cl_requested_when_fits": 3000,
    "pad.cl_remaining_otherwise": 100,
    "pad.cl_split_by_percentage": 3000,
    "pad.child_sizes_observed": 3000,
    "fill.evals": 3000,
    "fill.cl_sum_exact": 3000,
    "fill.cl_requested_when_fits": 2000,
    "fill.cl_remaining_otherwise": 100,
    "fill.cl_split_by_percentage": 2000,
    "fill.child_sizes_observed": 2000,
    "ovl.evals": 1400,
    "ovl.cl_sum_exact": 2800,
    "ovl.cl_requested_when_fits": 1900,
    "ovl.cl_remaining_otherwise": 100,
    "ovl.cl_split_by_percentage": 1900,
    "ovl.child_sizes_observed": 1400,
    "entry.differential_cases": 600,
    "entry.columns.ctor-short": 300,
    "entry.columns.ctor-enum": 300,
    "entry.columns.options": 300,
    "entry.columns.options-enum": 300,
    "entry.columns.tuple-str": 300,
    "entry.columns.tuple-enum": 300,
    "entry.columns.column_types": 300,
    "entry.columns.column_types-legacy": 300,
    "entry.columns.widget_list": 300,
    "entry.columns.box_columns": 300,
    "entry.pile.ctor-short": 300,
    "entry.pile.ctor-legacy": 300,
    "entry.pile.ctor-enum": 300,
    "entry.pile.options": 300,
    "entry.pile.options-enum": 300,
    "entry.pile.tuple-str": 300,
    "entry.pile.tuple-enum": 300,
    "entry.pile.item_types": 300,
    "entry.pile.item_types-legacy": 300,
    "entry.pile.widget_list": 300,
    "live.set_form_tuple-str": 50,
    "live.set_form_options": 25,
    "live.set_form_tuple-enum": 25,
    "grid.directed_per_cell_width_cases": 2300,
    "grid.per_cell_width_cases_judged": 2300,
    "focusdep.columns_cases": 2400,
    "focusdep.pile_cases": 300,
    "col.focus_dependent_pack_measured": 2500,
    "col.focus_dependent_pack_nonfocus_column_container_focus_True": 700,
    "col.focus_dependent_pack_focus_column_container_focus_True": 400,
    "col.focus_dependent_pack_path_flow": 1000,
    "col.focus_dependent_pack_path_fixed": 1200,
    "pile.focus_dependent_pack_measured": 300,
    "pile.focus_dependent_pack_nonfocus_item_container_focus_True": 100,
    "pile.focus_dependent_pack_focus_item_container_focus_True": 50,
    "ovl.directed_fixed_top_cases": 3200,
    "ovl.directed_fixed_top_overflowing_both_axes": 800,
    "ovl.clipped_on_both_axes_position_checked": 600,
    "ovl.clipped_on_one_axis_position_checked": 1500,
    "grid.directed_live_cases": 2200,
    "grid.live_histories_judged": 2200,
    "grid.live_op_cw": 2200,
    "grid.live_op_cw_same_value": 1000,
    "grid.live_cell_width_assigned_after_per_cell_widths": 2200,
    "pilewrap.directed_cases": 630,
    "pilewrap.sizing_l": 126,
    "pilewrap.sizing_x": 126,
    "pilewrap.sizing_lx": 126,
    "pilewrap.sizing_blx": 126,
    "pilewrap.sizing_T": 126,
    "pile.pack_fixed+flow_item_wrapping_at_pile_width": 150,
    "pile.pack_flow_only_item_wrapping_at_pile_width": 50,
    "pile.pack_fixed_only_item_measured": 100,
    "regress.29070bd_all_zero_weights": 27,
    "regress.4cbc3a6_flow_top_wrapping_at_own_width": 180,
    "padfixed.directed_cases": 3800,
    "padfixed.evals": 3000,
    "padfixed.cl_canvas_width==pack": 3000,
    "padfixed.cl_total_width": 3000,
    "padfixed.cl_sum_exact": 3000,
    "padfixed.cl_split_by_percentage": 3000,
    "padfixed.min_width_widens_total": 1500,
    "padfixed.child_sizes_observed": 1800,
    "padfixed.canvas_position_checked": 1800,
    "padfixed.documented_error_clip_is_flow_only": 700,
    "grid.directed_core_cases": 800,
    "grid.directed_wrap_window_cases": 140,
    "grid.evals": 500,
    "grid.cl_every_cell_shown": 500,
    "grid.cl_cell_width": 500,
    "grid.cl_reading_order": 500,
    "child.renders_logged": 20000,
    "child.negative_dimension_checks": 20000,
    "skipped_invalid": 1,
}
RULE = (
    "Columns: exhaustive over <=3 columns, the 4-column space in shuffled order as far as the budget allows (col.exhaustive_4column_configs_done of columns_4column_configs_total) x option in {given 1..6, pack with a "
    "fixed spy of pack width 1..6, weight 1..3} x dividechars 0..2 x min_width 1..3 x maxcol 1..24 x (focus walked forward, one other width, focus walked back: A/focus change/A and A/B/A against a warm width cache) on one live object "
    "per configuration (warm cache), every 9th evaluation also rendered (flow size; box size in the random part) so that spy logs and glyph positions are read; "
    "random beyond (<=7 columns, sizes to 30, float and zero weights, zero given, box_columns flags, flow/fixed/box spy sizings, maxcol "
    "to 80). Pile: same scheme over <=4 items x {given 1..6, pack spy rows 1..6, weight 1..3} x maxrow 1..24. Padding / Filler / "
    "Overlay: align kinds {left,center,right,relative 0,1,33,50,67,99,100} x size kinds {given, relative, pack, clip} x min sizes x "
    "margins 0..3 x available 1..24, random beyond. Live histories: random sequences of size / focus_position / contents[i]= / box_columns= on one Columns or box Pile, all clauses re-judged after every operation. Overlay fixed tops: a deterministic core of 3200 width='pack' top widgets of (cols-1, cols, cols+1, cols+5) x (rows-1, rows, rows+1, rows+4) over (4,3) and (7,5), every align x valign kind, margins; a clipped top that cannot be rendered or is not drawn between the margins is a violation. GridFlow live histories: a cell is given its own width, optionally the grid is rendered, then cell_width is assigned (same value or another); the model follows the documented rule 'setting cell_width affects all cells' and is never read back from urwid (2304 directed cases + random ops setw/cw/render/focus). Wrapping PACK items: 630 box Piles with weighted items and a PACK item of natural width 3/9/19 at Pile widths 1..20 in every sizing set (FLOW-only, FIXED-only, FIXED+FLOW, BOX+FLOW+FIXED spies with pack(())==(nat,1), rows((w,))==ceil(nat/w), and a real urwid.Text); own rows = rows((maxcol,)) when the widget supports FLOW, else pack(())[1]. Regression core: one directed case per case named in the `fixed: property=C19` lines. Padding FIXED render: 3840 deterministic cases of Padding rendered with size () for width in {pack, clip, given 2/6, relative 30/50/100} x min_width in {None, below, equal to, above the child} x 4 margin pairs x every align kind, fixed spy and real BigText children: canvas width == pack(())[0] == max(child, min_width or 1) + margins, left + child + right == canvas width, spare split by the alignment, child drawn between the margins; clip must raise the documented PaddingError. Focus-dependent children: a deterministic core of 2496 Columns + 312 box Pile cases with pack spies whose pack()/rows() answer depends on the focus argument (FIXED and FLOW measuring paths) x every focus position x container focus flag; own size = the spy's answer for the focus flag it is rendered with. GridFlow: directed core first (1..5 cells x cell width 1..5 x h_sep 0..2 x every maxcol from 1 to two past the one-line width, deterministic, not time-limited; a second directed core of non-uniform grids with one or two cells reconfigured through contents[i] = (w, options(width_amount=N)) / ('given', N), each cell judged at its own configured width), then 1..8 cells x cell width x separators x align x maxcol, glyph boxes read "
    "off the canvas. A case = (container, options, focus, available size); distinct = distinct (options, focus) tuples for the two "
    "exhaustive cores and distinct full descriptors elsewhere; beyond 250k distinct descriptors per shard further cases are evaluated but not de-duplicated (counter cases_beyond_distinct_cap_not_deduplicated); *.shards_complete counters tell how many shards finished their slice of each enumeration in the time budget; non-trivial = the real code was executed and judged (cases for which "
    "urwid emits a WidgetWarning are counted as skipped_invalid, not as evaluations)"
)
ASSUMES = [
    "domain of the full statement: given >= 1, pack size >= 1, weights > 0, min_width >= 1; zero weights / zero given sizes are judged only "
    "for 'no exception other than the documented Columns/PileError, non-negative ints, no negative size at a child'",
    "inputs for which urwid itself emits a WidgetWarning subclass are outside the domain (skipped_invalid)",
    "own size of a pack column = what the spy answers, for the size it was asked with in that very call (observed), under the focus flag the column is rendered with (container focus and column == focus_position); of a weighted column for the "
    "'alone fits' clause = min_width",
    "'proportional within one column' = |width - T*weight/sum(weights)| <= 1 with T = total of the shown weighted columns; judged only "
    "when no ideal share is below min_width ('unless the minimum width intervenes')",
    "box Pile 'the same way' = non-negative ints, given/pack items keep their own size (Pile never hides an item), weighted items share "
    "max(0, maxrow - fixed rows) exactly and proportionally; when given+pack rows alone exceed maxrow Pile clips at render time and the "
    "<= maxrow clause is not judged (counted as pile.overfull_clipped), only the rendered canvas having exactly maxrow rows",
    "Padding/Filler/Overlay 'remaining space otherwise': when the requested size does not fit beside the fixed margins the child may get "
    "anything from the space beside the margins up to min(requested, total) (urwid squeezes the fixed margins first, as the Filler "
    "docstring and the pinned doctest clrp(15,'center',0,'given',18,None,2,0)==(0,0) document); margins + child == total always",
    "relative sizes are percentages of the space beside the fixed margins, either rounding direction accepted; 'within rounding' for the "
    "alignment split = strictly less than one cell from spare*percentage/100",
    "clip-type placement (Padding width='clip', Overlay width='pack', oversized flow top) may have negative margins = clipping; "
    "only the size handed to the child must be non-negative",
    "CPython int/float arithmetic and the spy widgets are the trusted base",
]

DISTINCT_CAP = 250_000  # per shard
GLYPHS = "abcdefghijklmnopqrstuvwxyzABCDEFGHIJKLMNOPQRSTUVWXYZ"

# --------------------------------------------------------------------------- spies

_urwid = None
_TextSpy = None
_Spy = None
WidgetWarning = None


def U():
    """import urwid lazily (after core put the tree under test on sys.path) and build the Spy class"""
    global _urwid, _Spy, WidgetWarning
    if _urwid is not None:
        return _urwid
    import urwid
    from urwid.widget.widget import WidgetWarning as WW

    class Spy(urwid.Widget):
        """box / flow / fixed spy: paints `glyph`, logs every size it is handed"""

        no_cache = ["render", "rows"]

        def __init__(self, glyph, sizing, pw=1, ph=1, area=0, selectable=False):
            super().__init__()
            s = set()
            if "b" in sizing:
                s.add(urwid.BOX)
            if "l" in sizing:
                s.add(urwid.FLOW)
            if "x" in sizing:
                s.add(urwid.FIXED)
            self._sz = frozenset(s)
            self.glyph = glyph
            self.pw = pw
            self.ph = ph
            self.area = area
            self._selectable = selectable
            self.fpw = None  # pack width / rows answered when asked with focus=True (None: same as unfocused)
            self.fph = None
            self.rendered = []
            self.packed = []
            self.flags = []  # (what, focus flag) of every pack / rows / render call
            self.neg = []
            self.seen = 0

        def sizing(self):
            return self._sz

        def selectable(self):
            return self._selectable

        def keypress(self, size, key):
            return key

        def reset(self):
            del self.rendered[:]
            del self.packed[:]
            del self.flags[:]
            del self.neg[:]

        def _chk(self, what, size):
            self.seen += 1
            for d in size:
                if not isinstance(d, int) or d < 0:
                    self.neg.append((what, tuple(size)))
                    break

        def pw_for(self, focus=False):
            return self.fpw if focus and self.fpw is not None else self.pw

        def rows_for(self, w, focus=False):
            if self.area:
                return max(1, -(-self.area // max(w, 1)))
            return self.fph if focus and self.fph is not None else self.ph

        def pack_answer(self, size, focus=False):
            """pure: what this widget answers to pack(size, focus)"""
            if not size:
                # natural (unwrapped) size; a wrapping spy (area = natural width) is one row high unwrapped
                return (self.pw_for(focus), 1 if self.area else self.rows_for(1, focus))
            if len(size) == 1:
                return (max(min(self.pw_for(focus), size[0]), 0), self.rows_for(size[0], focus))
            return tuple(size)

        def rows(self, size, focus=False):
            self._chk("rows", size)
            self.flags.append(("rows", bool(focus)))
            return self.rows_for(size[0], focus)

        def pack(self, size=(), focus=False):
            self._chk("pack", size)
            self.flags.append(("pack", bool(focus)))
            r = self.pack_answer(tuple(size), focus)
            self.packed.append((tuple(size), r))
            return r

        def render(self, size, focus=False):
            self._chk("render", size)
            self.flags.append(("render", bool(focus)))
            self.rendered.append(tuple(size))
            if not size:
                c, r = self.pack_answer((), focus)
            elif len(size) == 1:
                c, r = size[0], self.rows_for(size[0], focus)
            else:
                c, r = size
            return urwid.SolidCanvas(self.glyph, max(c, 0), max(r, 0))

    class TextSpy(urwid.Text):
        """a REAL urwid.Text (words of four glyphs) that logs like a spy; layout, rows and pack are Text's own"""

        no_cache = ["render", "rows"]

        def __init__(self, glyph, nat):
            words = (glyph * 4 + " ") * (max(nat, 1) // 5) + glyph * max(1, nat % 5)
            super().__init__(words.strip())
            self.glyph = glyph
            self.pw = self.fpw = len(words.strip())
            self.ph = self.fph = 1
            self.area = nat
            self.rendered, self.packed, self.flags, self.neg, self.seen = [], [], [], [], 0

        reset = Spy.reset
        _chk = Spy._chk

        def pw_for(self, focus=False):
            return self.pw

        def rows_for(self, w, focus=False):
            return urwid.Text.rows(self, (max(w, 1),), focus)

        def pack_answer(self, size, focus=False):
            return urwid.Text.pack(self, tuple(size), focus)

        def rows(self, size, focus=False):
            self._chk("rows", size)
            self.flags.append(("rows", bool(focus)))
            return super().rows(size, focus)

        def pack(self, size=(), focus=False):
            self._chk("pack", size)
            self.flags.append(("pack", bool(focus)))
            r = super().pack(size, focus)
            self.packed.append((tuple(size), r))
            return r

        def render(self, size, focus=False):
            self._chk("render", size)
            self.flags.append(("render", bool(focus)))
            self.rendered.append(tuple(size))
            return super().render(size, focus)

    global _TextSpy
    _TextSpy = TextSpy
    _urwid = urwid
    _Spy = Spy
    WidgetWarning = WW
    warnings.simplefilter("error", WW)
    warnings.simplefilter("ignore", DeprecationWarning)
    return urwid


def spy(glyph, sizing, pw=1, ph=1, area=0, selectable=False):
    U()
    return _Spy(glyph, sizing, pw, ph, area, selectable)


class Obs:
    """per-section collector: counters + failures of the current case"""

    def __init__(self):
        self.c = Counter()
        self.fails = []
        self.last = None  # widths / rows returned by the most recent evaluation

    def count(self, k, n=1):
        self.c[k] += n

    def fail(self, sig, msg):
        self.fails.append((sig.replace(" ", "_"), msg))

    def take(self):
        f = self.fails
        self.fails = []
        return f


def is_int(x):
    return type(x) is int


def tb():
    return traceback.format_exc(limit=5)


def text_rows(canv):
    return [bytes(r).decode("ascii", "replace") for r in canv.text]


def bbox(rows, glyph):
    """bounding box (x0, x1, y0, y1) (half open) of glyph in the text rows and whether it is a filled rectangle"""
    ys = [y for y, r in enumerate(rows) if glyph in r]
    if not ys:
        return None, True
    x0 = min(r.index(glyph) for r in rows if glyph in r)
    x1 = max(r.rindex(glyph) for r in rows if glyph in r) + 1
    y0, y1 = ys[0], ys[-1] + 1
    filled = all(rows[y][x0:x1] == glyph * (x1 - x0) for y in range(y0, y1)) and sum(r.count(glyph) for r in rows) == (x1 - x0) * (y1 - y0)
    return (x0, x1, y0, y1), filled


def flush_spies(obs, spies, where):
    """the 'no child is ever handed a negative dimension' clause, observed at the children"""
    for s in spies:
        obs.c["child.renders_logged"] += len(s.rendered)
        obs.c["child.negative_dimension_checks"] += s.seen
        s.seen = 0
        if s.neg:
            obs.fail(f"C19|{where}|child-handed-negative-dimension|{s.neg[0][0]}", f"spy {s.glyph} handed {s.neg[:3]}")


# --------------------------------------------------------------------------- Columns


def col_domain(cols, minw):
    zw = any(k == "weight" and a <= 0 for k, a, *_ in cols)
    zg = any(k in ("given", "pack") and a <= 0 for k, a, *_ in cols)
    if minw < 1:
        return "min_width<1"
    if zw:
        return "zero-weight"
    if zg:
        return "zero-given"
    return ""


def judge_columns(obs, cols, own, div, minw, focus, maxcol, widths, dom):
    """clauses of the statement for one column_widths() result.  own[i] = own size of given/pack column i (None for weight)"""
    c = obs.c
    n = len(cols)
    if not isinstance(widths, (list, tuple)) or len(widths) > n:
        obs.fail("C19|Columns|widths|bad-shape", f"widths={widths!r} for {n} columns")
        return None
    for w in widths:
        if not is_int(w) or w < 0:
            obs.fail("C19|Columns|widths|negative-or-non-int" + (f"|{dom}" if dom else ""), f"widths={widths!r}")
            return None
    c["col.cl_nonneg_int"] += 1
    full = list(widths) + [0] * (n - len(widths))
    if dom:
        c["col.zero_domain_evals"] += 1
        return full
    shown = [i for i in range(n) if full[i] > 0]
    wshown = [i for i in shown if cols[i][0] == "weight"]
    # given / pack: own size or nothing
    for i in range(n):
        if cols[i][0] != "weight":
            c["col.cl_own_or_nothing"] += 1
            if full[i] not in (0, own[i]):
                obs.fail(f"C19|Columns|widths|{cols[i][0]}-column-neither-own-size-nor-hidden", f"column {i} own={own[i]} got {full[i]} widths={widths}")
        else:
            c["col.cl_weighted_ge_minwidth"] += 1
            if 0 < full[i] < minw:
                obs.fail("C19|Columns|widths|weighted-column-below-min_width", f"column {i} got {full[i]} < min_width {minw} widths={widths}")
    # focus column visible when it alone fits
    fown = minw if cols[focus][0] == "weight" else own[focus]
    if fown is not None and fown <= maxcol:
        c["col.cl_focus_visible"] += 1
        if full[focus] <= 0:
            obs.fail(f"C19|Columns|widths|focus-column-hidden-though-it-fits|focus-kind={cols[focus][0]}", f"focus={focus} own={fown} maxcol={maxcol} widths={widths}")
    else:
        c["col.focus_does_not_fit"] += 1
    # never exceed; filled exactly when a weighted column is shown
    total = sum(full) + div * max(len(shown) - 1, 0)
    c["col.cl_no_overflow"] += 1
    if total > maxcol:
        obs.fail("C19|Columns|widths|sum+dividers>maxcol" + ("|weighted-shown" if wshown else "|no-weighted-shown"), f"total={total} maxcol={maxcol} widths={widths}")
    if wshown:
        c["col.cl_filled_when_weighted"] += 1
        if total < maxcol:
            obs.fail("C19|Columns|widths|weighted-shown-but-not-filled", f"total={total} maxcol={maxcol} widths={widths}")
        # proportional shares
        T = sum(full[i] for i in wshown)
        W = sum(cols[i][1] for i in wshown)
        ideals = [T * cols[i][1] / W for i in wshown]
        if min(ideals) < minw:
            c["col.minwidth_binds_not_judged_proportional"] += 1
        else:
            c["col.cl_proportional"] += 1
            if len(wshown) > 1:
                c["col.cl_proportional_multi"] += 1
            for i, ideal in zip(wshown, ideals):
                if abs(full[i] - ideal) > 1 + 1e-9:
                    obs.fail(f"C19|Columns|widths|weighted-share-off-by-more-than-1|nweighted{'<=3' if len(wshown) <= 3 else '>=4'}", f"column {i} got {full[i]} ideal {ideal:.3f} widths={widths}")
                    break
    else:
        c["col.no_weighted_shown"] += 1
    if len(shown) < n:
        c["col.some_column_hidden"] += 1
    return full


COL_ENTRIES = [
    "ctor", "ctor-short", "ctor-enum", "options", "options-enum", "tuple-str", "tuple-enum", "column_types", "column_types-legacy",
    "widget_list", "box_columns",
]  # fmt: skip
PILE_ENTRIES = ["ctor", "ctor-short", "ctor-legacy", "ctor-enum", "options", "options-enum", "tuple-str", "tuple-enum", "item_types", "item_types-legacy", "widget_list"]


def _kind_enum(kind):
    urwid = U()
    return {"given": urwid.WHSettings.GIVEN, "pack": urwid.WHSettings.PACK, "weight": urwid.WHSettings.WEIGHT}[kind]


def build_columns(d):
    """build the Columns of descriptor d through the documented entry point d['entry'] (default: constructor tuples)"""
    urwid = U()
    entry = d.get("entry", "ctor")
    spies = []
    specs = []
    for i, col in enumerate(d["cols"]):
        kind, amount, sizing = col[0], col[1], col[2]
        flag = bool(col[3]) if len(col) > 3 else False
        s = spy(GLYPHS[i], sizing, pw=amount if kind == "pack" else 1, ph=1)
        if kind == "pack" and len(col) > 4 and col[4] is not None:
            s.fpw = col[4]  # pack width answered when asked with focus=True
        spies.append(s)
        specs.append((kind, None if kind == "pack" else amount, flag))
    boxcols = [i for i, sp in enumerate(specs) if sp[2]]
    kw = {"dividechars": d["div"], "min_width": d["minw"]}
    if entry in ("ctor", "ctor-short", "ctor-enum", "box_columns"):
        wl = []
        for (kind, amount, _f), s in zip(specs, spies):
            if entry == "ctor-enum":
                wl.append((_kind_enum(kind), s) if kind == "pack" else (_kind_enum(kind), amount, s))
            elif entry == "ctor-short" and kind == "given":
                wl.append((amount, s))
            elif entry == "ctor-short" and kind == "weight" and amount == 1:
                wl.append(s)
            else:
                wl.append(("pack", s) if kind == "pack" else (kind, amount, s))
        if entry == "box_columns":
            C = urwid.Columns(wl, **kw)
            C.box_columns = boxcols
        else:
            C = urwid.Columns(wl, box_columns=boxcols, **kw)
    elif entry in ("options", "options-enum", "tuple-str", "tuple-enum"):
        C = urwid.Columns([], **kw)
        for (kind, amount, flag), s in zip(specs, spies):
            if entry == "options":
                opt = C.options(kind, amount, flag)
            elif entry == "options-enum":
                opt = C.options(_kind_enum(kind), amount, flag)
            elif entry == "tuple-str":
                opt = (kind, amount, flag)  # plain strings written by hand, accepted by the contents validation
            else:
                opt = (_kind_enum(kind), amount, flag)
            C.contents.append((s, opt))
    elif entry in ("column_types", "column_types-legacy"):
        C = urwid.Columns(list(spies), box_columns=boxcols, **kw)
        legacy = {"given": "fixed", "pack": "flow"} if entry.endswith("legacy") else {}
        C.column_types = [(legacy.get(kind, kind), amount) for kind, amount, _f in specs]
        _ = C.has_flow_type  # deprecated getter, only exercised
    elif entry == "widget_list":
        dummies = [spy("?", "bl") for _ in spies]
        wl = [("pack", w) if kind == "pack" else (kind, amount, w) for (kind, amount, _f), w in zip(specs, dummies)]
        C = urwid.Columns(wl, box_columns=boxcols, **kw)
        C.widget_list = list(spies)
    else:
        raise ValueError(entry)
    return C, spies


def pack_own(s):
    """own size of a pack spy = the last width its pack() returned (observed)"""
    if s.packed:
        return s.packed[-1][1][0]
    return None


def eval_columns(obs, C, spies, d, focus, maxcol, mode, maxrow=2, fflag=False, dom=None):
    """one evaluation on a live Columns object; returns nothing, failures go to obs"""
    cols = d["cols"]
    div = d["div"]
    minw = d["minw"]
    if dom is None:
        dom = col_domain(cols, minw)
    tag = f"|{dom}" if dom else ""
    if C.focus_position != focus:
        C.focus_position = focus
    for s in spies:
        s.reset()
    try:
        widths = C.column_widths((maxcol,), fflag)
    except WidgetWarning:
        obs.c["skipped_invalid"] += 1
        return
    except Exception as e:  # noqa: BLE001
        obs.c["col.evals"] += 1
        obs.fail(f"C19|Columns|column_widths|raise:{type(e).__name__}{tag}", f"{type(e).__name__}: {e}\n{tb()}")
        return
    obs.c["col.evals"] += 1
    obs.last = list(widths) if isinstance(widths, (list, tuple)) else widths
    own = []
    for (kind, amount, *_), s in zip(cols, spies):
        if kind == "given":
            own.append(amount)
        elif kind == "pack":
            # own size = the widget's answer (for the size it was asked with) under the focus flag it is RENDERED with
            i = len(own)
            exp = bool(fflag and i == focus)
            if s.packed:
                o = s.pack_answer(s.packed[-1][0], exp)[0]
                if s.pack_answer(s.packed[-1][0], True)[0] != s.pack_answer(s.packed[-1][0], False)[0]:
                    obs.c["col.focus_dependent_pack_measured"] += 1
                    obs.c[f"col.focus_dependent_pack_{'focus' if i == focus else 'nonfocus'}_column_container_focus_{bool(fflag)}"] += 1
                    obs.c[f"col.focus_dependent_pack_path_{'fixed' if not s.packed[-1][0] else 'flow'}"] += 1
            else:
                o = None
            own.append(o)
        else:
            own.append(None)
    # a pack column that was never asked for its size must not be shown
    for i, o in enumerate(own):
        if cols[i][0] == "pack" and o is None:
            if i < len(widths) and widths[i] != 0:
                obs.fail("C19|Columns|widths|pack-column-shown-without-pack-call", f"column {i} widths={widths}")
            own[i] = cols[i][1]
    full = judge_columns(obs, cols, own, div, minw, focus, maxcol, list(widths), dom)
    flush_spies(obs, spies, "Columns")
    if full is None or mode == "widths":
        return
    # ---- what the children really receive: get_column_sizes + render + canvas
    size = (maxcol, maxrow) if mode == "box" else (maxcol,)
    for s in spies:
        s.reset()
    try:
        w2, _heights, args = C.get_column_sizes(size, fflag)
        canv = C.render(size, fflag)
        rows = text_rows(canv)
        ccols = canv.cols()
    except WidgetWarning:
        obs.c["skipped_invalid"] += 1
        return
    except Exception as e:  # noqa: BLE001
        obs.fail(f"C19|Columns|render-{mode}|raise:{type(e).__name__}{tag}", f"{type(e).__name__}: {e}\n{tb()}")
        return
    obs.c["col.cache_hit_agrees"] += 1
    if list(w2) != list(widths):
        obs.fail("C19|Columns|get_column_sizes|widths-differ-from-column_widths", f"{list(w2)} vs {list(widths)}")
    flush_spies(obs, spies, f"Columns-render-{mode}")
    if dom:
        return
    obs.c["col.child_sizes_observed"] += 1
    for i, s in enumerate(spies):
        if full[i] > 0:
            if len(s.rendered) != 1:
                obs.fail("C19|Columns|render|visible-column-not-rendered-exactly-once", f"column {i} renders={s.rendered} widths={widths}")
                continue
            got = s.rendered[0]
            rflag = [f for what, f in s.flags if what == "render"][-1]
            if rflag != bool(fflag and i == focus):
                obs.fail("C19|Columns|render|child-rendered-with-wrong-focus-flag", f"column {i} rendered with focus={rflag}, container focus={fflag}, focus column {focus}")
            gw = got[0] if got else s.pack_answer((), rflag)[0]
            if gw != full[i]:
                obs.fail(f"C19|Columns|render-{mode}|child-width!=assigned-width|kind={cols[i][0]}", f"column {i} rendered at {got} (pack {s.pw}) but assigned {full[i]}")
            if mode == "box" and got and got[1:] != (maxrow,):
                obs.fail("C19|Columns|render-box|child-rows!=maxrow", f"column {i} rendered at {got}, maxrow {maxrow}")
        elif s.rendered:
            obs.fail("C19|Columns|render|hidden-column-rendered", f"column {i} renders={s.rendered} widths={widths}")
    if not rows:
        obs.c["col.canvas_zero_rows_not_judged"] += 1  # only box_columns visible: urwid gives them 0 rows
        return
    obs.c["col.canvas_layout_checked"] += 1
    exp = (" " * div).join(GLYPHS[i] * full[i] for i in range(len(full)) if full[i] > 0).ljust(maxcol)
    if ccols != maxcol or not rows or rows[0] != exp:
        obs.fail(f"C19|Columns|render-{mode}|canvas-layout!=assigned-widths", f"row0={rows[0] if rows else None!r} expected {exp!r} cols={ccols}")


def case_columns(d, obs):
    """fresh-object evaluation of one descriptor (used by replay, shrinking and the random section)"""
    try:
        C, spies = build_columns(d)
    except WidgetWarning:
        obs.c["skipped_invalid"] += 1
        return
    except Exception as e:  # noqa: BLE001
        dom = col_domain(d["cols"], d["minw"])
        obs.fail(f"C19|Columns|construct|raise:{type(e).__name__}" + (f"|{dom}" if dom else ""), f"{type(e).__name__}: {e}")
        return
    for f, mc in d.get("history", []):
        quiet = Obs()
        eval_columns(quiet, C, spies, d, f, mc, "widths")
    eval_columns(obs, C, spies, d, d["focus"], d["maxcol"], d.get("mode", "widths"), d.get("maxrow", 2), bool(d.get("f", False)))


# --------------------------------------------------------------------------- Pile (box sized)


def pile_domain(items):
    zw = any(k == "weight" and a <= 0 for k, a, *_ in items)
    zg = any(k in ("given", "pack") and a <= 0 for k, a, *_ in items)
    if zw:
        return "zero-weight"
    if zg:
        return "zero-given"
    return ""


def build_pile(d):
    urwid = U()
    entry = d.get("entry", "ctor")
    spies = []
    specs = []
    for i, it in enumerate(d["items"]):
        kind, amount, sizing = it[0], it[1], it[2]
        nat = it[4] if kind == "pack" and len(it) > 4 else 0
        if sizing == "T":
            U()
            s = _TextSpy(GLYPHS[i], nat or amount)  # a real Text of that natural width
        else:
            # nat: natural width of a wrapping spy: pack(()) == (nat, 1), rows((w,)) == ceil(nat / w)
            s = spy(GLYPHS[i], sizing, pw=nat or 3, ph=amount if kind == "pack" else 1, area=nat)
        if kind == "pack" and len(it) > 3 and it[3] is not None and sizing != "T":
            s.fph = it[3]  # rows answered when asked with focus=True
        spies.append(s)
        specs.append((kind, None if kind == "pack" else amount))
    if entry in ("ctor", "ctor-short", "ctor-legacy", "ctor-enum"):
        wl = []
        for (kind, amount), s in zip(specs, spies):
            if entry == "ctor-enum":
                wl.append((_kind_enum(kind), s) if kind == "pack" else (_kind_enum(kind), amount, s))
            elif entry == "ctor-legacy" and kind == "pack":
                wl.append(("flow", s))
            elif entry == "ctor-legacy" and kind == "given":
                wl.append(("fixed", amount, s))
            elif entry == "ctor-short" and kind == "weight" and amount == 1:
                wl.append(s)
            elif entry == "ctor" and kind == "given":
                wl.append(("given", amount, s))
            elif kind == "given":
                wl.append((amount, s))
            else:
                wl.append(("pack", s) if kind == "pack" else (kind, amount, s))
        P = urwid.Pile(wl)
    elif entry in ("options", "options-enum", "tuple-str", "tuple-enum"):
        P = urwid.Pile([])
        for (kind, amount), s in zip(specs, spies):
            if entry == "options":
                opt = P.options(kind, amount)
            elif entry == "options-enum":
                opt = P.options(_kind_enum(kind), amount)
            elif entry == "tuple-str":
                opt = (kind, amount)
            else:
                opt = (_kind_enum(kind), amount)
            P.contents.append((s, opt))
    elif entry in ("item_types", "item_types-legacy"):
        P = urwid.Pile(list(spies))
        legacy = {"given": "fixed", "pack": "flow"} if entry.endswith("legacy") else {}
        P.item_types = [(legacy.get(kind, kind), amount) for kind, amount in specs]
    elif entry == "widget_list":
        dummies = [spy("?", "bl") for _ in spies]
        wl = [("pack", w) if kind == "pack" else (kind, amount, w) for (kind, amount), w in zip(specs, dummies)]
        P = urwid.Pile(wl)
        P.widget_list = list(spies)
    else:
        raise ValueError(entry)
    return P, spies


def judge_pile(obs, items, maxrow, rows, dom, own=None):
    c = obs.c
    n = len(items)
    if not isinstance(rows, (list, tuple)) or len(rows) != n:
        obs.fail("C19|Pile|rows|bad-shape", f"rows={rows!r} for {n} items")
        return None
    for r in rows:
        if not is_int(r) or r < 0:
            obs.fail("C19|Pile|rows|negative-or-non-int" + (f"|{dom}" if dom else ""), f"rows={rows!r}")
            return None
    c["pile.cl_nonneg_int"] += 1
    if dom:
        c["pile.zero_domain_evals"] += 1
        return list(rows)
    fixed = 0
    for i, (kind, amount, *_r) in enumerate(items):
        if kind != "weight":
            if own is not None and own[i] is not None:
                amount = own[i]
            c["pile.cl_own_size"] += 1
            fixed += amount
            if rows[i] != amount:
                obs.fail(f"C19|Pile|rows|{kind}-item-not-its-own-size", f"item {i} own={amount} got {rows[i]} rows={rows}")
    wi = [i for i in range(n) if items[i][0] == "weight"]
    T = sum(rows[i] for i in wi)
    rem = max(0, maxrow - fixed)
    c["pile.cl_weighted_fill_remainder"] += 1
    if T != rem:
        obs.fail("C19|Pile|rows|weighted-rows!=remaining-rows" + ("|overfull" if fixed > maxrow else ""), f"weighted total {T} remaining {rem} rows={rows} maxrow={maxrow}")
    if fixed > maxrow:
        c["pile.overfull_clipped"] += 1
    else:
        c["pile.cl_sum_exact"] += 1
        if sum(rows) != maxrow:
            obs.fail("C19|Pile|rows|sum!=maxrow", f"sum {sum(rows)} maxrow {maxrow} rows={rows}")
    if wi and T == rem:
        W = sum(items[i][1] for i in wi)
        c["pile.cl_proportional"] += 1
        if len(wi) > 1:
            c["pile.cl_proportional_multi"] += 1
        for i in wi:
            ideal = T * items[i][1] / W
            if abs(rows[i] - ideal) > 1 + 1e-9:
                obs.fail(f"C19|Pile|rows|weighted-share-off-by-more-than-1|nweighted{'<=3' if len(wi) <= 3 else '>=4'}", f"item {i} got {rows[i]} ideal {ideal:.3f} rows={rows}")
                break
    return list(rows)


def eval_pile(obs, P, spies, d, focus, maxrow, mode):
    items = d["items"]
    pflag = bool(d.get("f", False))
    maxcol = d["maxcol"]
    dom = pile_domain(items)
    tag = f"|{dom}" if dom else ""
    urwid = U()
    if P.focus_position != focus:
        P.focus_position = focus
    for s in spies:
        s.reset()
    size = (maxcol, maxrow)
    has_w = any(k == "weight" and a > 0 for k, a, *_ in items)
    try:
        rows = P.get_item_rows(size, pflag)
    except WidgetWarning:
        obs.c["skipped_invalid"] += 1
        return
    except urwid.widget.pile.PileError as e:
        obs.c["pile.evals"] += 1
        if not has_w:
            obs.c["pile.documented_error_no_weighted_item"] += 1
        else:
            obs.fail(f"C19|Pile|get_item_rows|raise:PileError-with-weighted-item{tag}", str(e))
        return
    except Exception as e:  # noqa: BLE001
        obs.c["pile.evals"] += 1
        obs.fail(f"C19|Pile|get_item_rows|raise:{type(e).__name__}{tag}", f"{type(e).__name__}: {e}\n{tb()}")
        return
    obs.c["pile.evals"] += 1
    obs.last = list(rows) if isinstance(rows, (list, tuple)) else rows
    if not has_w:
        obs.fail("C19|Pile|get_item_rows|no-documented-error-without-weighted-item", f"rows={rows}")
        return
    # own size of a pack item = its rows under the focus flag it is rendered with
    own = []
    for i, (it, s) in enumerate(zip(items, spies)):
        if it[0] == "pack":
            # own rows of a PACK item in a Pile of width maxcol: rows((maxcol,)) when the widget supports FLOW, else pack(())[1]
            exp = bool(pflag and i == focus)
            flowable = urwid.FLOW in s.sizing()
            own.append(s.rows_for(maxcol, exp) if flowable else s.pack_answer((), exp)[1])
            if flowable and urwid.FIXED in s.sizing() and own[-1] != s.pack_answer((), exp)[1]:
                obs.c["pile.pack_fixed+flow_item_wrapping_at_pile_width"] += 1
            elif flowable and own[-1] > 1 and s.area:
                obs.c["pile.pack_flow_only_item_wrapping_at_pile_width"] += 1
            elif not flowable:
                obs.c["pile.pack_fixed_only_item_measured"] += 1
            if s.rows_for(maxcol, True) != s.rows_for(maxcol, False):
                obs.c["pile.focus_dependent_pack_measured"] += 1
                obs.c[f"pile.focus_dependent_pack_{'focus' if i == focus else 'nonfocus'}_item_container_focus_{pflag}"] += 1
        else:
            own.append(None)
    full = judge_pile(obs, items, maxrow, rows, dom, own)
    flush_spies(obs, spies, "Pile")
    if full is None or mode == "rows":
        return
    for s in spies:
        s.reset()
    try:
        _w, h2, _args = P.get_rows_sizes(size, pflag)
        canv = P.render(size, pflag)
        trows = text_rows(canv)
        ccols, crows = canv.cols(), canv.rows()
    except WidgetWarning:
        obs.c["skipped_invalid"] += 1
        return
    except Exception as e:  # noqa: BLE001
        obs.fail(f"C19|Pile|render|raise:{type(e).__name__}{tag}", f"{type(e).__name__}: {e}\n{tb()}")
        return
    if list(h2) != list(rows):
        obs.fail("C19|Pile|get_rows_sizes|heights-differ-from-get_item_rows", f"{list(h2)} vs {list(rows)}")
    flush_spies(obs, spies, "Pile-render")
    if dom:
        return
    obs.c["pile.child_sizes_observed"] += 1
    for i, s in enumerate(spies):
        if full[i] > 0:
            if len(s.rendered) != 1:
                obs.fail("C19|Pile|render|visible-item-not-rendered-exactly-once", f"item {i} renders={s.rendered} rows={rows}")
                continue
            got = s.rendered[0]
            if got[0] != maxcol:
                obs.fail("C19|Pile|render|child-width!=maxcol", f"item {i} rendered at {got}")
            rflag = [f for what, f in s.flags if what == "render"][-1]
            if rflag != bool(pflag and i == focus):
                obs.fail("C19|Pile|render|child-rendered-with-wrong-focus-flag", f"item {i} rendered with focus={rflag}, container focus={pflag}, focus item {focus}")
            gh = got[1] if len(got) > 1 else s.rows_for(got[0], rflag)
            if gh != full[i]:
                obs.fail(f"C19|Pile|render|child-rows!=assigned-rows|kind={items[i][0]}", f"item {i} rendered at {got} but assigned {full[i]}")
        elif s.rendered:
            obs.fail("C19|Pile|render|zero-row-item-rendered", f"item {i} renders={s.rendered} rows={rows}")
    obs.c["pile.canvas_layout_checked"] += 1
    exp = "".join(GLYPHS[i] * full[i] for i in range(len(full)))[:maxrow].ljust(maxrow)
    col0 = "".join(r[0] if r else "?" for r in trows)
    if crows != maxrow or ccols != maxcol or col0 != exp:
        obs.fail("C19|Pile|render|canvas-layout!=assigned-rows", f"column0={col0!r} expected {exp!r} canvas {ccols}x{crows}")


def case_pile(d, obs):
    try:
        P, spies = build_pile(d)
    except WidgetWarning:
        obs.c["skipped_invalid"] += 1
        return
    except Exception as e:  # noqa: BLE001
        dom = pile_domain(d["items"])
        obs.fail(f"C19|Pile|construct|raise:{type(e).__name__}" + (f"|{dom}" if dom else ""), f"{type(e).__name__}: {e}")
        return
    eval_pile(obs, P, spies, d, d["focus"], d["maxrow"], d.get("mode", "rows"))


# --------------------------------------------------------------------------- Padding / Filler / Overlay: one axis


def align_pct(a):
    if isinstance(a, (list, tuple)):
        return a[1]
    return {"left": 0, "top": 0, "center": 50, "middle": 50, "right": 100, "bottom": 100}[a]


def py_align(a):
    return tuple(a) if isinstance(a, list) else a


def requested(kind, total, fa, fb, minsize, own=None):
    """(lo, hi) of the size the options ask for.  kind: int = given, ['relative', p], or 'own' (pack/clip: own size observed)"""
    if kind == "own":
        return own, own
    if isinstance(kind, int):
        return kind, kind
    p = kind[1]
    avail = max(total - fa - fb, 0)
    lo = avail * p // 100
    hi = -((-avail * p) // 100)
    if minsize is not None:
        lo, hi = max(lo, minsize), max(hi, minsize)
    return lo, hi


def judge_axis(obs, pre, where, total, fa, fb, pct, req, a, b, child, clip, shape, upper=None):
    """clauses for one axis.  a, b = margins returned by urwid; child = size observed at the child; req = (lo, hi);
    upper = largest size the child may get when the request does not fit (default min(requested, total))"""
    c = obs.c
    sig = f"C19|{where}"
    if not (is_int(a) and is_int(b)):
        obs.fail(f"{sig}|margins-not-int|{shape}", f"margins {a!r},{b!r}")
        return
    c[f"{pre}.cl_sum_exact"] += 1
    if a + b + child != total:
        obs.fail(f"{sig}|margins+child!=available|{shape}", f"{a}+{child}+{b} != {total}")
        return
    if not clip:
        c[f"{pre}.cl_margins_nonneg"] += 1
        if a < 0 or b < 0 or child < 0:
            obs.fail(f"{sig}|negative-margin-or-child|{shape}", f"margins {a},{b} child {child}")
    lo, hi = req
    avail = total - fa - fb
    if hi <= avail:
        c[f"{pre}.cl_requested_when_fits"] += 1
        if not lo <= child <= hi:
            obs.fail(f"{sig}|fits-but-child!=requested|{shape}", f"child {child} requested {lo}..{hi} total {total} fixed margins {fa},{fb} (beside margins {avail})")
            return
        if a < fa or b < fb:
            obs.fail(f"{sig}|fits-but-fixed-margin-reduced|{shape}", f"margins {a},{b} fixed {fa},{fb} child {child} total {total}")
            return
        spare = avail - child
        c[f"{pre}.cl_split_by_percentage"] += 1
        if spare > 0:
            c[f"{pre}.cl_split_nonzero_spare"] += 1
        if abs((a - fa) - spare * pct / 100) >= 1:
            obs.fail(f"{sig}|spare-not-split-by-percentage|{shape}", f"spare {spare} pct {pct} extra-before {a - fa} extra-after {b - fb}")
    elif lo > avail:
        c[f"{pre}.cl_remaining_otherwise"] += 1
        if clip:
            if child != lo:
                obs.fail(f"{sig}|clipped-child-size-changed|{shape}", f"child {child} own {lo}")
        elif not max(avail, 0) <= child <= (min(hi, total) if upper is None else upper):
            obs.fail(f"{sig}|does-not-fit-but-child-outside-[remaining,min(requested,total)]|{shape}", f"child {child} requested {lo}..{hi} total {total} fixed margins {fa},{fb} (beside margins {avail}) upper {upper}")
        elif child == min(hi, total) and child > max(avail, 0):
            c[f"{pre}.margins_squeezed"] += 1
        else:
            c[f"{pre}.child_reduced_to_remaining"] += 1
    else:
        c[f"{pre}.rounding_ambiguous_fit"] += 1


def kind_name(k):
    if isinstance(k, int):
        return "given"
    if isinstance(k, (list, tuple)):
        return "relative"
    return str(k)


# --------------------------------------------------------------------------- Padding


def case_padding(d, obs):
    urwid = U()
    width = d["width"]
    maxcol = d["maxcol"]
    maxrow = d.get("maxrow")
    sizing, pw, ph, area = d["child"]
    wk = kind_name(width)
    shape = f"width={wk}" + ("|min_width" if d["minw"] is not None else "")
    ch = spy("t", sizing, pw=pw, ph=ph, area=area)
    size = (maxcol,) if maxrow is None else (maxcol, maxrow)
    try:
        P = urwid.Padding(ch, py_align(d["align"]), py_align(width), d["minw"], d["left"], d["right"])
        lr = P.padding_values(size, False)
        packres = pack_own(ch)
        ch.reset()
        canv = P.render(size, False)
        rows = text_rows(canv)
        ccols = canv.cols()
    except WidgetWarning as e:
        if wk == "given" and width >= 1 and width + d["left"] + d["right"] <= maxcol:
            # "too narrow" although the given width fits beside the fixed margins: the warning is a symptom, not a domain limit
            obs.c["pad.evals"] += 1
            obs.fail(f"C19|Padding|render|warning-though-request-fits:{type(e).__name__}|{shape}", f"{type(e).__name__}: {e}")
        else:
            obs.c["skipped_invalid"] += 1
        return
    except Exception as e:  # noqa: BLE001
        obs.c["pad.evals"] += 1
        obs.fail(f"C19|Padding|raise:{type(e).__name__}|{shape}", f"{type(e).__name__}: {e}\n{tb()}")
        return
    obs.c["pad.evals"] += 1
    flush_spies(obs, [ch], "Padding")
    if not (isinstance(lr, tuple) and len(lr) == 2):
        obs.fail(f"C19|Padding|padding_values|bad-shape|{shape}", repr(lr))
        return
    left, right = lr
    clip = wk == "clip"
    upper = None
    if len(ch.rendered) != 1:
        obs.fail(f"C19|Padding|render|child-not-rendered-exactly-once|{shape}", f"{ch.rendered}")
        return
    got = ch.rendered[0]
    obs.c["pad.child_sizes_observed"] += 1
    if clip:
        if got != ():
            obs.fail(f"C19|Padding|render|clip-child-not-rendered-fixed|{shape}", f"{got}")
        child = pw
        req = requested("own", maxcol, d["left"], d["right"], None, pw)
    else:
        if not got:
            obs.fail(f"C19|Padding|render|child-rendered-without-width|{shape}", f"{got}")
            return
        child = got[0]
        if maxrow is not None and got[1:] != (maxrow,):
            obs.fail(f"C19|Padding|render|box-child-rows!=maxrow|{shape}", f"{got}")
        if wk == "pack":
            # the request of a packed child is its natural width; when that does not fit it gets the space beside the
            # margins (more only as far as min_width asks for it)
            req = requested("own", maxcol, d["left"], d["right"], None, pw)
            upper = max(maxcol - d["left"] - d["right"], min(pw, d["minw"] or 0), 0)
            if packres is None:
                obs.fail(f"C19|Padding|padding_values|packed-child-never-asked-for-its-size|{shape}", "no pack() call logged")
        else:
            req = requested(width, maxcol, d["left"], d["right"], d["minw"])
    judge_axis(obs, "pad", "Padding|h", maxcol, d["left"], d["right"], align_pct(d["align"]), req, left, right, child, clip, shape, upper)
    # position on the canvas
    if ccols != maxcol:
        obs.fail(f"C19|Padding|render|canvas-cols!=maxcol|{shape}", f"{ccols} vs {maxcol}")
        return
    box, filled = bbox(rows, "t")
    x0, x1 = max(left, 0), maxcol - max(right, 0)
    obs.c["pad.canvas_position_checked"] += 1
    if x1 > x0 and child > 0:
        if box is None or not filled or (box[0], box[1]) != (x0, x1):
            obs.fail(f"C19|Padding|render|child-not-drawn-between-margins|{shape}", f"glyph box {box} filled={filled} expected columns {x0}..{x1} margins {left},{right}")
    elif box is not None:
        obs.fail(f"C19|Padding|render|child-drawn-though-no-room|{shape}", f"glyph box {box} margins {left},{right}")


def case_padfixed(d, obs):
    """Padding rendered as a FIXED widget (size ()): the available width is the width Padding itself claims with pack(());
    canvas width == pack(())[0] == the documented total, left + child + right == canvas width, fixed margins kept,
    spare split by the alignment, child drawn between the margins"""
    urwid = U()
    width = d["width"]
    wk = kind_name(width)
    minw, fl, fr = d["minw"], d["left"], d["right"]
    kind, pw, ph = d["child"][0], d["child"][1], d["child"][2]
    shape = f"fixed-render|width={wk}" + ("|min_width" if minw is not None else "")
    if wk == "relative" and width[1] > 100:
        # a FIXED render cannot make the widget narrower than the child it draws unclipped: a relative width above 100%
        # (child wider than the whole) has no meaning here; not judged
        obs.c["padfixed.relative_above_100_not_judged"] += 1
        return
    if kind == "big":
        ch = urwid.BigText("1" * pw, urwid.Thin3x3Font())
        cw_nat = ch.pack(())[0]
        spies = []
    else:
        ch = spy("t", "l" if wk == "given" else "x", pw=pw, ph=ph)
        cw_nat = pw
        spies = [ch]
    try:
        P = urwid.Padding(ch, py_align(d["align"]), py_align(width), minw, fl, fr)
        if wk == "clip":
            try:
                P.render((), False)
            except urwid.widget.padding.PaddingError:
                obs.c["padfixed.documented_error_clip_is_flow_only"] += 1
                return
            obs.c["padfixed.evals"] += 1
            obs.fail(f"C19|Padding|fixed-render|clip-rendered-fixed-without-documented-error|{shape}", "no PaddingError")
            return
        claimed = P.pack((), False)
        lr = P.padding_values((), False)
        for sp in spies:
            sp.reset()
        canv = P.render((), False)
        rows = text_rows(canv)
        ccols = canv.cols()
    except WidgetWarning:
        obs.c["skipped_invalid"] += 1
        return
    except Exception as e:  # noqa: BLE001
        obs.c["padfixed.evals"] += 1
        obs.fail(f"C19|Padding|fixed-render|raise:{type(e).__name__}|{shape}", f"{type(e).__name__}: {e}\n{tb()}")
        return
    obs.c["padfixed.evals"] += 1
    flush_spies(obs, spies, "Padding-fixed")
    # the documented total: child (given: the given width) widened to min_width (at least 1), plus the fixed margins
    if wk == "given":
        child = width
        inner = (max(width, minw or 1),) * 2
    elif wk == "pack":
        child = cw_nat
        inner = (max(cw_nat, minw or 1),) * 2
    else:
        child = cw_nat
        x = cw_nat * 100 / width[1]
        inner = (max(math.floor(x), minw or 1), max(math.ceil(x), minw or 1))
    obs.c["padfixed.cl_canvas_width==pack"] += 1
    if ccols != claimed[0]:
        obs.fail(f"C19|Padding|fixed-render|canvas-width!=pack()|{shape}", f"canvas {ccols} columns, pack(()) says {claimed}")
    obs.c["padfixed.cl_total_width"] += 1
    if not inner[0] + fl + fr <= ccols <= inner[1] + fl + fr:
        obs.fail(f"C19|Padding|fixed-render|total-width!=max(child,min_width)+margins|{shape}", f"canvas {ccols} columns, expected {inner[0] + fl + fr}..{inner[1] + fl + fr} (child {child}, min_width {minw}, margins {fl},{fr})")
        return
    if spies:
        if len(ch.rendered) != 1:
            obs.fail(f"C19|Padding|fixed-render|child-not-rendered-exactly-once|{shape}", f"{ch.rendered}")
            return
        got = ch.rendered[0]
        if (wk == "given" and got != (width,)) or (wk != "given" and got != ()):
            obs.fail(f"C19|Padding|fixed-render|child-handed-wrong-size|{shape}", f"{got}")
            return
        obs.c["padfixed.child_sizes_observed"] += 1
    if not (isinstance(lr, tuple) and len(lr) == 2 and is_int(lr[0]) and is_int(lr[1])):
        obs.fail(f"C19|Padding|fixed-render|padding_values-bad-shape|{shape}", repr(lr))
        return
    left, right = lr
    before = len(obs.fails)
    judge_axis(obs, "padfixed", "Padding|fixed-render|h", ccols, fl, fr, align_pct(d["align"]), (child, child), left, right, child, False, shape)
    if inner[0] > child:
        obs.c["padfixed.min_width_widens_total"] += 1
    if len(obs.fails) > before or not spies:
        return
    obs.c["padfixed.canvas_position_checked"] += 1
    box, filled = bbox(rows, "t")
    if box is None or not filled or (box[0], box[1]) != (left, left + child):
        obs.fail(f"C19|Padding|fixed-render|child-not-drawn-between-margins|{shape}", f"glyph box {box} filled={filled} expected columns {left}..{left + child} margins {left},{right}")


# --------------------------------------------------------------------------- Filler


def case_filler(d, obs):
    urwid = U()
    height = d["height"]
    maxcol, maxrow = d["maxcol"], d["maxrow"]
    sizing, pw, ph, area = d["child"]
    hk = kind_name(height)
    minh = d["minh"] if hk == "relative" else None
    shape = f"height={hk}" + ("|min_height" if minh is not None else "")
    ch = spy("t", sizing, pw=pw, ph=ph, area=area)
    size = (maxcol, maxrow)
    try:
        F = urwid.Filler(ch, py_align(d["valign"]), py_align(height), d["minh"], d["top"], d["bottom"])
        tbv = F.filler_values(size, False)
        ch.reset()
        canv = F.render(size, False)
        rows = text_rows(canv)
        ccols, crows = canv.cols(), canv.rows()
    except WidgetWarning:
        obs.c["skipped_invalid"] += 1
        return
    except Exception as e:  # noqa: BLE001
        obs.c["fill.evals"] += 1
        obs.fail(f"C19|Filler|raise:{type(e).__name__}|{shape}", f"{type(e).__name__}: {e}\n{tb()}")
        return
    obs.c["fill.evals"] += 1
    flush_spies(obs, [ch], "Filler")
    if not (isinstance(tbv, tuple) and len(tbv) == 2):
        obs.fail(f"C19|Filler|filler_values|bad-shape|{shape}", repr(tbv))
        return
    top, bottom = tbv
    if not ch.rendered and hk != "pack" and is_int(top) and is_int(bottom) and maxrow - top - bottom <= 0:
        # no row is left for a box body: urwid does not render it at all (nothing is handed to the child); its extent is
        # what the margins leave, and every clause is still judged on that
        obs.c["fill.no_room_child_not_rendered"] += 1
        got = (maxcol, maxrow - top - bottom)
    elif len(ch.rendered) != 1:
        obs.fail(f"C19|Filler|render|child-not-rendered-exactly-once|{shape}", f"{ch.rendered}")
        return
    else:
        got = ch.rendered[0]
        obs.c["fill.child_sizes_observed"] += 1
    if not got or got[0] != maxcol:
        obs.fail(f"C19|Filler|render|child-width!=maxcol|{shape}", f"{got}")
        return
    if ccols != maxcol or crows != maxrow:
        obs.fail(f"C19|Filler|render|canvas-size!=size|{shape}", f"{ccols}x{crows} vs {size}")
        return
    box, filled = bbox(rows, "t")
    visible = 0 if box is None else box[3] - box[2]
    if hk == "pack":
        if len(got) != 1:
            obs.fail(f"C19|Filler|render|flow-child-rendered-as-box|{shape}", f"{got}")
        own = ch.rows_for(maxcol)
        child = min(own, maxrow)  # a flow child draws its own rows; Filler can only clip it
        req = requested("own", maxrow, d["top"], d["bottom"], None, own)
    else:
        if len(got) != 2:
            obs.fail(f"C19|Filler|render|box-child-rendered-without-rows|{shape}", f"{got}")
            return
        child = got[1]
        req = requested(height, maxrow, d["top"], d["bottom"], minh)
    judge_axis(obs, "fill", "Filler|v", maxrow, d["top"], d["bottom"], align_pct(d["valign"]), req, top, bottom, child, False, shape)
    obs.c["fill.canvas_position_checked"] += 1
    if child > 0:
        if box is None or not filled or (box[2], box[3]) != (top, maxrow - bottom) or visible != child:
            obs.fail(f"C19|Filler|render|child-not-drawn-between-margins|{shape}", f"glyph box {box} filled={filled} expected rows {top}..{maxrow - bottom} margins {top},{bottom}")
    elif box is not None:
        obs.fail(f"C19|Filler|render|child-drawn-though-no-room|{shape}", f"glyph box {box}")


# --------------------------------------------------------------------------- Overlay


def case_overlay(d, obs):
    urwid = U()
    width, height = d["width"], d["height"]
    maxcol, maxrow = d["maxcol"], d["maxrow"]
    sizing, pw, ph, area = d["child"]
    wk, hk = kind_name(width), kind_name(height)
    topkind = "fixed-top" if wk == "pack" else ("flow-top" if hk == "pack" else "box-top")
    minh = d["minh"] if hk == "relative" else None
    shape = f"{topkind}|width={wk}|height={hk}"
    hshape = f"{topkind}|width={wk}" + ("|min_width" if wk == "relative" and d["minw"] is not None else "")
    vshape = f"{topkind}|height={hk}" + ("|min_height" if minh is not None else "")
    ch = spy("t", sizing, pw=pw, ph=ph, area=area)
    size = (maxcol, maxrow)
    try:
        O = urwid.Overlay(
            ch, urwid.SolidFill("."), py_align(d["align"]), py_align(width), py_align(d["valign"]), py_align(height),
            d["minw"], d["minh"], d["left"], d["right"], d["top"], d["bottom"],
        )  # fmt: skip
        vals = O.calculate_padding_filler(size, False)
    except WidgetWarning:
        obs.c["skipped_invalid"] += 1
        return
    except Exception as e:  # noqa: BLE001
        obs.c["ovl.evals"] += 1
        obs.fail(f"C19|Overlay|calculate_padding_filler|raise:{type(e).__name__}|{shape}", f"{type(e).__name__}: {e}\n{tb()}")
        return
    obs.c["ovl.evals"] += 1
    if not (isinstance(vals, tuple) and len(vals) == 4):
        obs.fail(f"C19|Overlay|calculate_padding_filler|bad-shape|{shape}", repr(vals))
        return
    left, right, top, bottom = vals
    # size the child will be handed according to urwid's own top_w_size, then observed for real at render time
    ch.reset()
    rendered_ok = True
    try:
        canv = O.render(size, False)
        rows = text_rows(canv)
        ccols, crows = canv.cols(), canv.rows()
    except WidgetWarning:
        obs.c["skipped_invalid"] += 1
        return
    except Exception as e:  # noqa: BLE001
        rendered_ok = False
        rows = None
        rerr = e
        rtb = tb()
    flush_spies(obs, [ch], "Overlay")
    noroom = False
    if not ch.rendered and rendered_ok and topkind != "fixed-top" and all(is_int(v) for v in vals):
        room = (maxcol - left - right,) if topkind == "flow-top" else (maxcol - left - right, maxrow - top - bottom)
        noroom = any(v <= 0 for v in room)
    if noroom:
        # a relative size rounded down to nothing / margins as large as the overlay: urwid shows only the bottom widget and
        # hands nothing to the top widget; its extent is what the margins leave, the clauses are judged on that
        obs.c["ovl.no_room_top_not_rendered"] += 1
        got = room
    elif len(ch.rendered) != 1:
        if rendered_ok:
            obs.fail(f"C19|Overlay|render|child-not-rendered-exactly-once|{shape}", f"{ch.rendered}")
        else:
            obs.fail(f"C19|Overlay|render|raise:{type(rerr).__name__}|{shape}", f"{type(rerr).__name__}: {rerr}\n{rtb}")
        return
    else:
        got = ch.rendered[0]
        obs.c["ovl.child_sizes_observed"] += 1
    # ---- horizontal
    if topkind == "fixed-top":
        if got != ():
            obs.fail(f"C19|Overlay|render|fixed-top-not-rendered-fixed|{shape}", f"{got}")
        cw, chh = pw, ph
        hreq = requested("own", maxcol, d["left"], d["right"], None, pw)
        hclip = True
    else:
        if not got:
            obs.fail(f"C19|Overlay|render|top-rendered-without-width|{shape}", f"{got}")
            return
        cw = got[0]
        hreq = requested(width, maxcol, d["left"], d["right"], d["minw"])
        hclip = False
        if topkind == "flow-top":
            if len(got) != 1:
                obs.fail(f"C19|Overlay|render|flow-top-rendered-as-box|{shape}", f"{got}")
            chh = ch.rows_for(cw)
        else:
            if len(got) != 2:
                obs.fail(f"C19|Overlay|render|box-top-rendered-without-rows|{shape}", f"{got}")
                return
            chh = got[1]
    judge_axis(obs, "ovl", "Overlay|h", maxcol, d["left"], d["right"], align_pct(d["align"]), hreq, left, right, cw, hclip, hshape)
    # ---- vertical
    if topkind == "box-top":
        vreq = requested(height, maxrow, d["top"], d["bottom"], minh)
        vclip = False
    else:
        vreq = requested("own", maxrow, d["top"], d["bottom"], None, chh)
        vclip = True
    judge_axis(obs, "ovl", "Overlay|v", maxrow, d["top"], d["bottom"], align_pct(d["valign"]), vreq, top, bottom, chh, vclip, vshape)
    if not rendered_ok:
        if obs.fails:
            obs.c["ovl.render_raise_after_arithmetic_failure"] += 1  # consequence of the failure already reported
        elif cw == 0 or chh == 0:
            obs.c["ovl.render_raise_with_zero_size_top_not_judged"] += 1
        else:
            # (round 1 exempted clipped tops here because Overlay.render then mis-placed every clipped canvas; fixed upstream in
            # fb41765, so a clipped top that cannot be rendered is again "margins plus the visible child do not fill the space")
            if min(left, right, top, bottom) < 0:
                shape += "|clipped-" + ("both-axes" if min(left, right) < 0 and min(top, bottom) < 0 else ("h" if min(left, right) < 0 else "v"))
            obs.fail(f"C19|Overlay|render|raise:{type(rerr).__name__}|{shape}", f"{type(rerr).__name__}: {rerr}\n{rtb}")
        return
    if obs.fails:
        return
    # ---- position on the canvas
    if (ccols, crows) != size:
        obs.fail(f"C19|Overlay|render|canvas-size!=size|{shape}", f"{ccols}x{crows} vs {size}")
        return
    obs.c["ovl.canvas_position_checked"] += 1
    if min(left, right) < 0 and min(top, bottom) < 0:
        obs.c["ovl.clipped_on_both_axes_position_checked"] += 1
    elif min(left, right, top, bottom) < 0:
        obs.c["ovl.clipped_on_one_axis_position_checked"] += 1
    box, filled = bbox(rows, "t")
    x0, x1 = max(left, 0), maxcol - max(right, 0)
    y0, y1 = max(top, 0), maxrow - max(bottom, 0)
    if x1 > x0 and y1 > y0 and cw > 0 and chh > 0:
        if box is None or not filled or box != (x0, x1, y0, y1):
            obs.fail(f"C19|Overlay|render|top-not-drawn-between-margins|{shape}", f"glyph box {box} filled={filled} expected {(x0, x1, y0, y1)} margins {vals}")
    elif box is not None:
        obs.fail(f"C19|Overlay|render|top-drawn-though-no-room|{shape}", f"glyph box {box} margins {vals}")


# --------------------------------------------------------------------------- GridFlow


def case_gridflow(d, obs):
    urwid = U()
    cells = d["cells"]  # [rows, selectable]
    cw, hs, vs = d["cw"], d["hsep"], d["vsep"]
    maxcol = d["maxcol"]
    n = len(cells)
    shape = "fixed-render" if maxcol is None else "flow-render"
    spies = [spy(GLYPHS[i], "l", pw=cw, ph=c[0], selectable=bool(c[1])) for i, c in enumerate(cells)]
    # a cell may carry its own configured width (third element), set through the documented
    # grid.contents[i] = (w, grid.options(width_amount=N)); the oracle reads each cell's width from this descriptor
    own0 = [c[2] if len(c) > 2 and c[2] else None for c in cells]
    own = list(own0)
    cw0 = cw
    # history of public operations on the live grid (model state updated by the documented rule, never read back from urwid):
    #   ["setw", i, N]  grid.contents[i] = (w, grid.options(width_amount=N))   -> that cell's configured width is N
    #   ["cw", N]       grid.cell_width = N  ("Setting this value affects all cells") -> EVERY cell's configured width is N
    #   ["render"]      render at the case's size (warms the display-widget cache);  ["focus", i]
    ops = d.get("ops") or []
    for op in ops:
        if op[0] == "setw":
            own[op[1] % n] = op[2]
        elif op[0] == "cw":
            cw = op[1]
            own = [None] * n
    if ops:
        shape += "|after-live-ops"
    wid = [o or cw for o in own]
    uniform = not any(o and o != cw for o in own)
    if not uniform:
        shape += "|per-cell-widths"
        if maxcol is None or max(wid) > maxcol:
            obs.c["grid.nonuniform_fixed_or_cell_wider_than_available_not_judged"] += 1
            return

    def mk():
        G = urwid.GridFlow(spies, cw0, hs, vs, py_align(d["align"]), focus=d["focus"])
        for i, o in enumerate(own0):
            if o:
                G.contents[i] = (spies[i], G.options(width_amount=o) if i % 2 == 0 else ("given", o))
        for op in ops:
            obs.c[f"grid.live_op_{op[0]}"] += 1
            if op[0] == "setw":
                G.contents[op[1] % n] = (spies[op[1] % n], G.options(width_amount=op[2]))
            elif op[0] == "cw":
                if op[1] == G.cell_width:
                    obs.c["grid.live_op_cw_same_value"] += 1
                G.cell_width = op[1]
            elif op[0] == "render":
                G.render(size, False)
            elif op[0] == "focus":
                G.focus_position = op[1] % n
        for sp in spies:
            sp.reset()
        return G

    size = () if maxcol is None else (maxcol,)
    try:
        G = mk()
        canv = G.render(size, bool(d.get("f", False)))
        rows = text_rows(canv)
        ccols = canv.cols()
    except urwid.widget.grid_flow.GridFlowWarning:
        obs.c["skipped_invalid"] += 1  # GridFlow's own diagnostic about the caller's input (size smaller than a cell)
        return
    except WidgetWarning as e:
        # a warning from the Pile / Padding / Columns that GridFlow builds itself is not about the caller's input:
        # GridFlow asked its own parts for something they cannot lay out
        obs.fail(f"C19|GridFlow|render|warning-from-internal-layout-widget:{type(e).__name__}|{shape}", f"{type(e).__name__}: {e}")
        # look at what is drawn anyway (warning silenced) so that the visible symptom is reported as well
        try:
            with warnings.catch_warnings():
                warnings.simplefilter("ignore", WidgetWarning)
                for sp in spies:
                    sp.reset()
                G = mk()
                canv = G.render(size, bool(d.get("f", False)))
                rows = text_rows(canv)
                ccols = canv.cols()
        except Exception:  # noqa: BLE001
            obs.c["grid.evals"] += 1
            return
    except Exception as e:  # noqa: BLE001
        obs.c["grid.evals"] += 1
        obs.fail(f"C19|GridFlow|render|raise:{type(e).__name__}|{shape}", f"{type(e).__name__}: {e}\n{tb()}")
        return
    obs.c["grid.evals"] += 1
    flush_spies(obs, spies, "GridFlow")
    total = n * cw + (n - 1) * hs if maxcol is None else maxcol
    if ccols != total:
        obs.fail(f"C19|GridFlow|render|canvas-cols!=available|{shape}", f"{ccols} vs {total}")
        return
    boxes = []
    obs.c["grid.cl_every_cell_shown"] += 1
    obs.c["grid.cl_cell_width"] += 1
    for i, s in enumerate(spies):
        box, filled = bbox(rows, s.glyph)
        if box is None:
            obs.fail(f"C19|GridFlow|render|cell-not-shown|{shape}", f"cell {i} of {n} missing; canvas {rows}")
            return
        if s.rendered and any(g != (wid[i],) for g in s.rendered):
            obs.fail(f"C19|GridFlow|render|cell-handed-width!=cell_width|{shape}", f"cell {i} rendered at {s.rendered}, configured width {wid[i]}")
            return
        if not filled or box[1] - box[0] != wid[i] or box[3] - box[2] != cells[i][0]:
            obs.fail(f"C19|GridFlow|render|cell-not-drawn-at-cell-width|{shape}", f"cell {i} box {box} filled={filled} configured width {wid[i]} rows {cells[i][0]}; canvas {rows}")
            return
        boxes.append(box)
    # reading order: left to right, then top to bottom, no overlap
    obs.c["grid.cl_reading_order"] += 1
    line_tops = []
    for i in range(1, n):
        p, q = boxes[i - 1], boxes[i]
        same_line = q[2] == p[2]
        if same_line:
            if q[0] < p[1]:
                obs.fail(f"C19|GridFlow|render|cells-out-of-reading-order|same-line|{shape}", f"cell {i - 1} {p} cell {i} {q}")
                return
            obs.c["grid.cl_h_sep"] += 1
            if q[0] - p[1] != hs:
                obs.fail(f"C19|GridFlow|render|gap-between-cells!=h_sep|{shape}", f"cell {i - 1} {p} cell {i} {q} h_sep {hs}")
                return
        else:
            if q[2] <= p[2]:
                obs.fail(f"C19|GridFlow|render|cells-out-of-reading-order|line-break|{shape}", f"cell {i - 1} {p} cell {i} {q}")
                return
            line_tops.append(i)
    # lines do not overlap vertically and are v_sep apart
    starts = [0, *line_tops, n]
    prev_bottom = None
    for a, b in zip(starts, starts[1:]):
        ltop = boxes[a][2]
        lbot = max(boxes[k][3] for k in range(a, b))
        if any(boxes[k][2] != ltop for k in range(a, b)):
            obs.fail(f"C19|GridFlow|render|cells-of-one-line-not-top-aligned|{shape}", f"{boxes[a:b]}")
            return
        if prev_bottom is not None:
            obs.c["grid.cl_v_sep"] += 1
            if ltop - prev_bottom != vs:
                obs.fail(f"C19|GridFlow|render|gap-between-lines!=v_sep|{shape}", f"line at {ltop} previous bottom {prev_bottom} v_sep {vs}")
                return
        elif ltop != 0:
            obs.fail(f"C19|GridFlow|render|first-line-not-at-top|{shape}", f"{boxes[a]}")
            return
        prev_bottom = lbot
        # alignment of the line inside the available columns
        lw = boxes[b - 1][1] - boxes[a][0]
        spare = total - lw
        obs.c["grid.cl_line_alignment"] += 1
        if spare < 0 or abs(boxes[a][0] - spare * align_pct(d["align"]) / 100) >= 1:
            obs.fail(f"C19|GridFlow|render|line-not-aligned-by-percentage|{shape}", f"line starts at {boxes[a][0]} width {lw} of {total} pct {align_pct(d['align'])}")
            return
    if len(starts) > 2:
        obs.c["grid.multi_line"] += 1
    if not uniform:
        obs.c["grid.per_cell_width_cases_judged"] += 1
    if ops:
        obs.c["grid.live_histories_judged"] += 1
        percell = any(own0)
        for op in ops:
            if op[0] == "setw":
                percell = True
            elif op[0] == "cw" and percell:
                obs.c["grid.live_cell_width_assigned_after_per_cell_widths"] += 1
                break


def case_live(d, obs):
    """one live Columns / box Pile object driven through a history of public operations (available size, focus_position,
    contents[i] = (widget, options), Columns.box_columns setter); every clause is re-judged after every operation.
    A failure that a fresh object with the same final state also shows is reported under its plain signature,
    otherwise as '...|live-object|last-op=<kind>'."""
    iscol = d["c"] == "columns"
    cur = {"k": d["c"], "cols" if iscol else "items": [list(x) for x in d["parts"]], "maxcol": d["maxcol"]}
    if iscol:
        cur.update(div=d["div"], minw=d["minw"])
    parts = cur["cols" if iscol else "items"]
    try:
        W, spies = (build_columns if iscol else build_pile)(cur)
    except WidgetWarning:
        obs.c["skipped_invalid"] += 1
        return
    focus = 0
    size = d["size"]
    obs.c["live.histories"] += 1
    for k, op in enumerate(d["ops"]):
        kind = op[0]
        try:
            if kind == "size":
                size = op[1]
            elif kind == "focus":
                focus = op[1] % len(parts)
            elif kind == "set":
                i = op[1] % len(parts)
                parts[i] = list(op[2])
                tmp = dict(cur)
                tmp["cols" if iscol else "items"] = [parts[i]]
                _w2, sp2 = (build_columns if iscol else build_pile)(tmp)
                sp2[0].glyph = GLYPHS[i]
                spies[i] = sp2[0]
                form = op[3] if len(op) > 3 else "ctor"
                opt = _w2.contents[0][1]
                if form != "ctor":
                    kd, am = parts[i][0], (None if parts[i][0] == "pack" else parts[i][1])
                    kd = _kind_enum(kd) if form == "tuple-enum" else kd
                    extra = (bool(parts[i][3]) if len(parts[i]) > 3 else False,) if iscol else ()
                    opt = W.options(kd, am, *extra) if form == "options" else (kd, am, *extra)
                obs.c[f"live.set_form_{form}"] += 1
                W.contents[i] = (sp2[0], opt)
            elif kind == "boxcols" and iscol:
                W.box_columns = [i for i in op[1] if i < len(parts)]
                for i, pt in enumerate(parts):
                    while len(pt) < 4:
                        pt.append(False)
                    pt[3] = i in op[1]
            else:
                continue
        except WidgetWarning:
            obs.c["skipped_invalid"] += 1
            return
        except Exception as e:  # noqa: BLE001
            obs.fail(f"C19|{d['c'].capitalize()}|live-object|op-{kind}|raise:{type(e).__name__}", f"{type(e).__name__}: {e}\n{tb()}")
            return
        obs.c["live.ops_applied"] += 1
        obs.c[f"live.op_{kind}"] += 1
        mode = d.get("modes", ["widths"])[k % len(d.get("modes", ["widths"]))]
        before = len(obs.fails)
        if iscol:
            eval_columns(obs, W, spies, cur, focus, size, mode, 2, bool(d.get("f", False)))
        else:
            eval_pile(obs, W, spies, cur, focus, size, "rows" if mode == "widths" else "render")
        if len(obs.fails) > before:
            new = obs.fails[before:]
            del obs.fails[before:]
            plain = dict(cur, focus=focus, mode=mode if iscol else ("rows" if mode == "widths" else "render"))
            plain["maxcol" if iscol else "maxrow"] = size
            fresh = {sg for sg, _ in evaluate(plain)}
            for sg, msg in new:
                if sg in fresh:
                    obs.fail(sg, msg)
                else:
                    obs.fail(f"{sg}|live-object|last-op={kind}", f"{msg} (after ops {d['ops'][: k + 1]})")
            return


def case_entries(d, obs):
    """the same configuration fed through every documented entry point: each must satisfy the clauses and all must give
    the answer of the constructor form (differential)"""
    iscol = d["c"] == "columns"
    case = case_columns if iscol else case_pile
    base = {k: v for k, v in d.items() if k not in ("k", "c", "entries")}
    base["k"] = d["c"]
    ref = Obs()
    case(dict(base, entry="ctor"), ref)
    obs.c.update(ref.c)
    obs.fails.extend(ref.fails)
    ref_sigs = {sg for sg, _ in ref.fails}
    obs.c["entry.differential_cases"] += 1
    for entry in d.get("entries") or (COL_ENTRIES if iscol else PILE_ENTRIES)[1:]:
        o = Obs()
        case(dict(base, entry=entry), o)
        obs.c.update(o.c)
        obs.c[f"entry.{d['c']}.{entry}"] += 1
        for sg, msg in o.fails:
            if sg not in ref_sigs:
                obs.fail(f"{sg}|entry={entry}", msg)
        if o.last != ref.last and not (o.fails and not ref.fails):
            obs.fail(f"C19|{d['c'].capitalize()}|entry-point|result-differs-from-constructor-form|entry={entry}", f"{entry}: {o.last} constructor: {ref.last}")


CASES = {
    "padfixed": case_padfixed,
    "entries": case_entries,
    "live": case_live,
    "columns": case_columns,
    "pile": case_pile,
    "padding": case_padding,
    "filler": case_filler,
    "overlay": case_overlay,
    "gridflow": case_gridflow,
}


def evaluate(d):
    """run one descriptor on fresh objects; returns [(sig, msg)]"""
    o = Obs()
    try:
        CASES[d["k"]](d, o)
    except Exception as e:  # noqa: BLE001  (malformed shrink candidate)
        return [("harness", f"{type(e).__name__}: {e}")]
    return o.fails


# --------------------------------------------------------------------------- shrinking


def _cands(d):
    """simpler neighbours of a descriptor"""
    for key in ("cols", "items", "cells"):
        if key in d and len(d[key]) > 1:
            for i in range(len(d[key])):
                nd = dict(d)
                nd[key] = d[key][:i] + d[key][i + 1 :]
                f = d.get("focus", 0)
                if isinstance(f, int):
                    nd["focus"] = min(f - (1 if i < f else 0), len(nd[key]) - 1)
                    nd["focus"] = max(nd["focus"], 0)
                yield nd
    if d.get("k") == "entries":
        ents = d.get("entries") or (COL_ENTRIES if d["c"] == "columns" else PILE_ENTRIES)[1:]
        if len(ents) > 1:
            for e in ents:
                yield dict(d, entries=[e])
    if d.get("ops") and len(d["ops"]) > 1:
        for i in range(len(d["ops"]) - 1, -1, -1):
            nd = dict(d)
            nd["ops"] = d["ops"][:i] + d["ops"][i + 1 :]
            yield nd
    if "parts" in d and len(d["parts"]) > 1:
        for i in range(len(d["parts"])):
            nd = dict(d)
            nd["parts"] = d["parts"][:i] + d["parts"][i + 1 :]
            yield nd
    if d.get("history"):
        nd = dict(d)
        nd["history"] = d["history"][:-1]
        yield nd
        nd = dict(d)
        nd["history"] = d["history"][1:]
        yield nd
    for key, lo in (("maxcol", 1), ("maxrow", 1), ("div", 0), ("minw", 1), ("left", 0), ("right", 0), ("top", 0), ("bottom", 0), ("hsep", 0), ("vsep", 0), ("cw", 1), ("minh", 1), ("width", 1), ("height", 1), ("focus", 0)):
        v = d.get(key)
        if is_int(v) and v > lo:
            for nv in {lo, v // 2, v - 1}:
                if lo <= nv < v:
                    nd = dict(d)
                    nd[key] = nv
                    yield nd
    for key in ("cols", "items", "cells"):
        if key in d:
            for i, it in enumerate(d[key]):
                for j, v in enumerate(it):
                    if is_int(v) and v > 1:
                        for nv in {1, v - 1}:
                            nd = dict(d)
                            nl = [list(x) for x in d[key]]
                            nl[i][j] = nv
                            nd[key] = nl
                            yield nd
    if "child" in d:
        for j in range(1, min(4, len(d["child"]))):
            v = d["child"][j]
            if is_int(v) and v > 1:
                nd = dict(d)
                ch = list(d["child"])
                ch[j] = v - 1
                nd["child"] = ch
                yield nd
    for key in ("align", "valign"):
        if isinstance(d.get(key), (list, tuple)):
            for nv in ("left", "center") if key == "align" else ("top", "middle"):
                nd = dict(d)
                nd[key] = nv
                yield nd
    if d.get("mode") in ("box", "flow"):
        nd = dict(d)
        nd["mode"] = "widths" if d["k"] == "columns" else "rows"
        yield nd


def shrink(d, sig, limit=400):
    steps = 0
    improved = True
    while improved and steps < limit:
        improved = False
        for cand in _cands(d):
            steps += 1
            if steps >= limit:
                break
            if any(s == sig for s, _ in evaluate(cand)):
                d = cand
                improved = True
                break
    return d


_shrunk = Counter()


def report(ctx, d, fails, fresh_checked=False):
    """register failures of descriptor d (confirmed on fresh objects when they came from a reused object)"""
    seen = set()
    for sig, msg in fails:
        if sig in seen:
            continue
        seen.add(sig)
        wit = d
        if not fresh_checked:
            # came from a live, reused object: does it reproduce on a fresh one?
            plain = {k: v for k, v in d.items() if k != "history"}
            if any(s == sig for s, _ in evaluate(plain)):
                wit = plain
            elif any(s == sig for s, _ in evaluate(d)):
                sig = sig + "|only-after-earlier-calls-on-same-object"
            else:
                sig = sig + "|not-reproducible-on-fresh-object"
        if _shrunk[sig] < 3 and "not-reproducible" not in sig:
            _shrunk[sig] += 1
            base = sig.replace("|only-after-earlier-calls-on-same-object", "")
            wit = shrink(wit, base)
            for s2, m2 in evaluate(wit):
                if s2 == base:
                    msg = m2
                    break
        ctx.violation(sig, msg, wit)


def merge_counts(ctx, obs):
    for k, v in obs.c.items():
        ctx.count(k, v)
    obs.c.clear()


# --------------------------------------------------------------------------- workloads

ALIGNS = ["left", "center", "right"] + [["relative", p] for p in (0, 1, 33, 50, 67, 99, 100)]
VALIGNS = ["top", "middle", "bottom"] + [["relative", p] for p in (0, 1, 33, 50, 67, 99, 100)]
REL = [1, 33, 50, 67, 99, 100]


def columns_exhaustive(ctx, obs, frac):
    opts = [("given", g, "bl") for g in range(1, 7)] + [("pack", p, "x") for p in range(1, 7)] + [("weight", w, "bl") for w in range(1, 4)]
    state = {"tick": 0}

    def configs(n):
        idx = 0
        for combo in itertools.product(opts, repeat=n):
            has_w = any(k == "weight" for k, _, _ in combo)
            for div in (0, 1, 2):
                for minw in (1, 2, 3) if has_w else (1,):
                    idx += 1
                    if ctx.mine(idx + n):
                        yield combo, div, minw

    def one(combo, div, minw):
        n = len(combo)
        d = {"k": "columns", "cols": [list(c) for c in combo], "div": div, "minw": minw}
        C, spies = build_columns(d)
        hist = []
        nev = 0
        # one live object: at every width A walk the focus through all positions, ask for another width B, then walk the
        # focus back at A again (A / focus change / A and A / B / A, so that a width cache that survives a focus change or
        # is keyed too coarsely shows up); every clause is re-judged after every step
        for maxcol in range(1, 25):
            other = maxcol - 1 if maxcol > 1 else 2
            steps = [(f, maxcol) for f in range(n)] + [(n - 1, other)] + [(f, maxcol) for f in range(n - 1, -1, -1)]
            for focus, mc in steps:
                state["tick"] += 1
                nev += 1
                mode = "flow" if state["tick"] % 9 == 0 else "widths"
                eval_columns(obs, C, spies, d, focus, mc, mode, 2, False, "")
                if obs.fails:
                    report(ctx, dict(d, focus=focus, maxcol=mc, mode=mode, history=hist[-12:]), obs.take())
                hist.append([focus, mc])
            obs.c["col.live_focus_walks_at_same_width"] += 1
        for focus in range(n):
            ctx.case(hash(("col", combo, div, minw, focus)), n=nev // n if focus else nev - (nev // n) * (n - 1))

    complete = True
    done4 = 0
    for n in (1, 2, 3, 4):
        todo = configs(n)
        if n >= 3:
            # the 3- and 4-column spaces are walked in a shuffled order so that a run that does not finish it (quick tier, loaded
            # machine) still samples it uniformly
            todo = list(todo)
            ctx.subrng("col", n).shuffle(todo)
        for k, (combo, div, minw) in enumerate(todo):
            if not ctx.more(frac):
                complete = False
                break
            one(combo, div, minw)
            done4 += n == 4
            if k % 50 == 0:
                U().CanvasCache.clear()
        if not complete:
            break
    ctx.count("col.exhaustive_shards_complete", int(complete))
    ctx.count("col.exhaustive_4column_configs_done", done4)
    ctx.extra["columns_4column_configs_total"] = sum(3 * (3 if any(k == "weight" for k, _, _ in c) else 1) for c in itertools.product(opts, repeat=4))
    ctx.sample({"k": "columns", "cols": [["given", 3, "bl"], ["weight", 2, "bl"], ["pack", 4, "x"]], "div": 1, "minw": 2, "focus": 1, "maxcol": 9, "mode": "flow"})


def zero_sweep(ctx, obs):
    """zero weights / zero given sizes (outside the full statement): no exception but the documented one, no negative size"""
    copts = [["given", 0, "bl", False], ["given", 2, "bl", False], ["weight", 0, "bl", False], ["weight", 1, "bl", False], ["pack", 1, "blx", False]]
    popts = [["given", 0, "b"], ["given", 2, "b"], ["weight", 0, "b"], ["weight", 1, "b"], ["pack", 1, "l"]]
    idx = 0
    for n in (1, 2, 3):
        for combo in itertools.product(range(5), repeat=n):
            if not any(c in (0, 2) for c in combo):
                continue
            idx += 1
            if not ctx.mine(idx):
                continue
            for size in range(1, 9):
                for div in (0, 1):
                    d = {"k": "columns", "cols": [list(copts[c]) for c in combo], "div": div, "minw": 1 + (idx % 2), "focus": (idx + size) % n,
                         "maxcol": size, "mode": ("widths", "box", "flow")[(idx + size) % 3], "maxrow": 2}  # fmt: skip
                    run_desc(ctx, obs, d)
                d = {"k": "pile", "items": [list(popts[c]) for c in combo], "focus": (idx + size) % n, "maxcol": 2, "maxrow": size, "mode": ("rows", "render")[(idx + size) % 2]}
                run_desc(ctx, obs, d)


def entry_sweep(ctx, obs):
    """deterministic core, not time-limited: small configurations through every entry point"""
    copts = [["given", 2, "bl", False], ["given", 6, "bl", False], ["pack", 3, "blx", False], ["weight", 1, "bl", False], ["weight", 2, "bl", False]]
    popts = [["given", 2, "b"], ["given", 5, "b"], ["pack", 3, "l"], ["weight", 1, "b"], ["weight", 2, "b"]]
    idx = 0
    for n in (1, 2, 3):
        for combo in itertools.product(range(5), repeat=n):
            for size in (4, 9):
                idx += 1
                if not ctx.mine(idx):
                    continue
                d = {"k": "entries", "c": "columns", "cols": [list(copts[c]) for c in combo], "div": idx % 2, "minw": 1 + idx % 2,
                     "focus": idx % n, "maxcol": size, "mode": ("widths", "flow", "box")[idx % 3], "maxrow": 2}  # fmt: skip
                if idx % 4 == 0:
                    d["cols"][idx % n][3] = True
                run_desc(ctx, obs, d)
                d = {"k": "entries", "c": "pile", "items": [list(popts[c]) for c in combo], "focus": idx % n, "maxcol": 3, "maxrow": size + 2,
                     "mode": ("rows", "render")[idx % 2]}  # fmt: skip
                run_desc(ctx, obs, d)


def focus_dep_sweep(ctx, obs):
    """deterministic core, not time-limited: pack columns / pack items whose pack() / rows() answer depends on the focus
    argument (w0 unfocused, w1 focused), through the FIXED path (fixed-only, fixed+flow that fits) and the FLOW path
    (flow-only, fixed+flow wider than maxcol), every focus position x container focus flag"""
    idx = 0
    pairs = [(2, 4), (4, 2), (1, 3), (5, 9)]
    others = [["weight", 1, "bl", False], ["given", 3, "bl", False], ["weight", 2, "bl", False]]
    for (w0, w1), sizing, n, div in itertools.product(pairs, ("l", "x", "lx", "blx"), (2, 3), (0, 1)):
        for ppos in range(n):
            cols = [list(others[(k + ppos) % 3]) for k in range(n)]
            cols[ppos] = ["pack", w0, sizing, False, w1]
            if n == 3 and (ppos + w0) % 2:
                cols[(ppos + 1) % 3] = ["pack", w1, "l", False, w0]
            for maxcol, focus, fflag in itertools.product((4, 8, 13), range(n), (False, True)):
                idx += 1
                if not ctx.mine(idx):
                    continue
                mode = ("widths", "flow", "box")[idx % 3]
                if mode == "box" and any("b" not in c[2] for c in cols):
                    mode = "flow"
                d = {"k": "columns", "cols": cols, "div": div, "minw": 1, "focus": focus, "maxcol": maxcol, "mode": mode, "maxrow": 2, "f": fflag}
                run_desc(ctx, obs, d)
                obs.c["focusdep.columns_cases"] += 1
    for (h0, h1), n in itertools.product(pairs, (2, 3)):
        for ppos in range(n):
            items = [["weight", 1 + (k % 2), "b"] if k % 2 == 0 else ["given", 2, "b"] for k in range(n)]
            items[ppos] = ["pack", h0, "l", h1]
            if not any(it[0] == "weight" for it in items):
                items[(ppos + 1) % n] = ["weight", 1, "b"]
            for maxrow, focus, fflag in itertools.product((5, 9, 14), range(n), (False, True)):
                idx += 1
                if not ctx.mine(idx):
                    continue
                d = {"k": "pile", "items": items, "focus": focus, "maxcol": 3, "maxrow": maxrow, "mode": ("rows", "render")[idx % 2], "f": fflag}
                run_desc(ctx, obs, d)
                obs.c["focusdep.pile_cases"] += 1


def pile_wrap_sweep(ctx, obs):
    """deterministic core, not time-limited: box Pile with weighted items plus a PACK item that has to wrap at the Pile width,
    in every sizing set (FLOW-only, FIXED-only, FIXED+FLOW, BOX+FLOW+FIXED spies with pack(()) == (nat, 1) and
    rows((w,)) == ceil(nat / w), and a real urwid.Text of that natural width)"""
    idx = 0
    for sizing, nat, maxcol, maxrow, shape in itertools.product(("l", "x", "lx", "blx", "T"), (3, 9, 19), (1, 2, 4, 5, 7, 12, 20), (4, 10, 17), (0, 1)):
        idx += 1
        if not ctx.mine(idx):
            continue
        pk = ["pack", 1, sizing, None, nat]
        items = [pk, ["weight", 2, "b"], ["weight", 1, "b"]] if shape == 0 else [["given", 2, "b"], ["weight", 1, "b"], pk]
        mode = "rows" if sizing == "x" or idx % 2 else "render"
        d = {"k": "pile", "items": items, "focus": idx % 3, "maxcol": maxcol, "maxrow": maxrow, "mode": mode, "f": bool(idx % 4 == 0)}
        run_desc(ctx, obs, d)
        obs.c["pilewrap.directed_cases"] += 1
        obs.c[f"pilewrap.sizing_{sizing}"] += 1


def regression_core(ctx, obs):
    """one directed case for every case named by a `fixed: property=C19` line of KNOWN_FINDINGS.txt"""
    if not ctx.mine(0):
        return
    # 29070bd: Columns([('weight', 0, Text('a'))]).column_widths((5,)) raised ZeroDivisionError
    for n in (1, 2, 3):
        for maxcol in (1, 5, 12):
            for mode in ("widths", "flow", "box"):
                run_desc(ctx, obs, {"k": "columns", "cols": [["weight", 0, "bl", False]] * n, "div": 0, "minw": 1, "focus": 0, "maxcol": maxcol, "mode": mode, "maxrow": 2})
                obs.c["regress.29070bd_all_zero_weights"] += 1
    # 4cbc3a6: Overlay(Text('aaaa bbbb cccc dddd eeee ffff'), SolidFill('.'), 'center', 4, 'bottom', 'pack').render((12, 8)):
    # a flow top that is 1 row at the overlay width and 6 rows at its own width 4
    for al, va in itertools.product(("left", "center", "right"), VALIGNS):
        for (maxcol, maxrow), width in itertools.product(((12, 8), (12, 4), (30, 10)), (4, ["relative", 34])):
            run_desc(ctx, obs, overlay_desc(al, va, "g" if isinstance(width, int) else "r", width if isinstance(width, int) else width[1], "p", 1, None, None, 0, 0, 0, 0, maxcol, maxrow, 24))
            obs.c["regress.4cbc3a6_flow_top_wrapping_at_own_width"] += 1


def rand_columns(rng):
    n = rng.randint(1, 7)
    big = rng.random() < 0.3
    hi = 30 if big else 8
    mode = rng.choice(["widths", "box", "flow", "flow"])
    zero = rng.random() < 0.12
    cols = []
    for _ in range(n):
        r = rng.random()
        if r < 0.35:
            amount = rng.randint(0 if zero else 1, hi)
            if mode == "box":
                cols.append(["given", amount, rng.choice(["bl", "b", "blx"]), False])
            else:
                sz = rng.choice(["bl", "l", "b", "lx"])
                cols.append(["given", amount, sz, sz == "b" or rng.random() < 0.2 and "b" in sz])
        elif r < 0.6:
            amount = rng.randint(1, hi)
            if mode == "box":
                cols.append(["pack", amount, "blx", False])
            else:
                cols.append(["pack", amount, rng.choice(["x", "lx", "l", "blx"]), False])
                if rng.random() < 0.3:
                    cols[-1].append(rng.randint(1, hi))  # pack width when asked with focus=True
        else:
            w = rng.choice([1, 1, 2, 3, 5, 7, 10, 0.5, 1.5, 2.5, 0.1]) if not zero else rng.choice([0, 0, 1, 2])
            if mode == "box":
                cols.append(["weight", w, rng.choice(["bl", "b"]), False])
            else:
                sz = rng.choice(["bl", "l", "b", "l"])
                cols.append(["weight", w, sz, sz == "b"])
    return {
        "k": "columns",
        "cols": cols,
        "div": rng.choice([0, 1, 1, 2, 3, 4]),
        "minw": rng.choice([1, 1, 2, 3, 5]),
        "focus": rng.randrange(n),
        "maxcol": rng.randint(1, 80 if big else 30),
        "mode": mode,
        "maxrow": rng.randint(1, 3),
        "f": rng.random() < 0.5,
        "entry": rng.choice(COL_ENTRIES) if rng.random() < 0.35 else "ctor",
    }


def pile_exhaustive(ctx, obs, frac):
    opts = [("given", g, "b") for g in range(1, 7)] + [("pack", p, "l") for p in range(1, 7)] + [("weight", w, "b") for w in range(1, 4)]
    idx = 0
    tick = 0
    complete = True
    for n in range(1, 5):
        for combo in itertools.product(opts, repeat=n):
            idx += 1
            if not ctx.mine(idx):
                continue
            if n == 4 and ctx.quick and (idx // ctx.nshards) % 6:
                continue
            if not ctx.more(frac):
                complete = False
                break
            d = {"k": "pile", "items": [list(c) for c in combo], "maxcol": 3}
            P, spies = build_pile(d)
            focus = idx % n
            has_w = any(k == "weight" for k, _, _ in combo)
            nev = 0
            for maxrow in range(1, 25) if has_w else (1, 7, 24):
                # same live object: the focus moves at every step, every 6th height is revisited after another one (A / B / A)
                steps = [((focus + maxrow) % n, maxrow)]
                if has_w and maxrow % 6 == 0:
                    steps += [((focus + maxrow + 1) % n, maxrow), ((focus + maxrow + 1) % n, maxrow - 1), ((focus + maxrow) % n, maxrow)]
                    obs.c["pile.live_revisits_same_height"] += 1
                for f, mr in steps:
                    tick += 1
                    nev += 1
                    mode = "render" if tick % 5 == 0 else "rows"
                    eval_pile(obs, P, spies, d, f, mr, mode)
                    if obs.fails:
                        report(ctx, dict(d, focus=f, maxrow=mr, mode=mode), obs.take())
            ctx.case(hash(("pile", combo)), n=nev)
            if idx % 50 == 0:
                U().CanvasCache.clear()
        else:
            continue
        break
    ctx.count("pile.exhaustive_shards_complete", int(complete))
    ctx.sample({"k": "pile", "items": [["given", 2, "b"], ["weight", 1, "b"], ["pack", 3, "l"], ["weight", 2, "b"]], "focus": 1, "maxcol": 3, "maxrow": 11, "mode": "render"})


def rand_live(rng):
    """history on one live object: few distinct sizes (so that the same size recurs), many focus moves"""
    iscol = rng.random() < 0.7
    n = rng.randint(2, 5)

    def part():
        r = rng.random()
        if iscol:
            if r < 0.45:
                return ["given", rng.randint(1, 6), "bl", False]
            if r < 0.6:
                return ["pack", rng.randint(1, 6), "blx", False]
            return ["weight", rng.choice([1, 1, 2, 3]), "bl", False]
        if r < 0.35:
            return ["given", rng.randint(1, 6), "b"]
        if r < 0.55:
            return ["pack", rng.randint(1, 6), "l"]
        return ["weight", rng.choice([1, 1, 2, 3]), "b"]

    parts = [part() for _ in range(n)]
    if not iscol and not any(p[0] == "weight" for p in parts):
        parts[rng.randrange(n)] = ["weight", 1, "b"]
    sizes = [rng.randint(1, 16) for _ in range(rng.randint(1, 3))]
    ops = []
    for _ in range(rng.randint(4, 14)):
        r = rng.random()
        if r < 0.45:
            ops.append(["focus", rng.randrange(n)])
        elif r < 0.75:
            ops.append(["size", rng.choice(sizes)])
        elif r < 0.93 or not iscol:
            p = part()
            if not iscol and p[0] != "weight" and sum(q[0] == "weight" for q in parts) <= 1:
                p = ["weight", rng.choice([1, 2, 3]), "b"]
            ops.append(["set", rng.randrange(n), p, rng.choice(["ctor", "options", "tuple-str", "tuple-str", "tuple-enum"])])
        else:
            ops.append(["boxcols", sorted(rng.sample(range(n), rng.randint(0, n)))])
    d = {"k": "live", "c": "columns" if iscol else "pile", "parts": parts, "maxcol": 3, "size": sizes[0], "ops": ops,
         "modes": rng.choice([["widths"], ["widths", "flow"], ["widths", "box", "widths"], ["box"], ["flow"]]) if iscol else rng.choice([["widths"], ["widths", "box"]])}  # fmt: skip
    if iscol:
        d.update(div=rng.choice([0, 1, 2]), minw=rng.choice([1, 1, 2, 3]), f=rng.random() < 0.5)
    return d


def rand_pile(rng):
    n = rng.randint(1, 7)
    zero = rng.random() < 0.12
    hi = rng.choice([6, 6, 20])
    items = []
    for _ in range(n):
        r = rng.random()
        if r < 0.3:
            items.append(["given", rng.randint(0 if zero else 1, hi), rng.choice(["b", "bl"])])
        elif r < 0.55:
            items.append(["pack", rng.randint(1, hi), rng.choice(["l", "lx", "bl"])])
            if rng.random() < 0.3:
                items[-1].append(rng.randint(1, hi))  # rows when asked with focus=True
            elif rng.random() < 0.4:
                # wrapping item of natural width nat in any sizing set (real Text included)
                items[-1] = ["pack", 1, rng.choice(["l", "lx", "blx", "T", "T"]), None, rng.randint(1, 40)]
        else:
            w = rng.choice([1, 1, 2, 3, 5, 7, 0.5, 1.5, 0.1]) if not zero else rng.choice([0, 0, 1, 2])
            items.append(["weight", w, "b"])
    return {"k": "pile", "items": items, "focus": rng.randrange(n), "maxcol": rng.randint(1, 9), "maxrow": rng.randint(1, 60), "mode": rng.choice(["rows", "render"]),
            "entry": rng.choice(PILE_ENTRIES) if rng.random() < 0.35 else "ctor", "f": rng.random() < 0.5}  # fmt: skip


def padding_space():
    widths = [("g", w) for w in range(1, 9)] + [("r", p) for p in REL] + [("p", w) for w in range(1, 9)] + [("c", w) for w in (1, 2, 3, 5, 8, 13)]
    for al in ALIGNS:
        for wk, wv in widths:
            for minw in (None, 1, 3, 5) if wk in ("r", "p") else (None,):
                for left in range(4):
                    for right in range(4):
                        yield al, wk, wv, minw, left, right


def padding_desc(al, wk, wv, minw, left, right, maxcol, maxrow=None):
    if wk == "g":
        width, child = wv, ["l" if maxrow is None else "b", 1, 1, 0]
    elif wk == "r":
        width, child = ["relative", wv], ["l" if maxrow is None else "b", 1, 1, 0]
    elif wk == "p":
        width, child = "pack", ["l", wv, 1, 0]
    else:
        width, child = "clip", ["x", wv, 2, 0]
    return {"k": "padding", "align": al, "width": width, "minw": minw, "left": left, "right": right, "maxcol": maxcol, "maxrow": maxrow, "child": child}


def run_desc(ctx, obs, d):
    CASES[d["k"]](d, obs)
    if len(ctx.distinct) < DISTINCT_CAP:
        ctx.case(d)
    else:  # keep shard result files and the parent's merge small: counted as evaluated, not de-duplicated
        ctx.case(None)
        obs.c["cases_beyond_distinct_cap_not_deduplicated"] += 1
    if obs.fails:
        report(ctx, d, obs.take(), fresh_checked=True)


def padding_exhaustive(ctx, obs, frac):
    idx = 0
    complete = True
    for combo in padding_space():
        idx += 1
        if not ctx.mine(idx):
            continue
        if ctx.quick and (idx // ctx.nshards) % 4:
            continue
        if not ctx.more(frac):
            complete = False
            break
        for maxcol in range(1, 25):
            run_desc(ctx, obs, padding_desc(*combo, maxcol, None))
    ctx.count("pad.sweep_shards_complete", int(complete))
    ctx.sample(padding_desc(["relative", 33], "g", 5, None, 2, 1, 17))


def rand_axis(rng, aligns):
    al = rng.choice(aligns) if rng.random() < 0.5 else ["relative", rng.randint(0, 100)]
    return al


def rand_padding(rng):
    r = rng.random()
    maxcol = rng.randint(1, 60)
    maxrow = None
    if r < 0.3:
        wk, wv = "g", rng.randint(1, 40)
    elif r < 0.6:
        wk, wv = "r", rng.choice([1, 10, 25, 33, 50, 67, 75, 90, 99, 100, 120, 150])
    elif r < 0.85:
        wk, wv = "p", rng.randint(1, 40)
    else:
        wk, wv = "c", rng.randint(1, 70)
    if wk in ("g", "r") and rng.random() < 0.4:
        maxrow = rng.randint(1, 5)
    d = padding_desc(rand_axis(rng, ALIGNS), wk, wv, rng.choice([None, None, 1, 4, 9, 20]), rng.randint(0, 8), rng.randint(0, 8), maxcol, maxrow)
    if wk == "p" and rng.random() < 0.3:
        d["child"][0] = "lx"
    return d


def filler_space():
    heights = [("g", h) for h in range(1, 9)] + [("r", p) for p in REL] + [("p", h) for h in range(1, 9)]
    for va in VALIGNS:
        for hk, hv in heights:
            for minh in (None, 1, 3, 5) if hk == "r" else (None,):
                for top in range(4):
                    for bottom in range(4):
                        yield va, hk, hv, minh, top, bottom


def filler_desc(va, hk, hv, minh, top, bottom, maxrow, maxcol=3):
    if hk == "g":
        height, child = hv, ["b", 1, 1, 0]
    elif hk == "r":
        height, child = ["relative", hv], ["b", 1, 1, 0]
    else:
        height, child = "pack", ["l", 1, hv, 0]
    return {"k": "filler", "valign": va, "height": height, "minh": minh, "top": top, "bottom": bottom, "maxcol": maxcol, "maxrow": maxrow, "child": child}


def filler_exhaustive(ctx, obs, frac):
    idx = 0
    complete = True
    for combo in filler_space():
        idx += 1
        if not ctx.mine(idx):
            continue
        if ctx.quick and (idx // ctx.nshards) % 4:
            continue
        if not ctx.more(frac):
            complete = False
            break
        for maxrow in range(1, 25):
            run_desc(ctx, obs, filler_desc(*combo, maxrow))
    ctx.count("fill.sweep_shards_complete", int(complete))
    ctx.sample(filler_desc("middle", "r", 67, 3, 1, 2, 13))


def rand_filler(rng):
    r = rng.random()
    if r < 0.35:
        hk, hv = "g", rng.randint(1, 40)
    elif r < 0.7:
        hk, hv = "r", rng.choice([1, 10, 25, 33, 50, 67, 75, 90, 99, 100, 120, 150])
    else:
        hk, hv = "p", rng.randint(1, 40)
    d = filler_desc(rand_axis(rng, VALIGNS), hk, hv, rng.choice([None, None, 1, 4, 9, 20]), rng.randint(0, 8), rng.randint(0, 8), rng.randint(1, 60), rng.randint(1, 7))
    if hk == "p" and rng.random() < 0.4:
        d["child"] = ["l", 1, 1, rng.randint(1, 40)]
    return d


def overlay_desc(al, va, wk, wv, hk, hv, minw, minh, left, right, top, bottom, maxcol, maxrow, area=0):
    if wk == "p":
        width, height, child = "pack", "pack", ["x", wv, hv, 0]
    elif hk == "p":
        width = wv if wk == "g" else ["relative", wv]
        height, child = "pack", ["l", 1, hv, area]
    else:
        width = wv if wk == "g" else ["relative", wv]
        height = hv if hk == "g" else ["relative", hv]
        child = ["b", 1, 1, 0]
    return {
        "k": "overlay", "align": al, "valign": va, "width": width, "height": height, "minw": minw, "minh": minh,
        "left": left, "right": right, "top": top, "bottom": bottom, "maxcol": maxcol, "maxrow": maxrow, "child": child,
    }  # fmt: skip


def overlay_exhaustive(ctx, obs, frac):
    """structured sweep: every align x valign kind, every width/height kind pair, margins 0..3 on one side each, sizes 1..24 (strided)"""
    idx = 0
    complete = True
    kinds = [("g", 1), ("g", 4), ("g", 9), ("r", 33), ("r", 67), ("r", 100), ("p", 2), ("p", 7)]
    for al, va in itertools.product(ALIGNS, VALIGNS):
        for (wk, wv), (hk, hv) in itertools.product(kinds, kinds):
            if wk == "p" and hk != "p":
                continue
            idx += 1
            if not ctx.mine(idx):
                continue
            if ctx.quick and (idx // ctx.nshards) % 3:
                continue
            if not ctx.more(frac):
                complete = False
                break
            rng = ctx.subrng("ovl", idx)
            for maxcol, maxrow in ((rng.randint(1, 24), rng.randint(1, 24)) for _ in range(ctx.pick(10, 40))):
                left, right, top, bottom = (rng.randint(0, 3) for _ in range(4))
                minw = rng.choice([None, 1, 3, 5]) if wk == "r" else None
                minh = rng.choice([None, 1, 3, 5]) if hk == "r" else None
                area = rng.choice([0, 0, 6, 12, 24]) if hk == "p" and wk != "p" else 0
                run_desc(ctx, obs, overlay_desc(al, va, wk, wv, hk, hv, minw, minh, left, right, top, bottom, maxcol, maxrow, area))
        else:
            continue
        break
    ctx.count("ovl.sweep_shards_complete", int(complete))
    ctx.sample(overlay_desc("center", "middle", "g", 4, "p", 2, None, None, 1, 0, 0, 1, 12, 8, 12))


def overlay_directed_fixed(ctx, obs):
    """deterministic core, not time-limited: fixed (width='pack') top widgets around the size of the overlay -- narrower, equal,
    wider on each axis independently, both axes overflowing at once included -- every align x valign kind, margins"""
    idx = 0
    for (cols, rows), dw, dh in itertools.product(((4, 3), (7, 5)), (-1, 0, 1, 5), (-1, 0, 1, 4)):
        for al, va in itertools.product(ALIGNS, VALIGNS):
            idx += 1
            if not ctx.mine(idx):
                continue
            m = [(0, 0, 0, 0), (1, 0, 0, 1), (0, 2, 1, 0), (1, 1, 1, 1)][idx % 4]
            d = overlay_desc(al, va, "p", cols + dw, "p", rows + dh, (None, 2)[idx % 2], (None, 2)[(idx // 2) % 2], m[0], m[1], m[2], m[3], cols, rows)
            run_desc(ctx, obs, d)
            obs.c["ovl.directed_fixed_top_cases"] += 1
            if dw > 0 and dh > 0:
                obs.c["ovl.directed_fixed_top_overflowing_both_axes"] += 1


def padding_fixed_directed(ctx, obs):
    """deterministic core, not time-limited: Padding rendered FIXED for width in {pack, clip, given n, relative p} x min_width in
    {None, < child, == child, > child} x margins x align, fixed children (spy, real BigText)"""
    idx = 0
    margins = [(0, 0), (1, 0), (0, 2), (2, 1)]
    for (kind, pw), width, al, (fl, fr) in itertools.product(
        (("x", 1), ("x", 4), ("big", 1), ("big", 2)), ("pack", "clip", 2, 6, ["relative", 30], ["relative", 50], ["relative", 100]), ALIGNS, margins
    ):
        cw = pw if kind == "x" else 3 * pw  # Thin3x3 glyphs are 3 columns wide (only used to pick min_width around the child)
        base = width if isinstance(width, int) else cw
        for minw in (None, max(base - 1, 1), base, base + 3):
            idx += 1
            if not ctx.mine(idx):
                continue
            if isinstance(width, int) and kind == "big":
                continue  # a given width needs a flow child
            d = {"k": "padfixed", "align": al, "width": width, "minw": minw, "left": fl, "right": fr, "child": [kind, pw, 2 if kind == "x" else 3]}
            run_desc(ctx, obs, d)
            obs.c["padfixed.directed_cases"] += 1


def rand_padfixed(rng):
    kind = rng.choice(["x", "x", "big"])
    width = rng.choice(["pack", "pack", "clip", rng.randint(1, 12), ["relative", rng.choice([10, 30, 50, 75, 100, 100, 150])]])
    if isinstance(width, int):
        kind = "x"
    return {"k": "padfixed", "align": rand_axis(rng, ALIGNS), "width": width, "minw": rng.choice([None, 1, 2, 4, 7, 12]), "left": rng.randint(0, 5),
            "right": rng.randint(0, 5), "child": [kind, rng.randint(1, 9) if kind == "x" else rng.randint(1, 3), rng.randint(1, 3)]}  # fmt: skip


def rand_overlay(rng):
    def k(allow_pack):
        r = rng.random()
        if r < 0.4:
            return "g", rng.randint(1, 30)
        if r < 0.75 or not allow_pack:
            return "r", rng.choice([1, 10, 33, 50, 67, 90, 100, 130])
        return "p", rng.randint(1, 30)

    wk, wv = k(True)
    hk, hv = k(True)
    if wk == "p":
        hk, hv = "p", rng.randint(1, 30)
    area = rng.choice([0, rng.randint(1, 60)]) if hk == "p" and wk != "p" else 0
    return overlay_desc(
        rand_axis(rng, ALIGNS), rand_axis(rng, VALIGNS), wk, wv, hk, hv,
        rng.choice([None, None, 1, 4, 9]), rng.choice([None, None, 1, 4, 9]),
        rng.randint(0, 6), rng.randint(0, 6), rng.randint(0, 6), rng.randint(0, 6), rng.randint(1, 50), rng.randint(1, 40), area,
    )  # fmt: skip


def gridflow_directed(ctx, obs):
    """deterministic core, not time-limited: every available width from 1 to two past the one-line width for every small
    (cells, cell width, h_sep), so that every wrap window -- room for the next cell but not for separator + cell -- is
    visited in every run"""
    idx = 0
    for n, cw, hs in itertools.product(range(1, 6), range(1, 6), range(3)):
        for maxcol in range(1, n * cw + (n - 1) * hs + 3):
            idx += 1
            if not ctx.mine(idx):
                continue
            vs = idx % 2
            al = ALIGNS[idx % len(ALIGNS)]
            d = {"k": "gridflow", "cells": [[1, False]] * n, "cw": cw, "hsep": hs, "vsep": vs, "align": al, "focus": idx % n, "maxcol": maxcol}
            before = obs.c["grid.evals"]
            run_desc(ctx, obs, d)
            if obs.c["grid.evals"] > before:
                obs.c["grid.directed_core_cases"] += 1
                if hs and any((k + 1) * cw + (k - 1) * hs <= maxcol < (k + 1) * cw + k * hs for k in range(1, n)):
                    obs.c["grid.directed_wrap_window_cases"] += 1


def gridflow_directed_nonuniform(ctx, obs):
    """deterministic core, not time-limited: one or two cells reconfigured to their own width, every available width from the
    widest cell to two past the one-line width"""
    idx = 0
    for n, cw, hs in itertools.product((2, 3, 4), (2, 3, 4), range(3)):
        for pos, ow in itertools.product(range(n), (1, 3, 6)):
            if ow == cw:
                continue
            cells = [[1, False, None] for _ in range(n)]
            cells[pos][2] = ow
            if (pos + ow) % 3 == 0 and n > 2:
                cells[(pos + 1) % n][2] = max(1, ow - 1)
            wid = [c[2] or cw for c in cells]
            for maxcol in range(max(wid + [cw]), sum(wid) + (n - 1) * hs + 3):
                idx += 1
                if not ctx.mine(idx):
                    continue
                d = {"k": "gridflow", "cells": cells, "cw": cw, "hsep": hs, "vsep": idx % 2, "align": ALIGNS[idx % len(ALIGNS)], "focus": idx % n, "maxcol": maxcol}
                before = obs.c["grid.per_cell_width_cases_judged"]
                run_desc(ctx, obs, d)
                if obs.c["grid.per_cell_width_cases_judged"] > before:
                    obs.c["grid.directed_per_cell_width_cases"] += 1


def gridflow_directed_live(ctx, obs):
    """deterministic core, not time-limited: a cell is given its own width, (optionally the grid is rendered,) then cell_width is
    assigned -- the value it already has, or another one; by the documented rule every cell then has the assigned width"""
    idx = 0
    for n, cw, hs in itertools.product((2, 3), (2, 3, 4), (0, 1)):
        for pos, ow, newcw, warm in itertools.product(range(n), (1, 5), (cw, cw + 1), (False, True)):
            ops = [["setw", pos, ow]] + ([["render"]] if warm else []) + [["cw", newcw]]
            if (pos + ow + newcw) % 3 == 0:
                ops.append(["setw", (pos + 1) % n, 2])
            for maxcol in range(max(newcw, ow, cw), n * max(newcw, ow) + (n - 1) * hs + 2):
                idx += 1
                if not ctx.mine(idx):
                    continue
                d = {"k": "gridflow", "cells": [[1, False]] * n, "cw": cw, "hsep": hs, "vsep": idx % 2, "align": ALIGNS[idx % len(ALIGNS)],
                     "focus": idx % n, "maxcol": maxcol, "ops": ops}  # fmt: skip
                before = obs.c["grid.live_histories_judged"]
                run_desc(ctx, obs, d)
                if obs.c["grid.live_histories_judged"] > before:
                    obs.c["grid.directed_live_cases"] += 1


def gridflow_exhaustive(ctx, obs, frac):
    idx = 0
    complete = True
    for n, cw, hs, vs in itertools.product(range(1, 9), range(1, 7), range(3), range(3)):
        idx += 1
        if not ctx.mine(idx):
            continue
        if ctx.quick and (idx // ctx.nshards) % 3:
            continue
        if not ctx.more(frac):
            complete = False
            break
        rng = ctx.subrng("grid", idx)
        for maxcol in [None, *range(cw, 25, 1 if not ctx.quick else 2)]:
            al = rng.choice(ALIGNS)
            cells = [[rng.choice([1, 1, 2, 3]), rng.random() < 0.3] for _ in range(n)]
            run_desc(ctx, obs, {"k": "gridflow", "cells": cells, "cw": cw, "hsep": hs, "vsep": vs, "align": al, "focus": rng.randrange(n), "maxcol": maxcol, "f": rng.random() < 0.5})
    ctx.count("grid.sweep_shards_complete", int(complete))
    ctx.sample({"k": "gridflow", "cells": [[1, False], [2, True], [1, False], [1, False], [3, False]], "cw": 4, "hsep": 1, "vsep": 1, "align": "center", "focus": 1, "maxcol": 11})


def rand_gridflow(rng):
    n = rng.randint(1, 20)
    cw = rng.randint(1, 12)
    d = {
        "k": "gridflow",
        "cells": [[rng.choice([1, 1, 2, 3, 5]), rng.random() < 0.3] for _ in range(n)],
        "cw": cw,
        "hsep": rng.randint(0, 4),
        "vsep": rng.randint(0, 3),
        "align": rand_axis(rng, ALIGNS),
        "focus": rng.randrange(n),
        "maxcol": rng.choice([None, rng.randint(max(cw - 1, 1), 70)]),
        "f": rng.random() < 0.5,
    }
    if d["maxcol"] is not None and rng.random() < 0.5:
        for c in d["cells"]:
            if rng.random() < 0.4:
                c.append(rng.randint(1, max(1, min(14, d["maxcol"]))))
    if d["maxcol"] is not None and rng.random() < 0.4:
        ops = []
        cur = cw
        for _ in range(rng.randint(1, 5)):
            r = rng.random()
            if r < 0.35:
                ops.append(["setw", rng.randrange(n), rng.randint(1, max(1, min(14, d["maxcol"])))])
            elif r < 0.65:
                cur = cur if rng.random() < 0.5 else rng.randint(1, max(1, min(12, d["maxcol"])))
                ops.append(["cw", cur])
            elif r < 0.85:
                ops.append(["render"])
            else:
                ops.append(["focus", rng.randrange(n)])
        d["ops"] = ops
    return d


def random_until(ctx, obs, gen, frac, counter, at_least=0):
    rng = ctx.rng
    k = 0
    while ctx.more(frac) or k < at_least:
        for _ in range(50):
            d = gen(rng)
            run_desc(ctx, obs, d)
            k += 1
        if k % 1000 == 0:
            U().CanvasCache.clear()
    ctx.count(counter, k)


def run(ctx):
    urwid = U()
    from urwid import util
    from urwid.widget import columns, constants, filler, grid_flow, overlay, padding, pile

    reach.watch(
        columns.Columns.column_widths, columns.Columns.get_column_sizes, pile.Pile.get_item_rows, pile.Pile.get_rows_sizes,
        padding.calculate_left_right_padding, padding.Padding.padding_values, filler.calculate_top_bottom_filler,
        filler.Filler.filler_values, overlay.Overlay.calculate_padding_filler, overlay.Overlay.top_w_size,
        grid_flow.GridFlow.generate_display_widget, util.int_scale,
        constants.normalize_align, constants.normalize_width, constants.normalize_valign, constants.normalize_height,
    )  # fmt: skip
    obs = Obs()
    gridflow_directed(ctx, obs)
    gridflow_directed_nonuniform(ctx, obs)
    gridflow_directed_live(ctx, obs)
    overlay_directed_fixed(ctx, obs)
    padding_fixed_directed(ctx, obs)
    entry_sweep(ctx, obs)
    focus_dep_sweep(ctx, obs)
    pile_wrap_sweep(ctx, obs)
    regression_core(ctx, obs)
    ctx.extra["directed_cores_seconds_shard0"] = round(ctx.elapsed(), 2)
    ctx.count("directed_cores_centiseconds_all_shards", int(ctx.elapsed() * 100))
    # the deterministic cores are not time-limited; the time budget (and its fractions below) starts after them, so that a
    # loaded machine cannot starve the timed sections
    import time

    ctx.t0 = time.monotonic()
    # budget fractions (cumulative): each part = enumerated core, then random cases until its slice ends
    columns_exhaustive(ctx, obs, 0.40)
    zero_sweep(ctx, obs)
    random_until(ctx, obs, rand_live, 0.44, "live.random_histories", at_least=50)
    random_until(ctx, obs, rand_columns, 0.47, "col.random_cases")
    merge_counts(ctx, obs)
    pile_exhaustive(ctx, obs, 0.54)
    random_until(ctx, obs, rand_pile, 0.58, "pile.random_cases")
    merge_counts(ctx, obs)
    padding_exhaustive(ctx, obs, 0.66)
    random_until(ctx, obs, rand_padding, 0.68, "pad.random_cases")
    random_until(ctx, obs, rand_padfixed, 0.69, "padfixed.random_cases", at_least=30)
    filler_exhaustive(ctx, obs, 0.74)
    random_until(ctx, obs, rand_filler, 0.77, "fill.random_cases")
    merge_counts(ctx, obs)
    overlay_exhaustive(ctx, obs, 0.88)
    random_until(ctx, obs, rand_overlay, 0.92, "ovl.random_cases")
    gridflow_exhaustive(ctx, obs, 0.97)
    random_until(ctx, obs, rand_gridflow, 1.0, "grid.random_cases")
    merge_counts(ctx, obs)
    urwid.CanvasCache.clear()
    reach.flush(ctx)


def replay(ctx, wit):
    U()
    obs = Obs()
    CASES[wit["k"]](wit, obs)
    ctx.case(wit)
    for sig, msg in obs.take():
        ctx.violation(sig, msg, wit)
    merge_counts(ctx, obs)
