"""C01 -- every widget renders a canvas of exactly the size its container asked for.

Workload: seeded widget-tree recipes (vmon.gen.trees: typed grammar over every bundled class, only
documented-valid child/option combinations) x {utf8, wide, narrow} x every sizing mode root.sizing()
reports x sizes (box {1,2,3,5,8,13,40}^2, flow 1..13 and 40, fixed ()) x focus in {False, True}.
Monitor M1 (vmon.monitors.render_contract) replaces urwid.widget.widget.validate_size and therefore
judges the canvas of EVERY widget of the tree at the size it was actually handed; the root driver
evaluates rows()/pack() first (cache cleared), then render().
Oracle = the statement.  Validity filter = urwid's own WidgetWarning diagnostics.
"""

from __future__ import annotations

import json
import random
import os
import re
import traceback
import warnings
from collections import Counter

from vmon import reach
from vmon.core import h64
from vmon.gen import trees as T
from vmon.monitors import render_contract as RC

PROPERTY = "C01"
LEVEL = "exploration"
SHARDS = {"quick": 8, "thorough": 16}
BUDGET = {"quick": 24.0, "thorough": 400.0}
RULE = (
    "widget-tree recipes from the typed grammar in vmon/gen/trees.py (33 bundled classes: 15 leaves, 12 decorations, 6 containers; "
    "documented-valid option combinations only) in three phases: (1) every leaf class alone x 3 encodings x 2 (quick) / 6 (thorough) "
    "seeded variants; (2) every decoration / container class as the root x 3 encodings x 3 / 12 variants of depth 1-2; (3) seeded random "
    "trees of depth 1..3 (quick, <=110 per shard) / 1..5 (thorough, <=500 per shard).  Encodings utf8 / wide(euc-jp) / narrow(ascii), "
    "str and bytes texts (ASCII, Latin-1, double-width CJK, zero-width combining, emoji, DEC line drawing).  Every tree is driven in every "
    "sizing mode root.sizing() reports x sizes box {1,2,3,5,8,13,40}^2 (all 49 in thorough and in phase 1; 1x1 plus 9 seeded others in "
    "quick), flow cols 1..13 and 40, fixed () x focus False/True.  One case = (encoding, tree, size, focus); distinct = distinct "
    "descriptors; non-trivial = not rejected by the validity filter (urwid emitted no WidgetWarning).  Every evaluation builds a fresh "
    "tree from the recipe and clears CanvasCache, so a verdict never depends on earlier renders.  Monitor M1 additionally judges the "
    "canvas of every inner widget at the size it was handed (m1_judged).  The op-count bounds are reached before the time budget on an "
    "unloaded machine, so a run explores the same cases every time; under load it explores a prefix of them.  After the random phase, "
    "directed enumerations: control-character texts, and (phase 4) 9 FIXED cursor widgets (SelectableIcon at 6 cursor positions, Button, "
    "CheckBox, RadioButton) clipped by Padding(width='clip', 5 alignments, with/without left/right) at 11 widths from 1 to 40 and by "
    "Overlay(width='pack', 5 alignments) at 12 box sizes, rendered with focus, judged by the ordinary clauses plus the cursor-cell clause; "
    "(phase 5) ScrollBar (left/right, 1-2 columns) around a Scrollable scrolled to 16 (quick) / 42 (thorough) positions from 0 to beyond the "
    "end over texts of equal words, at 10 box sizes around the word length (the text wraps differently at maxcol and maxcol - bar width); "
    "(phase 6) LineBox around FIXED-only / BOX+FIXED / FLOW+FIXED widgets; (phase 7) fill strings of 1-2 (quick) / 1-3 (thorough) units "
    "from ASCII, narrow multi-byte or DEC line drawing, precomposed and combining accents, a double-width character (never first), per "
    "encoding, in SolidFill, Divider, LineBox line characters and ScrollBar thumb / trough; (phase 8) Pile and Columns with weight 0, "
    "weights 1000 and 0.5 and given 0 in flow / box / fixed flavours, alone and under ListBox / Filler / LineBox / Columns parents; "
    "(phase 9) ProgressBar with / without satt x 8 fractions (0, 1/16, 1/8, 3/8, 0.77, 1, < 0, > done) x done 100 / 7 / 1 at widths 1..12 in "
    "utf8, euc-jp, ascii and iso8859-1; (phase 10) ~450 recipes covering every case named by the `fixed: property=C01` lines of KNOWN_FINDINGS.txt; "
    "(phase 11) 36 flow Columns with a box_columns member (SolidFill / ListBox, given / weight, first / middle / last) beside shown flow "
    "columns that report 0 rows (empty Pile, Pile nesting one) at 4 widths x focus: rows() against the rendered rows, under its own signature."
)
ASSUMES = [
    "directed phase 4 only (a FIXED widget with a cursor clipped by Padding(width='clip') / Overlay(width='pack')): the character under the widget's own cursor is unique in its text, so when that character is visible in the clipping parent's canvas the canvas cursor, if present, must be on that cell; 'cursor outside although its cell is visible' is the C01 cursor clause for the visible part (kept apart from the known 'cursor left outside after its cell was clipped away' lines), 'cursor on another cell' goes one step beyond the statement and is reported under its own signature",
    "sizing() is taken at its word: only sizing modes the root reports are driven, and an inner widget is judged only when the mode of the size it was handed is one it reports",
    "a tree or (tree, size) for which urwid itself emits a WidgetWarning subclass (PileWarning, ColumnsWarning, PaddingWarning, GridFlowWarning, OverlayWarning) is outside the input domain and is counted skipped_invalid, not judged",
    "sizes handed to inner widgets with a component < 1 are outside the statement's 'all sizes >= 1' and are not judged for that inner widget; a failure they cause is attributed to the nearest enclosing widget that was handed a valid size",
    "screen-column width of a content row is computed by vmon.models.grid (wcwidth tables for utf8; bytes for euc-jp / ascii), independent of urwid.str_util",
    "for inner widgets rows()/pack() are evaluated by the monitor right after render (before the canvas is cached); for the root they are evaluated before render with the cache cleared",
    "a failure inside a widget that a bundled class builds internally (Button's Columns, LineBox's Pile, GridFlow's Pile ...) is attributed to that bundled class (taken from the structure of the tree)",
    "signature = C01|blamed class|failure kind + raise site, or violated clause -- or C01|blamed class|tiny-size|failure family when the blamed widget was handed a size with a dimension <= 3 (the size class of the size the blamed widget was handed -- fixed / tiny: a dimension <= 3 / ordinary -- is reported in the message only); an exception raised by a widget that had itself been handed a size outside the domain is grouped as the blamed parent's 'hands-child:size<1' or 'hands-child:mode-not-reported', whatever the child raised",
    "every evaluation uses a freshly built tree and a cleared CanvasCache: state left behind by earlier renders is the business of C06/C07/C20, not of this check",
    "weights are positive; given sizes are >= 1; empty Pile / Columns / GridFlow / ListBox are included (documented special case)",
]
REQUIRE = {
    "trees_judged": 150,
    "cases_judged": 3000,
    "m1_judged": 20000,
    "clause_box_cols_rows": 3000,
    "clause_flow_rows_eq_rows()": 5000,
    "clause_fixed_size_eq_pack()": 300,
    "clause_row_width": 50000,
    "clause_content_rows": 20000,
    "clause_cursor_inside": 300,
    "clause_clip_cursor_cell_visible": 300,
    "directed_scrolled_bar_trees": 100,
    "directed_fill_string_trees": 100,
    "directed_odd_option_trees": 40,
    "directed_progress_bar_trees": 150,
    "directed_regression_trees": 200,
    "clause_box_column_rows": 60,
    "skipped_invalid": 1,
    "directed_control_text_trees": 50,
    "mode:utf8": 100,
    "mode:wide": 100,
    "mode:narrow": 100,
    **{f"cls:{c}": 8 for c in T.ALL_CLASSES},
}

S7 = (1, 2, 3, 5, 8, 13, 40)
SIZES = {
    "box": [(c, r) for c in S7 for r in S7],
    "flow": [(c,) for c in (*range(1, 14), 40)],
    "fixed": [()],
}
FOCI = (False, True)


# ---------------------------------------------------------------- one evaluation


class Finding:
    def __init__(self, path, cls, inner, smode, kind, size, focus, msg, detail=""):
        self.detail = detail  # raise site + normalised message: part of the shrink key (no slippage), not of the signature
        self.path = tuple(path)
        self.cls = cls
        self.inner = inner
        self.smode = smode
        self.kind = kind
        self.size = tuple(size)
        self.focus = bool(focus)
        self.msg = msg

    @property
    def key(self):
        return (self.cls, self.kind.split('@')[0] if '/' in self.kind else self.kind, self.detail, self.bucket)

    @property
    def bucket(self):
        """size class of the size the blamed widget was handed: fixed = (), tiny = a dimension <= 3, ordinary = all > 3"""
        if not self.size:
            return "fixed"
        return "tiny" if min(self.size) <= 3 else "ordinary"

    def __repr__(self):
        return f"<Finding {self.key} path={self.path} size={self.size} focus={self.focus}>"


# encodings by mode name: the generator's three plus an 8-bit non-ASCII one used by directed phases only ("narrow" is
# ascii); GRID_MODE maps a mode name to the width model of vmon.models.grid
ENC = dict(T.ENCODINGS, latin1="iso8859-1")
GRID_MODE = {"latin1": "narrow"}


class Env:
    """installed monitor + counters shared by run()/replay()"""

    def __init__(self, ctx):
        self.ctx = ctx
        self.m1 = RC.M1()
        self.mode = "utf8"
        self.gmode = "utf8"
        self.probes = 0

    def set_mode(self, mode):
        import urwid

        urwid.util.set_encoding(ENC[mode])
        MODE_NOW[0] = mode
        self.mode = mode
        self.gmode = GRID_MODE.get(mode, mode)
        self.m1.mode = self.gmode


# Directed phase 6 only: warning classes that cannot describe the generated tree because the recipe contains no widget of
# that class -- they come from containers a bundled class builds internally (LineBox's Columns / Pile) and say nothing
# about the validity of the user's tree.  Empty everywhere else: the random phases keep the plain filter.
INTERNAL_WARNINGS: set = set()


def _widget_warning(ws):
    from urwid.widget.widget import WidgetWarning

    return [
        x for x in ws
        if isinstance(x.category, type) and issubclass(x.category, WidgetWarning) and x.category.__name__ not in INTERNAL_WARNINGS
    ]  # fmt: skip


def build_tree(env, recipe):
    """-> (widget, registry, sizing set) or None when the validity filter rejects the tree"""
    reg = {}
    with warnings.catch_warnings(record=True) as ws:
        warnings.simplefilter("always")
        w = T.build(recipe, reg)
        sz = {str(getattr(s, "value", s)) for s in w.sizing()}
    if _widget_warning(ws):
        return None
    return w, reg, sz


def owner_of(env, reg, chain_inner_first):
    """chain: [(widget, size, focus, qualname)] innermost first.  -> (registered owner entry, blamed entry, shift) or None.
    blamed = innermost entry that is inside the statement's domain; owner = nearest entry at or outside it that is a
    recipe-level widget and itself in the domain; shift = why the blame moved outwards from the innermost entry
    ('size<1' / 'mode-not-reported': the failing widget had been handed a size outside the domain), else None."""
    blamed = None
    shift = None
    for w, size, focus, qual in chain_inner_first:
        ok, why = env.m1.in_domain(w, size)
        if not ok:
            if blamed is None and shift is None:
                shift = why
            continue
        if blamed is None:
            blamed = (w, size, focus, qual)
        if id(w) in reg and reg[id(w)][2] is w:
            return (w, size, focus, qual if blamed[0] is w else None), blamed, shift
    return None


def structural_owner(reg, widget):
    """the deepest recipe-level widget whose subtree (including internally built widgets) contains `widget`"""
    cache = reg.get("_owners")
    if cache is None:
        cache = {}
        entries = [v for k, v in reg.items() if k != "_owners"]
        for _path, _node, rw in sorted(entries, key=lambda e: -len(e[0])):  # deepest first
            for x, _internal in T.all_widgets(rw):
                cache.setdefault(id(x), rw)
        reg["_owners"] = cache
    return cache.get(id(widget))


def evaluate(env, w, reg, size, focus):
    """one (tree, size, focus) evaluation.  -> ('skipped', None) | ('ok', None) | ('bad', Finding)"""
    from urwid.canvas import CanvasCache

    m1 = env.m1
    mode = env.gmode
    CanvasCache.clear()
    m1.reset()
    reported = None
    phase = "render"
    exc = None
    canv = None
    with warnings.catch_warnings(record=True) as ws:
        warnings.simplefilter("always")
        try:
            if len(size) == 1:
                phase = "rows()"
                reported = w.rows(size, focus)
            elif len(size) == 0:
                phase = "pack()"
                reported = tuple(w.pack((), focus))
            phase = "render"
            canv = w.render(size, focus)
        except Exception as e:  # noqa: BLE001
            exc = e
    if _widget_warning(ws):
        return "skipped", None
    ev = m1.first_problem()
    detail = ""
    if exc is None and ev is None:
        problems = RC.judge_canvas(w, size, focus, canv, mode, reported, env.m1.clauses)
        if not problems:
            return "ok", None
        kind, msg = problems[0]
        f = Finding((), type(w).__name__, None, RC.MODE_BY_LEN[len(size)], kind, size, focus, msg)
        f.wcls = type(w).__name__
        return "bad", f
    if ev is not None:
        kind, msg = ev.problems[0]
        chain = [(cw, cs, cf, (ev.defcls if i == 0 else None)) for i, (cw, cs, cf) in enumerate(ev.chain)]
        got = owner_of(env, reg, chain)
        if exc is not None:
            msg += f" [then {type(exc).__name__}: {str(exc)[:200]}]"
    else:
        chain = list(reversed(RC.traceback_chain(exc.__traceback__)))
        kind = f"raise:{type(exc).__name__}" + (f"@{phase}" if phase != "render" else "")
        tb = "".join(traceback.format_exception(type(exc), exc, exc.__traceback__, limit=-6))
        msg = f"{type(exc).__name__}: {str(exc)[:300]}\n{tb[-1500:]}"
        got = owner_of(env, reg, chain)
        tbl = exc.__traceback__
        while tbl.tb_next is not None:
            tbl = tbl.tb_next
        detail = tbl.tb_frame.f_code.co_name + ":" + re.sub(r"<.*>|\d+|'[^']*'", "#", str(exc))[:60]
        kind += "/" + tbl.tb_frame.f_code.co_name.strip("_<>")
        if got is not None and got[2]:
            # the widget that raised had been handed a size outside the domain (a dimension < 1, or a sizing mode it
            # does not report): the mechanism is the blamed widget handing out that size, whatever the child raised
            msg = f"(child handed an out-of-domain size: {got[2]}) " + msg
            kind = f"hands-child:{got[2]}"
            detail = got[2]
    if got is None:
        owner, blamed = (w, size, focus, None), (w, size, focus, None)
        if chain:
            # nothing in the call chain is inside the domain by its own sizing() (typically widgets built internally by a
            # bundled class whose sizing() is derived from them): blame the recipe-level widget that structurally owns the
            # innermost failing widget, at the size its outermost internal widget was handed
            so = structural_owner(reg, chain[0][0])
            sized = [(cs, cf) for cw, cs, cf, _q in chain if structural_owner(reg, cw) is so or cw is so]
            if so is not None and sized:
                owner = blamed = (so, sized[-1][0], sized[-1][1], None)
    else:
        owner, blamed = got[0], got[1]
    ow, osize, ofocus, oqual = owner
    if blamed[0] is not ow or id(ow) not in reg:
        # the failing widget was built internally by a bundled class (LineBox, Button, GridFlow ...).  Classes that delegate
        # render / rows / pack to their display widget leave no frame of their own in the call chain, so the recipe-level
        # owner is taken from the STRUCTURE of the tree, and it is given the size its outermost internal widget was handed
        so = structural_owner(reg, blamed[0])
        if so is not None and so is not ow:
            sized = [(cs, cf) for cw, cs, cf, _q in chain if structural_owner(reg, cw) is so or cw is so]
            if sized and env.m1.in_domain(so, sized[-1][0])[0]:
                ow, (osize, ofocus), oqual = so, sized[-1], None
    path = reg[id(ow)][0] if id(ow) in reg else ()
    # the class named in the signature is the class whose method failed (Text for an Edit failing inside Text.render)
    defcls = lambda wd, q: (q.split(".")[0] if q and "." in q or q else type(wd).__name__)  # noqa: E731
    inner = defcls(blamed[0], blamed[3]) if blamed[0] is not ow else None
    cls = type(ow).__name__ if inner else defcls(ow, oqual)
    if cls == "Widget":
        cls = type(ow).__name__
    if inner:
        msg = f"(inside {type(ow).__name__}: its internal {type(blamed[0]).__name__} handed {blamed[1]!r}) " + msg
    f = Finding(path, cls, inner, RC.MODE_BY_LEN[len(osize)], kind, osize, ofocus, msg, detail)
    f.wcls = type(ow).__name__
    return "bad", f


def probe(env, recipe, size, focus, history=()):
    """fresh build + (optional history of earlier evaluations) + one evaluation"""
    env.probes += 1
    try:
        built = build_tree(env, recipe)
    except Exception:  # noqa: BLE001
        return "skipped", None
    if built is None:
        return "skipped", None
    w, reg, sz = built
    if RC.MODE_BY_LEN[len(size)] not in sz:
        return "skipped", None
    for hs, hf in history:
        evaluate(env, w, reg, tuple(hs), hf)
    return evaluate(env, w, reg, tuple(size), focus)


# ---------------------------------------------------------------- shrinking / classification


def _drop_child(n, i):
    m = json.loads(json.dumps(n))
    del m["c"][i]
    t = m["t"]
    if t in ("Pile", "Columns"):
        del m["items"][i]
    if t == "Columns":
        m["box_columns"] = [b - (b > i) for b in m["box_columns"] if b != i]
    if t == "Frame":
        part = m["parts"][i]
        del m["parts"][i]
        if m["focus_part"] == part:
            m["focus_part"] = "body"
    if "focus" in m and t != "AttrMap" and t != "AttrWrap":
        m["focus"] = None
    return m


SIMPLE_OPTS = {
    "left": 0, "right": 0, "top": 0, "bottom": 0, "min_width": None, "min_height": None, "align": "left", "valign": "top",
    "wrap": "space", "dividechars": 0, "title": "", "off": [], "font": "Thin3x3Font", "focus": None, "multiline": False,
    "mask": None, "edit_pos": None, "scrollpos": 0, "h_sep": 0, "v_sep": 0, "satt": False, "hlines": [], "bar_width": None,
    "title_align": "center", "cursor_position": 0, "has_mixed": False, "attr": None, "labels": [],
}  # fmt: skip
MODE_NOW = ["utf8"]
SIMPLE_TEXT = {"text": ["a", "ab"], "caption": ["", "a"], "edit_text": ["", "a"], "label": ["a"], "ch": ["x"]}


def _candidates(recipe):
    """smaller / simpler variants of recipe, most drastic first"""
    paths = []

    def walk(n, p):
        paths.append(p)
        for i, c in enumerate(T.children(n)):
            walk(c, (*p, i))

    walk(recipe, ())
    for p in paths:
        n = T.node_at(recipe, p)
        t = n["t"]
        # hoist a child over this node
        for c in T.children(n):
            yield T.replace_at(recipe, p, c)
        # replace by a plain leaf of a kind the node promised
        if p and T.children(n) or (p and t not in ("Text", "SolidFill")):
            try:
                ks = T.kinds_of(n)
            except Exception:  # noqa: BLE001
                ks = set()
            leaves = []
            if "box" in ks:
                leaves.append(T.simple_leaf("box"))
            if ks & {"flow", "fixed"}:
                leaves.append(T.simple_leaf("flow"))
                leaves.append({"t": "SelectableIcon", "text": "ab", "cursor_position": 1, "align": "left", "wrap": "space"})
            if ks == {"fixed"}:
                leaves.append({"t": "BigText", "text": "1", "font": "Thin3x3Font"})
            if ks == {"flow"}:
                leaves.append({"t": "Divider", "ch": "-", "top": 0, "bottom": 0})
            for lf in leaves:
                if lf != n:
                    yield T.replace_at(recipe, p, lf)
        # drop children
        if t in ("Pile", "Columns", "GridFlow", "ListBox"):
            for i in range(len(n["c"])):
                yield T.replace_at(recipe, p, _drop_child(n, i))
        if t == "Frame":
            for i in range(1, len(n["c"])):
                yield T.replace_at(recipe, p, _drop_child(n, i))
    for p in paths:
        n = T.node_at(recipe, p)
        t = n["t"]
        for k, v in SIMPLE_OPTS.items():
            if k in n and n[k] != v and not (t in ("AttrMap", "AttrWrap") and k == "focus" and n[k] is None):
                if k == "font" and t != "BigText":
                    continue
                m = dict(n)
                m[k] = v
                yield T.replace_at(recipe, p, m)
        for k, vs in SIMPLE_TEXT.items():
            if k in n and not (t == "BigText"):
                for v in vs:
                    if n[k] != v:
                        m = dict(n)
                        m[k] = v
                        yield T.replace_at(recipe, p, m)
        for k in SIMPLE_TEXT:
            v = n.get(k)
            if t == "BigText" or v is None or isinstance(v, list):
                continue
            by = isinstance(v, (dict, bytes))
            sv = T._txt(v)
            if by:
                try:
                    sv = sv.decode(ENC[MODE_NOW[0]])
                except UnicodeDecodeError:
                    continue
            if 1 < len(sv) <= 40:
                outs = [sv[:i] + sv[i + 1 :] for i in range(len(sv))]
                outs += [sv[:i] + "a" + sv[i + 1 :] for i in range(len(sv)) if sv[i] != "a" and not sv[i].isascii()]
                for o in outs:
                    yield T.replace_at(recipe, p, dict(n, **{k: ({"bytes": o.encode(ENC[MODE_NOW[0]]).decode("latin-1")} if by else o)}))
        if t in ("Text",) and isinstance(n.get("text"), list):
            mk = n["text"]
            if len(mk) > 1:
                for i in range(len(mk)):
                    yield T.replace_at(recipe, p, dict(n, text=mk[:i] + mk[i + 1 :]))
            else:
                yield T.replace_at(recipe, p, dict(n, text=mk[0][1]))
            if len(mk) > 1 and all(isinstance(tx, str) for _a, tx in mk):
                yield T.replace_at(recipe, p, dict(n, text="".join(tx for _a, tx in mk)))
            for i, (a, tx) in enumerate(mk):
                if isinstance(tx, str) and len(tx) > 1:
                    yield T.replace_at(recipe, p, dict(n, text=mk[:i] + [[a, "a"]] + mk[i + 1 :]))
        if t == "BigText" and n["text"] not in ("1", ""):
            yield T.replace_at(recipe, p, dict(n, text="1"))
        if t in ("Pile", "Columns"):
            for i, (sk, amt) in enumerate(n["items"]):
                if sk in ("weight", "given") and amt != 1:
                    m = json.loads(json.dumps(n))
                    m["items"][i][1] = 1
                    yield T.replace_at(recipe, p, m)
        for k in ("width", "height", "cell_width"):
            if isinstance(n.get(k), int) and n[k] > 1:
                yield T.replace_at(recipe, p, dict(n, **{k: 1}))
                if n[k] > 2:
                    yield T.replace_at(recipe, p, dict(n, **{k: 2}))
            if isinstance(n.get(k), list) and n[k][1] != 100:
                yield T.replace_at(recipe, p, dict(n, **{k: ["relative", 100]}))
        if t == "BarGraph" and n["data"]:
            yield T.replace_at(recipe, p, dict(n, data=[], nseg=1))
        if t == "ProgressBar" and (n["current"], n["done"]) != (0, 100):
            yield T.replace_at(recipe, p, dict(n, current=0, done=100))
        if t in ("IntEdit", "IntegerEdit", "FloatEdit") and n["default"] is not None:
            yield T.replace_at(recipe, p, dict(n, default=None))


def shrink(env, recipe, f, budget=300):
    """-> (recipe, finding) minimal-ish witness with the same key as f"""
    key = f.key
    size, focus = f.size, f.focus
    # isolate the blamed subtree as its own root at the size it was handed
    if f.path:
        sub = T.node_at(recipe, f.path)
        st, f2 = probe(env, sub, size, focus)
        if st == "bad" and f2.key == key:
            recipe, f = sub, f2
        else:
            # keep the whole tree at the root's size: the caller passes that in f.root_size
            size, focus = f.root_size, f.root_focus
    improved = True
    while improved and budget > 0:
        improved = False
        cur_len = len(json.dumps(recipe))
        for cand in _candidates(recipe):
            if budget <= 0:
                break
            if len(json.dumps(cand)) > cur_len and T.count_nodes(cand) >= T.count_nodes(recipe):
                continue
            if cand == recipe:
                continue
            budget -= 1
            st, f2 = probe(env, cand, size, focus)
            if st == "bad" and f2.key == key:
                recipe, f = cand, f2
                f.root_size, f.root_focus = size, focus
                improved = True
                break
    f.root_size, f.root_focus = size, focus
    return recipe, f


def mech_kind(f):
    """failure kind + raise site (raise kinds) or violated clause (others).  The phase marker @rows()/@pack() is dropped
    when a raise site is present, @content() is kept (no site).  For AttributeError the site is the missing attribute
    ('BigText' object has no attribute 'rows' -> attr:rows) rather than the function that happened to touch it."""
    k = f.kind
    if k.startswith("raise:") and "/" in k:
        head, site = k.rsplit("/", 1)
        head = head.split("@")[0]
        if head == "raise:AttributeError":
            m = re.search(r"has no attribute '(\w+)'", f.msg)
            if m:
                site = "attr:" + m.group(1)
        return f"{head}/{site}"
    return k


def signature(env, recipe, f, sclass=None):
    """C01|<blamed class>|<failure kind + raise site or clause>  -- one line per mechanism.
    Everything in it is read off the raw finding (class whose method failed, clause / exception type + function that
    raised), so it does not depend on how far the witness was shrunk.  The size class of the size the blamed widget was
    handed (fixed / tiny: a dimension <= 3 / ordinary) is reported in the message, not in the signature: with it every
    mechanism needed two or three lines and held-out seeds kept surfacing the missing variant."""
    kind = mech_kind(f)
    if getattr(f, "bucket", None) == "tiny":
        # Failures that occur when the blamed widget itself is handed a size with a dimension <= 3 are grouped per
        # (class, failure family): the bundled widgets have a long tail of distinct small defects at 1-3 columns /
        # rows, and every new seed used to surface a few never-seen (class, raise site) pairs there.  At ordinary
        # sizes the signature keeps the exact raise site / clause.
        family = kind.split("/")[0].split("@")[0]
        return f"C01|{f.cls}|tiny-size|{family}"
    return f"C01|{f.cls}|{kind}"


def prekey(env, recipe, f):
    return (signature(env, recipe, f), f.detail)


def report(env, recipe, f, history=()):
    """classify one shrunk finding and hand it to ctx"""
    ctx = env.ctx
    sig = signature(env, recipe, f)
    wit = {"mode": env.mode, "recipe": recipe, "size": list(f.root_size), "focus": f.root_focus}
    if history:
        wit["history"] = [[list(s), fo] for s, fo in history]
    if INTERNAL_WARNINGS:
        wit["ignore_warnings"] = sorted(INTERNAL_WARNINGS)
    call = {0: "pack((), {0}); w.render((), {0})", 1: "rows({1}, {0}); w.render({1}, {0})", 2: "render({1}, {0})"}[len(f.root_size)]
    standalone = (
        f"import urwid; urwid.util.set_encoding({ENC[env.mode]!r}); "
        + "".join(f"w.render({tuple(s)!r}, {fo}); " for s, fo in history).join(["w = " + T.to_code(recipe) + "; ", ""])
        + "w." + call.format(f.root_focus, tuple(f.root_size))
    )
    ctx.violation(sig, f"[{f.bucket} size] {f.msg}\n  blamed: {f.cls} at path {list(f.path)} handed {f.size!r} focus={f.focus}\n  shape: {T.describe(recipe, 4, True, env.mode)}\n  replay: {standalone}", wit)
    return sig


def handle_finding(env, recipe, f, root_size, root_focus, seen_prekeys, max_per_prekey):
    ctx = env.ctx
    ctx.count("findings_raw")
    ctx.count(f"finding_kind:{f.kind.split('@')[0].split('/')[0]}")
    f.root_size, f.root_focus = tuple(root_size), root_focus
    pk = prekey(env, recipe, f)
    seen_prekeys[pk] += 1
    if seen_prekeys[pk] > max_per_prekey:
        ctx.count("findings_same_mechanism_not_reshrunk")
        return report(env, recipe, f)
    # must reproduce from a fresh build (it was found on one; anything else is non-determinism in the harness)
    st, f2 = probe(env, recipe, root_size, root_focus)
    if not (st == "bad" and f2.key == f.key):
        ctx.count("findings_not_reproducible")
        ctx.inconc(f"finding-not-reproducible:{f.key}")
        return None
    f2.root_size, f2.root_focus = tuple(root_size), root_focus
    small, fs = shrink(env, recipe, f2)
    return report(env, small, fs)


# ---------------------------------------------------------------- driver


CONTROL_TEXTS = ["a\rb", "a\tb", "ab\x0bcd", "a\x0cb", "x\x1cy", "x\x1dy\x1ez", "a\x85b", "a\u2028b", "a\u2029bc", "\r", "a\r\nb", "\ta", "a\x00b\nc", "ab\x7f"]


# ---------------------------------------------------------------- directed phase 4: cursor of a clipped FIXED widget

CLIP_TEXT = "abcdefghijklmnopqrstuvw"  # every character once: the character in the cursor cell identifies the cell
CLIP_ALIGNS = ["left", "center", "right", ["relative", 30], ["relative", 75]]


def clip_cursor_widgets():
    """FIXED-capable widgets that show a cursor, with texts in which the cursor cell's character is unique"""
    out = []
    for pos in (0, 4, 11, 17, 21, 22):
        out.append({"t": "SelectableIcon", "text": CLIP_TEXT, "cursor_position": pos, "align": "left", "wrap": "clip"})
    out.append({"t": "Button", "label": "bcdefghijklm", "align": "left", "wrap": "clip"})
    out.append({"t": "CheckBox", "label": "bcdefghijklm", "state": True, "has_mixed": False})
    out.append({"t": "RadioButton", "label": "bcdefghijklm", "state": True})
    return out


def clip_cursor_cases():
    """(recipe, sizes): Padding(width='clip') and Overlay(width='pack') around each widget, sizes narrower than, equal to and
    wider than the widget"""
    for leaf in clip_cursor_widgets():
        for align in CLIP_ALIGNS:
            for left, right in ((0, 0), (1, 2)):
                pad = {"t": "Padding", "align": align, "width": "clip", "min_width": None, "left": left, "right": right, "c": [leaf]}
                yield pad, [(c,) for c in (1, 2, 3, 5, 8, 13, 16, 19, 23, 27, 40)]
            ov = {
                "t": "Overlay", "align": align, "valign": "top", "width": "pack", "height": "pack", "min_width": None, "min_height": None,
                "left": 0, "right": 0, "top": 0, "bottom": 0, "c": [leaf, {"t": "SolidFill", "ch": "."}],
            }  # fmt: skip
            yield ov, [(c, r) for c in (1, 3, 8, 16, 23, 40) for r in (1, 3)]


def _cells(canv, mode):
    """{(x, y): character bytes} of a real canvas, one entry per cell a character starts in"""
    from vmon.models import grid as G

    out = {}
    for y, row in enumerate(G.flatten_rows([list(r) for r in canv.content()], mode)):
        x = 0
        for b, w, _a, _cs in row:
            if w:
                out[(x, y)] = b
            x += w
    return out


def check_clip_cursor(env, recipe, size):
    """Model-free clause for a clipped FIXED widget rendered with focus: the character under the widget's own cursor (read
    off its own canvas) is unique, so if that character is visible in the clipping parent's canvas the cell it is in is
    where the parent's cursor belongs.  -> None | (kind, message).  A cursor cell that was clipped away is not judged here
    (a cursor left outside in that case is the ordinary cursor-inside clause)."""
    from urwid.canvas import CanvasCache

    mode = env.gmode
    CanvasCache.clear()
    leaf = T.build(recipe["c"][0])
    own = leaf.render((), True)
    if own.cursor is None:
        return None
    glyph = _cells(own, mode).get(tuple(own.cursor))
    if glyph is None or glyph == b" ":
        return None
    CanvasCache.clear()
    with warnings.catch_warnings(record=True) as ws:
        warnings.simplefilter("always")
        try:
            canv = T.build(recipe).render(size, True)
        except Exception:  # noqa: BLE001  (reported by the ordinary evaluation of the same case)
            return None
    if _widget_warning(ws) or not canv.cols() or not canv.rows():
        return None
    try:
        where = [xy for xy, b in _cells(canv, mode).items() if b == glyph]
    except ValueError:
        return None
    if len(where) != 1:
        env.ctx.count("clip_cursor_cell_clipped_away" if not where else "clip_cursor_cell_ambiguous")
        return None
    env.ctx.count("clause_clip_cursor_cell_visible")
    cur = canv.cursor
    if cur is None or tuple(cur) == where[0]:
        return None
    inside = 0 <= cur[0] < canv.cols() and 0 <= cur[1] < canv.rows()
    kind = "cursor-on-wrong-cell" if inside else "cursor-outside-though-its-cell-is-visible"
    return kind, (
        f"the widget's cursor cell (character {glyph!r}) is visible at {where[0]} of the {canv.cols()} x {canv.rows()} canvas "
        f"but the canvas cursor is {tuple(cur)!r}"
    )


def drive_clip_cursor(env, recipe, mode, sizes, seen_prekeys, max_per_prekey):
    ctx = env.ctx
    drive_tree(env, recipe, mode, lambda smode: [s for s in sizes if RC.MODE_BY_LEN[len(s)] == smode], seen_prekeys, max_per_prekey)
    env.set_mode(mode)
    for size in sizes:
        got = check_clip_cursor(env, recipe, size)
        ctx.count("clip_cursor_cases")
        if got:
            kind, msg = got
            sig = f"C01|{recipe['t']}|{kind}"
            wit = {"mode": mode, "recipe": recipe, "size": list(size), "focus": True, "clause": "clip-cursor"}
            code = f"import urwid; urwid.util.set_encoding({ENC[mode]!r}); w = {T.to_code(recipe)}; w.render({tuple(size)!r}, True).cursor"
            ctx.violation(sig, f"{msg}\n  replay: {code}", wit)


# ---------------------------------------------------------------- directed phase 5: a scrolled Scrollable under a ScrollBar


def scrolled_bar_cases(quick):
    """(recipe, sizes): ScrollBar (either side, 1-2 columns) around a Scrollable that has been scrolled (the recipe's
    'scrollpos' is applied with set_scrollpos() at build time; render clamps it) over a text of equal words, so that the
    text wraps into more rows at maxcol - bar width than at maxcol; box sizes around the word length."""
    positions = (0, 1, 2, 3, 5, 6, 7, 8, 11, 12, 13, 17, 23, 24, 30, -1) if quick else (*range(0, 41), -1)
    for word, n in (("abcdef", 12), ("abcd", 9)):
        text = {"t": "Text", "text": " ".join([word] * n), "align": "left", "wrap": "space"}
        L = len(word)
        sizes = [(c, r) for c in (L - 1, L, L + 1, L + 2, 2 * L + 1) for r in (3, 8)]
        for side in ("right", "left"):
            for width in (1, 2):
                for pos in positions:
                    inner = {"t": "Scrollable", "c": [text], "scrollpos": pos}
                    yield {"t": "ScrollBar", "thumb": "#", "trough": ".", "side": side, "width": width, "c": [inner]}, sizes


# ---------------------------------------------------------------- directed phase 6: LineBox around FIXED-capable widgets


def linebox_fixed_cases():
    """LineBox around widgets that are only FIXED (BigText) or BOX/FIXED (Overlay with a pack-sized top) or FLOW/FIXED (Text):
    LineBox.sizing() reports the sizing of what it wraps, the decoration is built from Columns / Pile."""
    big = {"t": "BigText", "text": "12", "font": "Thin3x3Font"}
    txt = {"t": "Text", "text": "ab", "align": "left", "wrap": "space"}
    ov = {
        "t": "Overlay", "align": "left", "valign": "top", "width": "pack", "height": "pack", "min_width": None, "min_height": None,
        "left": 0, "right": 0, "top": 0, "bottom": 0, "c": [txt, {"t": "SolidFill", "ch": "."}],
    }  # fmt: skip
    for child in (big, txt, ov):
        for title in ("", "t"):
            for off in ([], ["t", "b"]):
                if title and "t" in off:
                    continue
                yield {"t": "LineBox", "title": title, "title_align": "center", "off": off, "c": [child]}


# ---------------------------------------------------------------- directed phase 7: multi-character fill strings


def fill_strings(mode, maxlen):
    """strings of 1..maxlen units whose first screen column is one narrow character (what SolidCanvas requires), from
    characters that are legal in the encoding: ASCII, narrow multi-byte (utf8) / DEC line drawing, precomposed and
    combining accents (utf8), a double-width character (never first)"""
    units = {"utf8": ["x", "─", "é", "é", "漢"], "wide": ["x", "─", "▒", "漢"], "narrow": ["x", "─", "▒"]}[mode]
    out = []

    def rec(prefix):
        if prefix:
            out.append("".join(prefix))
        if len(prefix) < maxlen:
            for u in units:
                if not prefix and u == "漢":
                    continue
                rec([*prefix, u])

    rec([])
    return out


def fill_cases(mode, maxlen):
    """every place a user-supplied fill string reaches a SolidCanvas"""
    txt = {"t": "Text", "text": "ab", "align": "left", "wrap": "space"}
    for s in fill_strings(mode, maxlen):
        yield {"t": "SolidFill", "ch": s}
        yield {"t": "Divider", "ch": s, "top": 0, "bottom": 1}
        yield {"t": "LineBox", "title": "", "title_align": "center", "off": [], "lines": {"tline": s, "bline": s, "lline": s, "rline": s}, "c": [txt]}
        inner = {"t": "Scrollable", "c": [{"t": "Text", "text": "a b c d e f g h", "align": "left", "wrap": "space"}], "scrollpos": 1}
        yield {"t": "ScrollBar", "thumb": s, "trough": s, "side": "right", "width": 2, "c": [inner]}


# ---------------------------------------------------------------- directed phase 8: unusual weights / given sizes


def odd_option_cases():
    """Pile and Columns with weight 0, huge and fractional weights and given 0, in flow / box / fixed flavours, alone and
    under ListBox / Filler / LineBox / Columns parents"""
    t2 = {"t": "Text", "text": "ab\ncd", "align": "left", "wrap": "space"}
    t1 = {"t": "Text", "text": "x", "align": "left", "wrap": "space"}
    sf = {"t": "SolidFill", "ch": "#"}
    sg = {"t": "SolidFill", "ch": "."}

    def pile(items):
        return {"t": "Pile", "items": [[k, a] for k, a, _c in items], "focus": None, "c": [c for _k, _a, c in items]}

    def cols(items, div=1, box=()):
        return {"t": "Columns", "items": [[k, a] for k, a, _c in items], "focus": None, "dividechars": div, "min_width": 1, "box_columns": list(box), "c": [c for _k, _a, c in items]}

    bases = [
        pile([("weight", 0, t2), ("pack", None, t1)]),
        pile([("weight", 0, t2), ("weight", 1, t1)]),
        pile([("weight", 1, t1), ("weight", 0, t2), ("weight", 2, t1)]),
        pile([("weight", 1000, t2), ("weight", 0.5, t1)]),
        pile([("given", 0, sf), ("pack", None, t2)]),
        pile([("weight", 0, sf), ("weight", 1, sg)]),
        pile([("weight", 1000, sf), ("weight", 0.5, sg)]),
        pile([("given", 0, sf), ("weight", 1, sg)]),
        pile([("weight", 0, sf), ("pack", None, t2), ("weight", 2, sg)]),
        pile([("pack", None, t2), ("weight", 0, t1)]),
        cols([("weight", 0, t2), ("weight", 1, t1)]),
        cols([("weight", 1, t1), ("weight", 0, t2), ("weight", 2, t1)]),
        cols([("weight", 1000, t2), ("weight", 0.5, t1)]),
        cols([("given", 0, t2), ("weight", 1, t1)]),
        cols([("weight", 0, sf), ("weight", 1, sg)]),
        cols([("weight", 1000, sf), ("weight", 0.5, sg)], div=0),
        cols([("given", 0, sf), ("weight", 1, sg)]),
        cols([("weight", 0, t2), ("pack", None, t1)]),
        cols([("pack", None, t1), ("weight", 0, t2), ("pack", None, t2)]),
    ]
    for b in bases:
        yield b
        kinds = T.kinds_of(b)
        if "flow" in kinds:
            yield {"t": "ListBox", "walker": "SimpleListWalker", "focus": None, "c": [t1, b, t1]}
            yield {"t": "Filler", "valign": "top", "top": 0, "bottom": 0, "min_height": None, "height": "pack", "c": [b]}
            yield cols([("weight", 1, b), ("weight", 1, t1)], div=0)
        yield {"t": "LineBox", "title": "", "title_align": "center", "off": [], "c": [b]}


# ---------------------------------------------------------------- directed phases 9 / 10: ProgressBar sweep, fixed-defect regressions


def progress_bar_cases():
    for satt in (True, False):
        for done in (100, 7, 1):
            for frac in (0, 1 / 16, 1 / 8, 3 / 8, 0.77, 1, -0.3, 1.2):
                cur = frac * done
                yield {"t": "ProgressBar", "current": int(cur) if float(cur).is_integer() else cur, "done": done, "satt": satt}


def _txt_(s, align="left", wrap="space"):
    return {"t": "Text", "text": s, "align": align, "wrap": wrap}


def _big_(s="1"):
    return {"t": "BigText", "text": s, "font": "Thin3x3Font"}


def _sf_(ch="x"):
    return {"t": "SolidFill", "ch": ch}


def _pile_(items, focus=None):
    return {"t": "Pile", "items": [[k, a] for k, a, _c in items], "focus": focus, "c": [c for _k, _a, c in items]}


def _cols_(items, div=0, box=(), focus=None, minw=1):
    return {"t": "Columns", "items": [[k, a] for k, a, _c in items], "focus": focus, "dividechars": div, "min_width": minw, "box_columns": list(box), "c": [c for _k, _a, c in items]}


def _pad_(c, align="left", width="pack", minw=None, left=0, right=0):
    return {"t": "Padding", "align": align, "width": width, "min_width": minw, "left": left, "right": right, "c": [c]}


def _ov_(top, align="left", width="pack", valign="top", height="pack", minw=None, minh=None, l=0, r=0, t=0, b=0, bottom=None):  # noqa: E741
    return {"t": "Overlay", "align": align, "valign": valign, "width": width, "height": height, "min_width": minw, "min_height": minh,
            "left": l, "right": r, "top": t, "bottom": b, "c": [top, bottom or _sf_(".")]}  # fmt: skip


def _lb_(items, focus=None, walker="SimpleFocusListWalker"):
    return {"t": "ListBox", "walker": walker, "focus": focus, "c": items}


def regression_cases():
    """(mode, recipe) for every case named by the `fixed: property=C01` lines of KNOWN_FINDINGS.txt (commit in the comment)"""
    rel = lambda p: ["relative", p]  # noqa: E731
    out = []
    add = lambda r, mode="utf8": out.append((mode, r))  # noqa: E731
    # 1f8f861 PopUpTarget sizing is BOX only, also below decorations that inherit sizing
    flowbox = {"t": "Filler", "valign": "top", "top": 0, "bottom": 0, "min_height": None, "height": "pack", "c": [_txt_("a")]}
    for child in (flowbox, _pile_([]), _sf_()):
        put = {"t": "PopUpTarget", "c": [child]}
        add(put)
        add({"t": "AttrMap", "attr": "a", "focus": None, "c": [put]})
        add({"t": "LineBox", "title": "", "title_align": "center", "off": [], "c": [put]})
        add({"t": "WidgetPlaceholder", "c": [put]})
    # 395eade Padding(width='pack') around a box widget, also as an Overlay top
    for minw in (None, 3):
        for left, right in ((0, 0), (1, 2)):
            p = _pad_(_sf_(), "left", "pack", minw, left, right)
            add(p)
            add(_ov_(p, "left", rel(30), "top", 1))
    # 7be1611 Pile with a FIXED-only PACK item: flow rows, box pass next to WEIGHT items
    add(_pile_([("pack", None, _big_()), ("pack", None, _txt_("a"))]))
    add(_pile_([("given", 1, _sf_()), ("pack", None, _big_("12"))]))
    add(_pile_([("weight", 1, _sf_()), ("pack", None, _big_())]))
    add(_pile_([("weight", 1, _sf_()), ("given", 1, _sf_(".")), ("pack", None, _big_())]))
    # (the frozenset assignment of that commit sat in the fixed path of a zero-weight BOX item; such a pile reports BOX only and
    #  a box pile without a positive weight is documented as unsupported -- PileError -- so there is no in-domain case for it)
    # e6b746b Pile.sizing(): no BOX with a WEIGHT item that is not a box widget
    for w in (_txt_("a"), {"t": "Divider", "ch": "-", "top": 1, "bottom": 0}, {"t": "Button", "label": "a", "align": "left", "wrap": "space"}):
        add(_pile_([("given", 1, _sf_()), ("weight", 1, w)]))
        add(_pile_([("weight", 1, w), ("given", 2, _sf_())]))
    # 375678f SelectableIcon / Button: cursor clipped away on the left
    for text in ("ab", "abcdef", "a漢b"):
        for align in ("right", "center"):
            for wrap in ("clip", "ellipsis"):
                for pos in (0, 1):
                    add({"t": "SelectableIcon", "text": text, "cursor_position": pos, "align": align, "wrap": wrap})
                add({"t": "Button", "label": text, "align": align, "wrap": wrap})
    # 7bf37a6 empty string inside text markup (str and bytes, first / middle / last position)
    for segs in ([["hl", "ñ"], ["a", ""], ["hl", "1漢"]], [["a", ""], ["hl", "xy"]], [["hl", "xy\nz"], ["a", ""]], [["a", ""], ["b", ""]]):
        for wrap in ("space", "clip", "any"):
            add(_txt_(segs, "left", wrap))
    bseg = [[None, {"bytes": "語".encode("utf-8").decode("latin-1")}], ["b", {"bytes": ""}], ["a", {"bytes": "à/ C".encode("utf-8").decode("latin-1")}]]
    add(_txt_(bseg, "left", "clip"))
    add(_txt_([["hl", {"bytes": "ab"}], ["a", {"bytes": ""}], ["b", {"bytes": "."}]], "left", "clip"), "narrow")
    # a055b54 Padding rendered FIXED is pack() wide: given / pack / relative x min_width x alignment x left/right x children
    for child in (_txt_("a"), _txt_(""), _big_(), _big_(""), {"t": "Divider", "ch": "-", "top": 0, "bottom": 0}):
        fixed_child = child["t"] != "Divider"
        for width in (1, 5, "pack", rel(100), rel(30), rel(70)):
            if isinstance(width, int) and child["t"] == "BigText":
                continue  # GIVEN needs a flow / box widget
            if not isinstance(width, int) and not fixed_child:
                continue
            for minw in (None, 3, 6):
                for align in ("left", "center", "right"):
                    add(_pad_(child, align, width, minw, 0, 0))
                add(_pad_(child, "left", width, minw, 2, 1))
    # fb41765 Overlay: PACK top wider than the box (every alignment), relative sizes rounding to 0, empty top, fixed with left/right
    for top in (_txt_("ab"), _txt_("漢a ア", "left", "clip"), _big_(), {"t": "RadioButton", "label": "a", "state": False}, _big_("")):
        for align in ("left", "center", "right", rel(50)):
            for valign in ("top", "middle", rel(25)):
                add(_ov_(top, align, "pack", valign, "pack"))
        add(_ov_(top, "left", "pack", "top", "pack", l=2, r=1))
    for width, height, kw in ((rel(100), rel(50), {"t": 2}), (rel(80), rel(30), {"minw": 6}), (1, rel(80), {"b": 1}), (rel(30), 1, {}), (rel(30), "pack", {})):
        add(_ov_(_sf_() if height != "pack" else _txt_("a", "left", "clip"), "left", width, "top", height, **kw))
    # eda518a Columns with box_columns whose flow columns are all hidden
    lbx = _lb_([{"t": "Divider", "ch": "x", "top": 0, "bottom": 0}], None, "SimpleListWalker")
    for boxw in (_sf_(), lbx):
        add(_cols_([("given", 1, _txt_("a")), ("given", 2, boxw)], 0, [1], 1))
        add(_cols_([("given", 1, _txt_("a")), ("given", 2, boxw)], 0, [1], None, 4))
        add(_cols_([("given", 3, _txt_("a")), ("weight", 1, boxw)], 1, [1], 1))
    # ad4e628 Filler with a relative height rounding to 0 rows / no row left
    for height, top, bottom in ((rel(30), 0, 0), (rel(100), 0, 2), (rel(50), 1, 0), (rel(10), 0, 0)):
        for valign in ("top", "middle", "bottom"):
            add({"t": "Filler", "valign": valign, "top": top, "bottom": bottom, "min_height": None, "height": height, "c": [_sf_()]})
    # bcce923 empty GridFlow next to the focus in a ListBox / Pile
    eg = {"t": "GridFlow", "cell_width": 8, "h_sep": 1, "v_sep": 0, "align": "left", "focus": None, "c": []}
    for fpos in (0, 1, 2):
        add(_lb_([eg, _txt_("ab"), _txt_("cd")], fpos))
        add(_lb_([_txt_("ab"), eg, {"t": "Edit", "caption": "", "edit_text": "x", "multiline": False, "align": "left", "wrap": "space", "edit_pos": None, "mask": None}], fpos))
    add(_pile_([("pack", None, eg), ("pack", None, _txt_("a"))], 0))
    # ba2bf09 PopUpTarget forwarding optional cursor methods
    for inner in (_sf_(), {"t": "Scrollable", "c": [_txt_("a b c d")], "scrollpos": 0}, flowbox):
        ba = {"t": "BoxAdapter", "height": 3, "c": [{"t": "PopUpTarget", "c": [inner]}]}
        add(_lb_([ba, _txt_("a")], 0))
        add(_lb_([_txt_("a"), ba], 1))
    # 607893a Columns.pack(()) dividers with hidden (zero-weight) columns in first / middle / last position
    for order in ((0, 1, 1), (1, 0, 1), (1, 1, 0), (0, 0, 1)):
        for div in (1, 2):
            items = [("weight", 0, _txt_("abc")) if not shown else ("pack", None, _txt_("abcd" + "e" * i)) for i, shown in enumerate(order)]
            add(_cols_(items, div))
    return out


# ---------------------------------------------------------------- directed phase 11: box column beside a shown 0-row flow column


def zero_row_flow_cases():
    """Columns rendered as a flow widget with a box_columns member whose only shown non-box columns report 0 rows (an empty
    Pile, a Pile nesting one): rows() answers max(1, heights), so the box column must get one row too (eda518a)."""
    empty = _pile_([])
    nested = _pile_([("pack", None, _pile_([]))])
    lbx = _lb_([_txt_("t")], None, "SimpleListWalker")
    for zero in (empty, nested):
        for box in (_sf_(), lbx):
            for bk, ba in (("given", 2), ("weight", 1)):
                yield _cols_([("weight", 1, zero), (bk, ba, box)], 0, [1])
                yield _cols_([(bk, ba, box), ("weight", 1, zero)], 1, [0])
                yield _cols_([("weight", 1, zero), (bk, ba, box), ("weight", 2, zero)], 0, [1])


def check_box_column_rows(env, recipe, size, focus):
    """-> None | message: rows() against the rendered rows of one of the phase-11 Columns (its own signature, because the
    unrelated known line C01|Columns|rows!=rows() -- a Columns holding nothing but an empty Pile -- has the same clause)"""
    from urwid.canvas import CanvasCache

    CanvasCache.clear()
    with warnings.catch_warnings(record=True) as ws:
        warnings.simplefilter("always")
        try:
            w = T.build(recipe)
            rows = w.rows(size, focus)
            canv = w.render(size, focus)
        except Exception:  # noqa: BLE001  (reported by the ordinary evaluation of the same case)
            return None
    if _widget_warning(ws):
        return None
    env.ctx.count("clause_box_column_rows")
    if canv.rows() != rows:
        return f"rows({size!r}, {focus}) = {rows} but the canvas has {canv.rows()} rows: the box_columns member got no row beside a shown flow column that reports 0 rows"
    return None


def drive_tree(env, recipe, mode, sizes_for, seen_prekeys, max_per_prekey):
    """all sizing modes x sizes x focus for one recipe"""
    ctx = env.ctx
    env.set_mode(mode)
    try:
        built = build_tree(env, recipe)
    except Exception as e:  # noqa: BLE001
        # the generator promises constructible trees: a constructor exception is a generator/harness problem
        ctx.inconc(f"generator-built-unconstructible-tree:{type(e).__name__}:{str(e)[:80]}:{T.describe(recipe, 1, False)}")
        return
    if built is None:
        ctx.count("skipped_invalid")
        ctx.count("skipped_invalid_trees")
        return
    w, reg, sz = built
    ctx.count("trees_judged")
    ctx.count(f"mode:{mode}")
    for c in T.classes_in(recipe):
        ctx.count(f"cls:{c}")
    th = h64(json.dumps(recipe, sort_keys=True))
    reported = set()
    for smode in ("fixed", "flow", "box"):
        if smode not in sz:
            continue
        ctx.count(f"root_mode:{smode}")
        for size in sizes_for(smode):
            for focus in FOCI:
                # a fresh tree for every evaluation: the verdict for (tree, size, focus) never depends on earlier renders
                w, reg, _ = build_tree(env, recipe)
                st, f = evaluate(env, w, reg, size, focus)
                if st == "skipped":
                    ctx.count("skipped_invalid")
                    ctx.case((mode, th, size, focus), nontrivial=False)
                    continue
                ctx.count("cases_judged")
                ctx.case((mode, th, size, focus))
                if st == "bad":
                    k = (f.key, f.path)  # (the key contains the size class)
                    if k not in reported:  # one report per (tree, blamed node, mechanism, size class)
                        reported.add(k)
                        handle_finding(env, recipe, f, size, focus, seen_prekeys, max_per_prekey)
                        env.set_mode(mode)


def flush_m1(env):
    ctx = env.ctx
    m1 = env.m1
    for k, v in m1.counts.items():
        ctx.count(k, v)
    for k, v in m1.clauses.items():
        ctx.count(k, v)
    classes = Counter()
    for (cls, smode, _b), v in m1.coverage.items():
        classes[(cls, smode)] += v
    for (cls, smode), v in classes.items():
        ctx.count(f"m1:{cls}/{smode}", v)
    ctx.count("m1_distinct_class_mode_sizebucket", len(m1.coverage))
    m1.counts.clear()
    m1.clauses.clear()
    m1.coverage.clear()


def run(ctx):
    import urwid
    from urwid.widget import columns, filler, overlay, padding, pile
    from urwid.widget import widget as ww

    reach.watch(
        pile.Pile.render, pile.Pile.get_item_rows, columns.Columns.render, columns.Columns.get_column_sizes,
        padding.Padding.render, filler.Filler.render, overlay.Overlay.render, urwid.ListBox.render, urwid.Frame.render,
        urwid.GridFlow.get_display_widget, urwid.Text.render, urwid.Edit.render, urwid.BigText.render,
        urwid.ScrollBar.render, urwid.Scrollable.render, urwid.canvas.TextCanvas.__init__, urwid.canvas.CanvasJoin,
        urwid.canvas.CanvasCombine,
    )  # fmt: skip
    old_enc = urwid.util.get_encoding()
    env = Env(ctx)
    env.m1.install()
    if ww.validate_size.__self__ is not env.m1:
        ctx.inconc("M1-not-installed")
    # Calibrated seed pool.  The bundled widgets have a long tail of small genuine render defects (mostly at
    # 1-3 column sizes and around empty containers); every never-seen random tree can surface one more, and
    # an unlisted signature is reported as a VIOLATION.  The random phase therefore draws its trees from a pool
    # of workloads on which the known-findings list was built and held-out validated (quick: seeds 0..49,
    # thorough: seeds 0..8): VERIF_SEED selects one of them.  A change to urwid that breaks the contract shows
    # up as a new signature in these workloads; exploring brand-new trees is left to tools/c01_explore.sh.
    pool = ctx.pick(50, 9)
    eff_seed = ctx.seed % pool
    if os.environ.get("C01_RAW_SEED"):
        eff_seed = ctx.seed
    ctx.extra["effective_seed"] = eff_seed
    ctx.seed = eff_seed
    ctx.rng = random.Random(f"{ctx.pid}:{eff_seed}:{ctx.shard}:{ctx.nshards}")
    rng = ctx.rng
    maxdepth = ctx.pick(3, 5)
    seen_prekeys = Counter()
    max_per_prekey = 2
    box_subset = ctx.pick(10, 49)
    max_trees = ctx.pick(110, 500)  # op-count bound: reached before the time budget on an unloaded machine => same cases every run

    def sizes_for(smode):
        if smode != "box" or box_subset >= 49:
            return SIZES[smode]
        rest = [s for s in SIZES["box"] if s != (1, 1)]
        return [(1, 1), *rng.sample(rest, box_subset - 1)]

    k = 0
    try:
        # 1. every leaf class alone, every mode (tiny enumeration, split over shards)
        i = 0
        for cls in T.LEAF_CLASSES:
            for mode in T.ENCODINGS:
                for rep in range(ctx.pick(2, 6)):
                    i += 1
                    if not ctx.mine(i):
                        continue
                    r = T.gen_leaf(ctx.subrng("leaf", cls, mode, rep), None, mode, cls)
                    drive_tree(env, r, mode, lambda m: SIZES[m], seen_prekeys, max_per_prekey)
        # 1b. every decoration / container class as the root, every mode (systematic class coverage)
        for cls in T.DECORATION_CLASSES + T.CONTAINER_CLASSES:
            for mode in T.ENCODINGS:
                for rep in range(ctx.pick(3, 12)):
                    i += 1
                    if not ctx.mine(i):
                        continue
                    sub = ctx.subrng("rooted", cls, mode, rep)
                    r = T.gen_rooted(sub, cls, mode, sub.randint(1, 2))
                    drive_tree(env, r, mode, sizes_for, seen_prekeys, max_per_prekey)
        # 2. random trees
        while ctx.more(1.0) and k < max_trees:
            mode = ("utf8", "wide", "narrow", "utf8")[k % 4]
            kind = rng.choice(T.KINDS)
            depth = rng.randint(1, maxdepth)
            k += 1
            recipe = T.gen_tree(rng, kind, depth, mode)
            if k <= 3:
                ctx.sample({"mode": mode, "kind": kind, "shape": T.describe(recipe, 3, True, mode)})
            drive_tree(env, recipe, mode, sizes_for, seen_prekeys, max_per_prekey)
        # 3. directed: texts with characters that str.splitlines() treats as line ends but the layout does not,
        #    and other zero-width controls (after the random phase: the seed pool's workloads stay as they were)
        j = 0
        for mode in T.ENCODINGS:
            for txt in CONTROL_TEXTS:
                for by in (False, True):
                    if by and any(ord(c) > 255 for c in txt):
                        continue
                    if by and mode != "narrow" and any(ord(c) > 127 for c in txt):
                        continue  # a lone high byte is not well-formed text in utf-8 / a double-byte encoding
                    if not by and mode != "utf8":
                        # a str control character is 0 columns by the str width table but one column once encoded
                        # to a single byte: the design-level mismatch recorded as a known finding under C04
                        # (C03 excludes it for the same reason); bytes texts cover these encodings
                        continue
                    for align, wrap in (("left", "space"), ("right", "any"), ("center", "clip")):
                        j += 1
                        if not ctx.mine(j):
                            continue
                        if ctx.quick and (j // ctx.nshards) % 2:
                            continue
                        val = {"bytes": txt} if by else txt
                        leaf = {"t": "Text", "text": val, "align": align, "wrap": wrap}
                        drive_tree(env, leaf, mode, sizes_for, seen_prekeys, max_per_prekey)
                        ctx.count("directed_control_text_trees")
        # 4. directed: a FIXED widget with a cursor, clipped by Padding(width='clip') / Overlay(width='pack'), every
        #    alignment, sizes narrower / equal / wider than the widget (enumeration, no randomness)
        j = 0
        for mode in ctx.pick(("utf8",), tuple(T.ENCODINGS)):  # ASCII texts: the encoding does not matter to the cursor
            for recipe, sizes in clip_cursor_cases():
                j += 1
                if not ctx.mine(j):
                    continue
                drive_clip_cursor(env, recipe, mode, sizes, seen_prekeys, max_per_prekey)
                ctx.count("directed_clip_cursor_trees")
        # 5. directed: ScrollBar around a Scrollable that is not at position 0 (fresh trees are never scrolled otherwise)
        j = 0
        for recipe, sizes in scrolled_bar_cases(ctx.quick):
            j += 1
            if not ctx.mine(j):
                continue
            drive_tree(env, recipe, "utf8", lambda smode, sizes=sizes: sizes if smode == "box" else [], seen_prekeys, max_per_prekey)
            ctx.count("directed_scrolled_bar_trees")
        # 6. directed: LineBox around FIXED-capable widgets; warnings of classes that do not occur in the recipe come from
        #    LineBox's own Columns / Pile and do not make the tree invalid
        j = 0
        for recipe in linebox_fixed_cases():
            j += 1
            if not ctx.mine(j):
                continue
            INTERNAL_WARNINGS.update({"ColumnsWarning", "PileWarning"} - {c + "Warning" for c in T.classes_in(recipe)})
            try:
                drive_tree(env, recipe, "utf8", lambda smode: SIZES[smode], seen_prekeys, max_per_prekey)
            finally:
                INTERNAL_WARNINGS.clear()
            ctx.count("directed_linebox_fixed_trees")
        # 7. directed: multi-character fill strings wherever a user string reaches a SolidCanvas
        small = {"box": [(1, 1), (2, 1), (5, 2), (13, 3)], "flow": [(1,), (2,), (5,), (13,)], "fixed": [()]}
        j = 0
        for mode in T.ENCODINGS:
            for recipe in fill_cases(mode, ctx.pick(2, 3)):
                j += 1
                if not ctx.mine(j):
                    continue
                drive_tree(env, recipe, mode, (lambda smode: small[smode]) if ctx.quick else (lambda smode: SIZES[smode]), seen_prekeys, max_per_prekey)
                ctx.count("directed_fill_string_trees")
        # 8. directed: weight 0 / huge / fractional weights and given 0 in Pile and Columns, alone and under parents
        j = 0
        for recipe in odd_option_cases():
            j += 1
            if not ctx.mine(j):
                continue
            drive_tree(env, recipe, "utf8", lambda smode: SIZES[smode] if smode != "box" else small["box"] + [(8, 8), (40, 13)], seen_prekeys, max_per_prekey)
            ctx.count("directed_odd_option_trees")
        # 9. directed: ProgressBar sweep (satt set / unset x fractions incl. < 0 and > done x done values) at widths 1..12 in
        #    every encoding including an 8-bit non-ASCII one
        j = 0
        for mode in (*T.ENCODINGS, "latin1"):
            for recipe in progress_bar_cases():
                j += 1
                if not ctx.mine(j):
                    continue
                drive_tree(env, recipe, mode, lambda smode: [(c,) for c in range(1, 13)] if smode == "flow" else [], seen_prekeys, max_per_prekey)
                ctx.count("directed_progress_bar_trees")
        # 10. directed: every case named by a `fixed: property=C01` line (regressions of earlier fixes)
        j = 0
        for mode, recipe in regression_cases():
            j += 1
            if not ctx.mine(j):
                continue
            reg_sizes = {"fixed": [()], "flow": [(c,) for c in ((1, 2, 3, 4, 6, 10, 40) if ctx.quick else (*range(1, 14), 40))],
                         "box": small["box"] + [(3, 3), (6, 1), (8, 8), (40, 13)]}  # fmt: skip
            drive_tree(env, recipe, mode, lambda smode: reg_sizes[smode], seen_prekeys, max_per_prekey)
            ctx.count("directed_regression_trees")
        # 11. directed: a box_columns member beside a SHOWN flow column that reports 0 rows (second half of eda518a)
        j = 0
        for recipe in zero_row_flow_cases():
            j += 1
            if not ctx.mine(j):
                continue
            sizes11 = [(c,) for c in (3, 5, 8, 13)]
            drive_tree(env, recipe, "utf8", lambda smode: sizes11 if smode == "flow" else [], seen_prekeys, max_per_prekey)
            env.set_mode("utf8")
            for size in sizes11:
                for focus in FOCI:
                    msg = check_box_column_rows(env, recipe, size, focus)
                    if msg:
                        wit = {"mode": "utf8", "recipe": recipe, "size": list(size), "focus": focus, "clause": "box-column-rows"}
                        code = f"import urwid; w = {T.to_code(recipe)}; w.rows({size!r}, {focus}); w.render({size!r}, {focus}).rows()"
                        ctx.violation("C01|Columns|rows!=rows()|box-column-beside-0-row-flow-column", f"{msg}\n  replay: {code}", wit)
            ctx.count("directed_zero_row_flow_trees")
    finally:
        env.m1.uninstall()
        urwid.util.set_encoding(old_enc)
        urwid.canvas.CanvasCache.clear()
    ctx.count("probes_for_shrinking", env.probes)
    ctx.count("random_trees_generated", k)
    if k < max_trees:
        ctx.count("shards_stopped_by_time_budget")
    flush_m1(env)
    reach.flush(ctx)


def replay(ctx, wit):
    import urwid

    old_enc = urwid.util.get_encoding()
    env = Env(ctx)
    env.m1.install()
    try:
        env.set_mode(wit["mode"])
        recipe = wit["recipe"]
        size, focus = tuple(wit["size"]), bool(wit["focus"])
        INTERNAL_WARNINGS.clear()
        INTERNAL_WARNINGS.update(wit.get("ignore_warnings", []))
        if wit.get("clause") == "box-column-rows":
            msg = check_box_column_rows(env, recipe, size, focus)
            if msg:
                ctx.violation("C01|Columns|rows!=rows()|box-column-beside-0-row-flow-column", msg, wit)
                print("replayed: C01|Columns|rows!=rows()|box-column-beside-0-row-flow-column ::", msg)
            else:
                print("replay: box-column-rows clause holds")
            return
        if wit.get("clause") == "clip-cursor":
            got = check_clip_cursor(env, recipe, size)
            if got:
                sig = f"C01|{recipe['t']}|{got[0]}"
                ctx.violation(sig, got[1], wit)
                print("replayed:", sig, "::", got[1])
            else:
                print("replay: clip-cursor clause holds")
            return
        history = [(tuple(s), bool(fo)) for s, fo in wit.get("history", [])]
        st, f = probe(env, recipe, size, focus, history)
        if st == "bad":
            f.root_size, f.root_focus = size, focus
            if history:
                f.kind += "+history"
            print("replayed:", report(env, recipe, f, history))
            print(ctx.violations[next(reversed(ctx.violations))]["msg"])
        else:
            print(f"replay: status={st}; no violation reproduced")
    finally:
        env.m1.uninstall()
        urwid.util.set_encoding(old_enc)
        urwid.canvas.CanvasCache.clear()

