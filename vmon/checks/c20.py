"""C20 scrollables and scrollbars: offline oracle evaluated after every render of a history.

Scrollable / ScrollBar(Scrollable) / ScrollBar(ListBox) are built over spy content whose rows are
unique, driven by JSON op histories, and after EVERY op the view is rendered and compared with an
independent rendering of the wrapped content ("full") made by the oracle itself:
the shown rows must be full[p:p+h] for some 0 <= p <= max(0,total-h); get_scrollpos() must be such a p;
the bar must be present iff total > h; the bar column must read trough*a thumb*b trough*c; a == 0 iff
p == 0; a is monotone in p; spies must have been handed view width - bar width; an event a spy
reported as handled must leave p unchanged.
"""

from __future__ import annotations

import json
import re
import resource
import signal
import traceback

from vmon import reach
from vmon.gen.c20_gen import Gen

PROPERTY = "C20"
LEVEL = "exploration"
SHARDS = {"quick": 8, "thorough": 16}
BUDGET = {"quick": 25.0, "thorough": 400.0}
# Every threshold is at most ~60 % of what the directed core cases alone deliver (they are bounded by count, not by time),
# so machine load cannot turn the unchanged tree inconclusive; `random_histories` guards that the random part ran at all.
REQUIRE = {
    "renders_judged": 10000,
    "clause_slice": 10000,
    "clause_slice_scrolled(p>0)": 5000,
    "clause_slice_blank_padded_rows": 800,
    "clause_slice_narrow_or_trimmed_cols": 120,
    "clause_pos": 10000,
    "clause_bar_present": 5000,
    "clause_bar_absent": 800,
    "clause_parts": 5000,
    "clause_top0_at_p0": 1200,
    "clause_top>0_at_p>0": 4000,
    "clause_monotone_pairs": 30000,
    "clause_handed_width": 1500,
    "clause_handled_key_p_unchanged": 60,
    "clause_handled_mouse_p_unchanged": 60,
    "ops:key": 3000,
    "ops:mouse": 1500,
    "ops:setpos": 2000,
    "ops:resize": 250,
    "ops:content": 100,
    "kind:S": 200,
    "kind:SB": 300,
    "kind:LB": 100,
    "random_histories": 40,
    "ops:bar_width_setter(n<1)": 25,
    "ops:bar_width_setter(n>=1)": 50,
    "ops:dive": 150,
    "clause_thumb_top_listbox_cursor_shown": 150,
    "clause_thumb_top_listbox_cursor_shown_scrolled(p>0)": 150,
    "lb_frames:focus-widget-is-falsy": 150,
    "lb_frames:focus-widget-object-at-several-positions": 250,
    "lb_frames:body-has-falsy-item_scrolled(p>0)": 400,
    "lb_frames:body-has-shared-widget-object": 500,
    "lb_frames:relative-mode_body-has-zero-row-items": 150,
    "frames_rendered_while_other_sizes_kept_alive": 250,
    "ops:valign": 60,
    "clause_thumb_listbox_relative_mode": 1000,
    "clause_thumb_custom_walker_relative_mode": 200,
    "clause_thumb_custom_walker_row_mode": 200,
    "clause_thumb_listbox_wraps_differently_beside_bar_relative_mode": 150,
    "clause_parts_relative_mode_wrapping_items_at_the_end": 40,
    "reach:widget.listbox.ListBox.get_first_visible_pos": 500,
    "reach:widget.listbox.ListBox.get_visible_amount": 500,
    "reach:widget.scrollable.Scrollable._adjust_trim_top": 5000,
    "reach:widget.scrollable.ScrollBar.render": 5000,
    "reach:widget.listbox.ListBox.get_scrollpos": 1000,
}
RULE = (
    "case = (content recipe, wrapper options, view size, focus flag, op list); content in {Text of unique words, RowSpy, "
    "WrapSpy, FixedSpy, Pile of spies/Text/Edit, ListBox of spies/Text}; wrapper in {Scrollable, ScrollBar(Scrollable), "
    "ScrollBar(ListBox)} x side x bar width 1..3 x thumb/trough chars; views (2..20)x(1..10); ops = scroll keys, other keys, "
    "mouse press/wheel, set_scrollpos(small/negative/huge), resize, focus flag, scrollbar_side / scrollbar_width setters (n in -3..4, oracle uses the reported width), "
    "content changes, focus moves, dives (cursor keys inside a tall Edit / cursor spy, then a shrink), "
    "sweeps; 20 (quick) / 50 (thorough) ops per random history plus two exhaustive small cores (set_scrollpos x short/long "
    "content; position sweeps for the thumb); the oracle runs after every op; distinct = distinct case descriptors; "
    "non-trivial = at least one render judged"
)
ASSUMES = [
    "'full rendering' = the wrapped widget's own render() at the width it must be handed (flow: (cols,), fixed: ()), with the same focus flag; for ListBox the concatenation of the item renderings",
    "'content has more rows than the view' is judged at the width the wrapped widget is actually handed (bar drawn: view width - bar width, else view width); in the circular case where the content is taller than the view at full width but fits beside the bar (urwid.Text can have MORE rows at a wider width) no arrangement is self-consistent and a bar beside fitting content is accepted",
    "with wrap option keep=per_size the harness keeps the last canvas of every (size, focus) alive (a widget shown in several places / frames kept by the program), so re-rendering an earlier size can be served from CanvasCache; the same clauses apply",
    "the harness keeps the last rendered frame alive (as a display module does), so CanvasCache hits are part of what is judged; spies are cacheable like ordinary widgets",
    "after an exception out of render() the history continues from a clean slate (held frame dropped, top widget invalidated), at most 3 exceptions per history",
    "when several offsets p match (repeated rows) the reported position only has to be one of them",
    "a view not wider than the bar (w <= bar width) cannot satisfy the statement at all; only 'renders a canvas of the view size without raising' is judged there",
    "'handled events are not also used for scrolling' is judged only for events a spy reported as handled while the wrapped content shows no cursor (Scrollable's follow-the-cursor adjustment after an Edit consumed a key is not counted as scrolling by that key)",
    "'the wrapped widget receives view width - bar width' is judged on the frame displayed (columns must equal the oracle's rendering at that width, spies carry a right-edge marker); trial renders ScrollBar makes at another width and discards are allowed",
    "text cells are compared, attributes are not",
    "the bar width the oracle uses is the one the scrollbar_width property reports after construction / after the setter (documented clamp max(1, n)); thumb and trough characters have no public setter and are only chosen at construction",
    "ListBox bodies may hold the same widget object at several positions and falsy widgets (empty Pile 0 rows, empty Columns / GridFlow 1 blank row, a spy with __len__ == 0 that has rows); the harness never explicitly focuses a 0-row item (C07), and any exception whose first listbox.py frame is not one of the scrolling-protocol methods is out of scope (C07)",
    "a blank trough without thumb beside blank content is indistinguishable from 'no bar': only in that case the ScrollBar's stored child size decides how the frame is read",
    "ListBox items otherwise have >= 1 row; list walkers are SimpleListWalker / SimpleFocusListWalker and a sized user ListWalker (get_focus/set_focus/get_next/get_prev/positions/__len__) with non-index positions (offset / stride ints, strings, tuples); thumb clauses are judged from the row geometry read off the canvas, never from position values",
]

TOPNAME = {"S": "Scrollable", "SB": "ScrollBar+Scrollable", "LB": "ScrollBar+ListBox"}
MAX_EXC = 3
CASE_TIMEOUT = 20.0  # seconds per history (observed worst on a loaded machine: < 2 s); firing => inconclusive, the shard goes on
MEM_LIMIT = 2 << 30  # address-space cap per shard: a runaway allocation becomes a MemoryError inside the case


class CaseTimeout(BaseException):
    pass


def _on_alarm(signum, frame):
    raise CaseTimeout


def run_guarded(case, counters=None):
    """run one history under the per-case watchdog -> Session, or None when the watchdog fired"""
    signal.signal(signal.SIGALRM, _on_alarm)
    signal.setitimer(signal.ITIMER_REAL, CASE_TIMEOUT)
    try:
        return Session(case, counters).run()
    except CaseTimeout:
        return None
    finally:
        signal.setitimer(signal.ITIMER_REAL, 0)


def canvas_rows(canv):
    return [b"".join(seg[2] for seg in row).decode("utf-8") for row in canv.content()]


class Session:
    def __init__(self, case, counters=None):
        import urwid

        self.u = urwid
        self.case = case
        self.cnt = counters if counters is not None else {}
        self.log = []
        self.viols = []  # (sig, msg)
        self.w, self.h = case["size"]
        self.focus = bool(case["focus"])
        wrap = case["wrap"]
        self.kind = wrap["kind"]
        self.topname = TOPNAME[self.kind]
        self.side = wrap.get("side", "right")
        self.bw = wrap.get("bw", 0) if self.kind != "S" else 0
        self.thumb = wrap.get("thumb", "#")
        self.trough = wrap.get("trough", ".")
        self.prev = None
        self.memo = {}
        self.nexc = 0
        self.judged = 0
        self.stepno = -1
        self.lastop = None
        self.epoch = 0
        self.fullcache = {}
        self.held = self.last_canv = self.last_tp = self.stale_canv = None
        self.build(case["content"], wrap)

    # ------------------------------------------------------------ construction
    def c(self, k, n=1):
        self.cnt[k] = self.cnt.get(k, 0) + n

    def make(self, r):
        from vmon.monitors import c20_spies as S

        u = self.u
        k = r[0]
        if k == "text":
            return u.Text("\n".join(r[1]), align=r[3], wrap=r[2])
        if k == "edit":
            return u.Edit(r[1], r[2], multiline=bool(r[3]))
        if k == "rowspy":
            return S.RowSpy(r[1], r[2], r[3], r[4], r[5], log=self.log, name=f"rowspy@{r[1]}")
        if k == "wrapspy":
            return S.WrapSpy(r[1], r[2], r[3], r[4], r[5], log=self.log, name=f"wrapspy@{r[1]}")
        if k == "falsyspy":
            return S.FalsyRowSpy(r[1], r[2], r[3], r[4], r[5], log=self.log, name=f"falsyspy@{r[1]}")
        if k == "emptypile":  # 0 rows, falsy
            return u.Pile([])
        if k == "emptycolumns":  # 1 blank row, falsy
            return u.Columns([])
        if k == "emptygridflow":  # 1 blank row, falsy
            return u.GridFlow([], 5, 1, 0, "left")
        if k == "shared":  # ["shared", key, recipe]: the SAME widget object wherever the key is used again
            if r[1] not in self.shared:
                self.shared[r[1]] = self.make(r[2])
            return self.shared[r[1]]
        if k == "cursorspy":
            return S.CursorSpy(r[1], r[2], r[3], r[4], log=self.log, name=f"cursorspy@{r[1]}")
        if k == "fixedspy":
            return S.FixedSpy(r[1], r[2], r[3], r[4], r[5], r[6], log=self.log, name=f"fixedspy@{r[1]}")
        raise ValueError(k)

    def build(self, content, wrap):
        u = self.u
        self.ckind = content[0]
        self.shared = {}
        self.keep = wrap.get("keep", "last")
        self.screen = {}
        self.c("keep:" + self.keep)
        self.items = None
        self.lb = None
        self.scr = None
        if self.ckind in ("pile", "listbox"):
            self.items = [self.make(r) for r in content[1]]
        if self.kind == "LB":
            from vmon.monitors.c20_spies import POSITION_SCHEMES, KeyedWalker

            wk = wrap.get("walker", "focus")
            self.poskey = POSITION_SCHEMES.get(wk, lambda i: i)  # index of an item -> its walker position
            self.custom_walker = wk in POSITION_SCHEMES
            self.c("walker:" + wk)
            if wk in POSITION_SCHEMES:
                body = KeyedWalker(self.items, wk)
            else:
                body = (u.SimpleFocusListWalker if wk != "simple" else u.SimpleListWalker)(list(self.items))
            self.lb = u.ListBox(body)
            if self.items and self.focusable(content[2] % len(self.items)) is not None:
                self.lb.set_focus(self.poskey(self.focusable(content[2] % len(self.items))))
            self.base = inner = self.lb
            self.cw = None
        else:
            if self.ckind == "pile":
                self.cw = u.Pile(list(self.items))
                self.cw.focus_position = content[2] % len(self.items)
            else:
                self.cw = self.make(content)
            self.scr = u.Scrollable(self.cw, force_forward_keypress=bool(wrap.get("ffk")))
            self.base = inner = self.scr
        if self.kind == "S":
            self.top = self.scr
        else:
            if wrap.get("deco"):
                inner = u.AttrMap(inner, None)
            self.top = u.ScrollBar(inner, thumb_char=self.thumb, trough_char=self.trough, side=self.side, width=self.bw)
            self.side, self.bw = self.top.scrollbar_side, int(self.top.scrollbar_width)  # as reported (width < 1 is clamped)

    # ------------------------------------------------------------ violations
    def viol(self, sig, msg):
        if not any(s == sig for s, _ in self.viols):
            self.viols.append((sig, f"{msg} [step {self.stepno} op={self.lastop} size={self.w}x{self.h} bw={self.bw}]"))

    # ------------------------------------------------------------ ops
    def seq(self):
        """the live sequence holding the Pile / ListBox items"""
        return self.cw.contents if self.kind != "LB" else self.lb.body

    def focusable(self, pos):
        """first index >= pos (cyclically) whose item is not a 0-row placeholder: explicitly focusing a 0-row item is
        C07's domain (ListBox cannot place it), so the harness never asks for it"""
        n = len(self.items)
        for d in range(n):
            it = self.items[(pos + d) % n]
            if not (isinstance(it, self.u.Pile) and not it.contents):
                return (pos + d) % n
        return None

    def target(self, path):
        if path == -1 or self.items is None:
            return self.cw if path == -1 else None
        n = len(self.items)
        return self.items[path % n] if n else None

    def apply(self, op):
        u = self.u
        k = op[0]
        size = (self.w, self.h)
        if k == "key":
            self.top.keypress(size, op[1])
        elif k == "mouse":
            self.top.mouse_event(size, op[1], op[2], op[3] % self.w, op[4] % self.h, self.focus)
        elif k == "setpos":
            if self.scr is not None:
                self.scr.set_scrollpos(op[1])
        elif k == "resize":
            self.w, self.h = op[1], op[2]
        elif k == "focus":
            self.focus = bool(op[1])
        elif k == "bar":
            if self.kind != "S":
                # public setters after construction; the documented clamp makes the effective width max(1, n):
                # the oracle uses what the properties REPORT afterwards
                self.top.scrollbar_side = op[1]
                self.top.scrollbar_width = op[2]
                self.side, self.bw = self.top.scrollbar_side, int(self.top.scrollbar_width)
                self.c("ops:bar_width_setter(n<1)" if op[2] < 1 else "ops:bar_width_setter(n>=1)")
        elif k == "setfocus":
            if self.items:
                pos = op[1] % len(self.items)
                if self.kind == "LB":
                    pos = self.focusable(pos)
                    if pos is not None:
                        self.lb.set_focus(self.poskey(pos))
                else:
                    self.cw.focus_position = pos
        elif k == "settext":
            t = self.target(op[1])
            if isinstance(t, u.Edit):
                t.set_edit_text("\n".join(op[2]) if t.multiline else " ".join(op[2]))
            elif isinstance(t, u.Text):
                t.set_text("\n".join(op[2]))
            else:
                self.c("ops_noop")
        elif k == "setrows":
            t = self.target(op[1])
            if hasattr(t, "set_rows"):
                t.set_rows(max(op[2], 1) if self.items is not None else op[2])
            else:
                self.c("ops_noop")
        elif k == "valign":
            if self.kind == "LB":
                self.lb.set_focus_valign(op[1])
        elif k == "setcols":
            if hasattr(self.cw, "set_cols"):
                self.cw.set_cols(op[1])
        elif k == "add":
            if self.items is not None:
                wdg = self.make(op[2])
                pos = op[1] % (len(self.items) + 1)
                self.items.insert(pos, wdg)
                self.seq().insert(pos, (wdg, ("pack", None)) if self.kind != "LB" else wdg)
        elif k == "del":
            if self.items is not None and len(self.items) > (1 if self.kind != "LB" else 0):
                pos = op[1] % len(self.items)
                del self.items[pos]
                del self.seq()[pos]
        else:
            raise ValueError(f"unknown op {op!r}")

    def expand_sweep(self, mode):
        total = self.prev["total"] if self.prev else self.h + 8
        span = min(max(0, total - self.h) + 2, 36)
        if mode == "pos":
            return [["setpos", k] for k in range(span)]
        if mode == "keys":
            return [["key", "home"]] + [["key", "down"]] * span
        return [["key", "home"]] + [["mouse", "mouse press", 5, 0, 0]] * span

    def run(self):
        self.lastop = "initial"
        self.prev = self.observe()
        for op in self.case["ops"]:
            if self.nexc >= MAX_EXC:
                break
            if op[0] == "dive":  # k x 'down' (moves a cursor inside a tall focus item), then shrink the view
                self.c("ops:dive")
                for sub in [["key", "down"]] * op[1] + [["resize", op[2], op[3]]]:
                    self.step(sub)
            elif op[0] == "sweep":
                self.c("ops:sweep")
                for sub in self.expand_sweep(op[1]):
                    self.step(sub)
            else:
                self.step(op)
        return self

    def step(self, op):
        self.stepno += 1
        k = op[0]
        self.lastop = k if k not in ("key", "mouse") else f"{k}:{op[1] if k == 'key' else op[2]}"
        self.c("ops_applied")
        self.c("ops:" + ("content" if k in ("settext", "setrows", "setcols", "add", "del") else k))
        mark = len(self.log)
        if k in ("settext", "setrows", "setcols", "add", "del", "setfocus", "focus", "valign") or (k in ("key", "mouse") and self.has_edit()):
            self.epoch += 1
        try:
            self.apply(op)
        except Exception as e:  # noqa: BLE001
            self.nexc += 1
            if self.listbox_internal(e):
                return
            self.viol(self.exc_sig(f"op:{k}", e), f"{type(e).__name__}: {e}\n{traceback.format_exc(limit=5)}")
        handled_key = [e for e in self.log[mark:] if e[0] == "keypress" and e[-1] is True]
        handled_mouse = [e for e in self.log[mark:] if e[0] == "mouse_event" and e[-1] is True]
        prev = self.prev
        obs = self.observe()
        if obs and prev and (handled_key or handled_mouse) and k in ("key", "mouse"):
            self.judge_handled(prev, obs, "key" if handled_key else "mouse")
        self.prev = obs

    def judge_handled(self, prev, obs, what):
        if self.has_edit() or prev["cursor"] or obs["cursor"] or prev["fp"] != obs["fp"] or len(prev["P"]) != 1:
            self.c("handled_event_not_judged(cursor/ambiguous)")
            return
        self.c(f"clause_handled_{what}_p_unchanged")
        if prev["P"][0] not in obs["P"]:
            self.viol(
                f"C20|{self.topname}|handled-{what}-also-scrolled|content={self.ckind}",
                f"a {what} event the wrapped spy reported as handled moved the view from p={prev['P'][0]} to p in {obs['P']}",
            )

    def lb_shape(self):
        """abstract shape of a ListBox body for signatures: is the focus widget falsy / present at several positions"""
        if self.kind != "LB" or not len(self.lb.body):
            return ""
        fw = self.lb.body.get_focus()[0]
        if fw is None:
            return ""
        try:
            falsy = not fw
        except Exception:  # noqa: BLE001
            falsy = False
        if falsy:
            return "|focus-widget-is-falsy"
        if sum(1 for x in self.lb.body if x is fw) > 1:
            return "|focus-widget-object-at-several-positions"
        return ""

    def listbox_internal(self, e):
        """an exception raised inside listbox.py although the ListBox was handed a valid size: ListBox's own
        focus/paging machinery (C07), not the scrolling protocol -> not judged here; the history stops"""
        if self.kind != "LB":
            return False
        # the first listbox.py frame on the way down decides: entered through the scrolling protocol (C20) or through
        # ListBox's own render / keypress / mouse_event / focus handling (incl. whatever that calls in an item widget)
        tb, first = e.__traceback__, None
        while tb is not None and first is None:
            code = tb.tb_frame.f_code
            if code.co_filename.endswith("/urwid/widget/listbox.py"):
                first = code.co_name
            tb = tb.tb_next
        if first and first not in ("get_scrollpos", "rows_max", "require_relative_scroll", "get_first_visible_pos", "get_visible_amount"):
            self.c("out_of_scope:listbox-internal-error(C07)")
            self.nexc = MAX_EXC
            return True
        return False

    def exc_sig(self, where, e):
        """mechanism signature of an exception: one per abstract shape of the view, not per op / wrapped class"""
        if self.kind != "S" and self.w <= self.bw:
            return "C20|ScrollBar|view-width<=bar-width|raises"  # child handed <= 0 columns, whatever blows up first
        if self.kind != "S" and where == "render":
            m = re.search(r"<ScrollBar .* rendered \((\d+) x (\d+)\) canvas when passed size \((\d+), (\d+)\)", str(e), re.S)
            if m and int(m.group(1)) == int(m.group(3)) and int(m.group(2)) > int(m.group(4)):
                # the bar column came out taller than the view; name the situation it happened in
                try:
                    total = self.full(self.w - self.bw)[1]
                except Exception:  # noqa: BLE001
                    total = None
                if self.h == 1:
                    shape = "one-row-view"
                elif total is not None and total <= self.h:
                    shape = "content-fits-at-handed-width"
                else:
                    shape = "content-taller-than-view"
                return f"C20|ScrollBar|render|bar-taller-than-view|{shape}|raise:{type(e).__name__}"
        return f"C20|{self.topname}|{where}|ordinary-view|raise:{type(e).__name__}"

    # ------------------------------------------------------------ oracle
    def full(self, cwid):
        """the oracle's own rendering of the wrapped content at content width cwid -> (rows, total, has_cursor)"""
        key = (self.epoch, cwid)
        if key in self.fullcache:
            return self.fullcache[key]
        if len(self.fullcache) > 8:
            self.fullcache.clear()
        res = self.fullcache[key] = self._full(cwid)
        return res

    def has_edit(self):
        from vmon.monitors.c20_spies import CursorSpy

        return any(isinstance(x, (self.u.Edit, CursorSpy)) for x in (self.items or [self.cw]))

    def _full(self, cwid):
        mark = len(self.log)
        try:
            if self.kind == "LB":
                rows = []
                cursor = False
                fw = self.lb.body.get_focus()[0] if len(self.lb.body) else None
                for wdg in self.lb.body:
                    cv = wdg.render((cwid,), self.focus and wdg is fw)
                    cursor = cursor or cv.cursor is not None
                    rows.extend(canvas_rows(cv))
                return rows, len(rows), cursor
            flow = self.u.FLOW in self.cw.sizing()
            cv = self.cw.render((cwid,) if flow else (), self.focus)
            rows = canvas_rows(cv)
            return rows, len(rows), cv.cursor is not None
        finally:
            del self.log[mark:]

    def match(self, region, cwid, lo=None, hi=None):
        full, total, cursor = self.full(cwid)
        h = self.h
        maxp = max(0, total - h)
        blank = " " * cwid
        exp = [r[:cwid].ljust(cwid) for r in full]
        P = []
        for p in range(0 if lo is None else lo, (maxp if hi is None else hi) + 1):
            ok = True
            for i in range(h):
                j = p + i
                if region[i] != (exp[j] if 0 <= j < total else blank):
                    ok = False
                    break
            if ok:
                P.append(p)
        return {"full": full, "total": total, "P": P, "cursor": cursor, "cwid": cwid, "maxp": maxp}

    def diagnose(self, region, cwid):
        m = self.match(region, cwid, lo=-self.h, hi=None)
        total = m["total"]
        m2 = self.match(region, cwid, lo=-self.h, hi=total + 1)
        rel = "content-fits-view" if total <= self.h else "content-taller-than-view"
        if any(p < 0 for p in m2["P"]):
            return f"blank-rows-above-content(p<0)|{rel}"
        if m2["P"]:
            return f"blank-rows-below-content(p>total-h)|{rel}"
        if self.kind == "LB" or self.u.FLOW in self.cw.sizing():
            for other in range(1, self.w + 4):
                if other != cwid:
                    mo = self.match([r[:other].ljust(other) for r in region], other, lo=-self.h, hi=None)
                    if mo["P"] and mo["total"]:
                        return f"content-rendered-at-another-width|{rel}"
        return f"rows-are-not-a-contiguous-slice|{rel}"

    def observe(self):
        w, h, focus = self.w, self.h, self.focus
        mark = len(self.log)
        try:
            canv = self.top.render((w, h), focus)
            # like the display module, keep exactly the last frame alive so CanvasCache (weak refs) really serves hits
            self.held = canv
            if self.keep == "per_size":
                # a layout showing the widget in several places / a program keeping frames: the last canvas of EVERY
                # (size, focus) stays alive, so a re-render at an earlier size can be served from the cache
                self.screen[(w, h, focus)] = canv
                if len(self.screen) > 1:
                    self.c("frames_rendered_while_other_sizes_kept_alive")
            prev_canv, prev_tp = self.last_canv, self.last_tp
            self.last_canv, self.last_tp = canv, None
            shown = canvas_rows(canv)
        except Exception as e:  # noqa: BLE001
            self.nexc += 1
            if not self.listbox_internal(e):
                self.viol(self.exc_sig("render", e), f"{type(e).__name__}: {e}\n{traceback.format_exc(limit=5)}")
            # a real program would have died here; the history goes on from a clean slate (no frame kept from
            # before the failed render, nothing cached for the top widget)
            self.held = self.last_canv = None
            self.screen.clear()
            self.top._invalidate()
            self.base._invalidate()
            return None
        if self.kind == "LB" and self.lb_shape():
            self.c("lb_frames:" + self.lb_shape()[1:])  # rendered frames (judged or reported) with that body shape
        spy_renders = {}
        for e in self.log[mark:]:
            if e[0] == "render":
                spy_renders.setdefault(e[1], []).append(tuple(e[2]))
        if canv.cols() != w or canv.rows() != h or any(len(r) != w for r in shown):
            self.viol(f"C20|{self.topname}|render|canvas-size-differs-from-view", f"canvas {canv.cols()}x{canv.rows()} for view {w}x{h}")
            return None

        bw = self.bw
        drawn = False
        barseq = None
        if self.kind == "S":
            m = self.match(shown, w)
            if not m["P"]:
                self.c("clause_slice")
                self.viol(f"C20|{self.topname}|slice|{self.diagnose(shown, w)}|content={self.ckind}", f"shown={shown!r} full={m['full']!r}")
                return None
        else:
            if w <= bw:
                self.c("narrow_view_rendered_without_raising")
                return None
            A = self.match(shown, w)
            if self.side == "right":
                region, bar = [r[: w - bw] for r in shown], [r[w - bw :] for r in shown]
            else:
                region, bar = [r[bw:] for r in shown], [r[:bw] for r in shown]
            barseq = "".join("T" if b == self.thumb * bw else "t" if b == self.trough * bw else "?" for b in bar)
            B = self.match(region, w - bw)
            shape_ok = re.fullmatch(r"t*T*t*", barseq) is not None
            okA = bool(A["P"]) and A["total"] <= h
            # circular case (content taller than the view at full width but not at width - bar): no arrangement is
            # self-consistent, a bar beside fitting content is accepted there
            circular = A["total"] > h >= B["total"]
            if circular:
                self.c("bar_circular_case(taller-at-full-width-only)")
            okB = bool(B["P"]) and (B["total"] > h or circular) and "?" not in barseq
            if okB and "T" not in barseq and self.trough == " " and A["P"] and not okA:
                # a blank trough without thumb beside blank content reads the same as "no bar at all": the frame is
                # ambiguous, so (only here) ask the ScrollBar which width it handed to its child
                self.c("ambiguous_blank_bar_resolved_by_child_size")
                if getattr(self.top, "_original_widget_size", (None,))[0] == w:
                    okB = False
            if okB and (not okA or "T" in barseq):
                drawn, m = True, B
                self.c("clause_bar_present")
                self.c("clause_parts")
                if not shape_ok:
                    pat = re.sub(r"(.)\1*", r"\1", barseq)
                    self.viol(f"C20|{self.topname}|bar-parts|not-trough-thumb-trough|pattern={pat}", f"bar column reads {barseq!r}")
                    return None
            elif okA:
                m = A
                self.c("clause_bar_absent")
            else:
                self.c("clause_slice")
                if A["P"] and A["total"] > h:
                    self.viol(f"C20|{self.topname}|bar-missing|content-taller-than-view|content={self.ckind}{self.lb_shape()}", f"total={A['total']} h={h} shown={shown!r}")
                elif B["P"] and "?" not in barseq and B["total"] <= h:
                    shape = ""
                    if self.kind == "LB":
                        shape = "|relative-mode" if self.lb.require_relative_scroll((w, h), focus) else "|row-mode"
                        if any(x.rows((w - bw,), False) == 0 for x in self.lb.body):
                            shape += "|body-has-zero-row-items"
                    self.viol(f"C20|{self.topname}|bar-drawn|content-fits-view|content={self.ckind}{shape}", f"total={B['total']} h={h} shown={shown!r}")
                elif "T" in barseq and "?" not in barseq:
                    self.viol(f"C20|{self.topname}|slice-beside-bar|{self.diagnose(region, w - bw)}|content={self.ckind}", f"shown={shown!r} full={B['full']!r}")
                else:
                    self.viol(f"C20|{self.topname}|slice|{self.diagnose(shown, w)}|content={self.ckind}", f"shown={shown!r} full(w)={A['full']!r} bar={barseq!r}")
                return None

        # ---- clause: slice
        total, P, cwid = m["total"], m["P"], m["cwid"]
        self.judged += 1
        self.c("renders_judged")
        self.c("clause_slice")
        if len(P) == 1:
            self.c("clause_slice_unique_p")
        if P[0] > 0:
            self.c("clause_slice_scrolled(p>0)")
        if total < h:
            self.c("clause_slice_blank_padded_rows")
        if m["full"] and len(m["full"][0]) != cwid:
            self.c("clause_slice_narrow_or_trimmed_cols")
        if total == h:
            self.c("shape:total==h")
        elif total == h + 1:
            self.c("shape:total==h+1")

        if self.kind == "LB":
            if any(isinstance(x, self.u.Pile) and not x.contents for x in self.lb.body) and self.lb.require_relative_scroll((w, h), focus):
                self.c("lb_frames:relative-mode_body-has-zero-row-items")
            if any(not x for x in self.lb.body):
                self.c("lb_frames:body-has-falsy-item" + ("_scrolled(p>0)" if P[0] > 0 else "_at-top"))
            if len({id(x) for x in self.lb.body}) < len(self.lb.body):
                self.c("lb_frames:body-has-shared-widget-object")

        # ---- clause: reported position
        self.c("clause_pos")
        try:
            reported = self.base.get_scrollpos((cwid, h), focus)
        except Exception as e:  # noqa: BLE001
            self.viol(f"C20|{self.topname}|get_scrollpos|raise:{type(e).__name__}", f"{type(e).__name__}: {e}")
            reported = None
        if reported is not None and reported not in P:
            rel = "content-fits-view" if total <= h else "content-taller-than-view"
            if total <= h:
                how = "not-reset-to-0"
            elif reported < 0:
                how = "negative"
            elif reported > m["maxp"]:
                how = "beyond-last-position"
            else:
                how = "in-range-but-not-the-shown-offset"
            self.viol(
                f"C20|{type(self.base).__name__}|get_scrollpos!=shown-offset|reported={how}|{rel}",
                f"get_scrollpos()={reported} but the view shows full[p:p+h] for p in {P} (total={total}, h={h})",
            )
        p = reported if reported in P else P[0]

        # ---- clause: handed width
        # (the displayed columns already matched the oracle's rendering at width cwid, edge marker included; the log adds:
        # every spy that was rendered for this frame was rendered at the expected size.  ScrollBar may also make a trial
        # render at another width and discard it, and the expected size may come from CanvasCache: a frame whose log
        # lacks the expected size is therefore not judged by the log.)
        if spy_renders:
            for name, sizes in spy_renders.items():
                want = () if name.startswith("fixedspy") else (cwid,)
                if want in sizes:
                    self.c("clause_handed_width")
                    if sizes[-1] != want:
                        self.c("handed_width_trial_render_at_other_size_discarded")
                else:
                    self.c("handed_width_not_judged_by_log(expected size served from cache)")

        # ---- clauses on the thumb
        if drawn:
            a = len(barseq) - len(barseq.lstrip("t"))
            b = barseq.count("T")
            top = a if b else h
            if b == 0:
                self.c("bar_without_thumb")
            if self.kind == "LB":
                rel = bool(self.lb.require_relative_scroll((w, h), focus))  # asked for the coverage counters only
                if rel:
                    self.c("clause_thumb_listbox_relative_mode")
                if self.custom_walker:
                    self.c("clause_thumb_custom_walker" + ("_relative_mode" if rel else "_row_mode"))
                if A["total"] != B["total"]:
                    self.c("clause_thumb_listbox_wraps_differently_beside_bar" + ("_relative_mode" if rel else ""))
                    if rel and p >= m["maxp"]:
                        self.c("clause_parts_relative_mode_wrapping_items_at_the_end")
            if self.kind == "LB" and m["cursor"]:
                self.c("clause_thumb_top_listbox_cursor_shown")
                if p:
                    self.c("clause_thumb_top_listbox_cursor_shown_scrolled(p>0)")
            if p == 0:
                self.c("clause_top0_at_p0")
            else:
                self.c("clause_top>0_at_p>0")
            if (top == 0) != (p == 0):
                how = "thumb-at-top-while-first-row-scrolled-out" if top == 0 else "thumb-off-top-while-first-row-shown"
                mode = ""
                if self.kind == "LB":
                    mode = "|relative-mode" if self.lb.require_relative_scroll((w, h), focus) else "|row-mode"
                    first = next(iter(self.lb.body), None)
                    if p == 0 and first is not None and first.rows((cwid,), False) == 0:
                        mode += "|list-starts-with-a-zero-row-item"
                self.viol(f"C20|{self.topname}|thumb-top|{how}{mode}", f"bar={barseq!r} p={p} P={P} total={total} h={h}")
            # the very same canvas object as the previous frame although total rows / offset changed: the ScrollBar
            # canvas was served from CanvasCache across a change that happened off screen (classification only)
            stale = canv is self.stale_canv
            if canv is prev_canv and prev_tp is not None and (total, p) != prev_tp:
                stale, self.stale_canv = True, canv  # stays stale for as long as this very canvas keeps being served
                self.c("bar_frame_from_cache_although_total_or_offset_changed")
            if len(P) == 1:
                fp = (hash(tuple(m["full"])), w, h, bw, focus)
                tab = self.memo.setdefault(fp, {})
                # the mode THIS frame was drawn in; the same rows can be drawn in either mode (zero-row items count for
                # len(body) but not for the rows), and a pair is attributed to relative mode if either frame used it
                rel = self.kind == "LB" and bool(self.lb.require_relative_scroll((w, h), focus))
                for p2, (top2, stale2, rel2) in tab.items():
                    if p2 != p:
                        self.c("clause_monotone_pairs")
                        if (p2 < p and top2 > top) or (p2 > p and top2 < top):
                            why = "|bar-cached-across-off-screen-content-change" if (stale or stale2) else ""
                            if self.kind == "LB" and not why:
                                if rel != rel2:
                                    self.c("monotone_pair_across_relative_and_row_mode")
                                why = "|relative-mode" if (rel or rel2) else "|row-mode"
                            self.viol(
                                f"C20|{self.topname}|thumb-not-monotone{why}",
                                f"same content/size: p={p2} -> top={top2}, p={p} -> top={top} (h={h}, total={total})",
                            )
                    elif top2 != top:
                        self.c("same_p_different_top")
                tab[p] = (top, stale, rel)
        self.last_tp = (total, p)
        return {"P": P, "total": total, "cursor": m["cursor"], "fp": (hash(tuple(m["full"])), w, h, bw), "drawn": drawn}


# ---------------------------------------------------------------- driving


def sigs_of(case):
    try:
        s = run_guarded(case)
    except Exception:  # noqa: BLE001
        return set()
    return {sig for sig, _ in s.viols} if s is not None else set()


def shrink(case, sig, limit=250):
    """greedy reduction of the op list, then of the content, keeping the same signature"""
    runs = 0
    case = json.loads(json.dumps(case))
    ops = case["ops"]
    for n in range(len(ops) + 1):
        runs += 1
        if sig in sigs_of(dict(case, ops=ops[:n])):
            ops = ops[:n]
            break
    changed = True
    while changed and runs < limit:
        changed = False
        for i in range(len(ops) - 1, -1, -1):
            cand = ops[:i] + ops[i + 1 :]
            runs += 1
            if sig in sigs_of(dict(case, ops=cand)):
                ops = cand
                changed = True
            if runs >= limit:
                break
    case["ops"] = ops
    content = case["content"]
    if content[0] in ("pile", "listbox"):
        i = len(content[1]) - 1
        while i >= 0 and runs < limit and len(content[1]) > 1:
            cand = [content[0], content[1][:i] + content[1][i + 1 :], 0]
            runs += 1
            if sig in sigs_of(dict(case, content=cand)):
                content = cand
            i -= 1
        case["content"] = content
    for key in ("deco", "ffk"):
        if case["wrap"].get(key):
            cand = dict(case, wrap=dict(case["wrap"], **{key: False}))
            if sig in sigs_of(cand):
                case = cand
    return case


def run_case(ctx, case, state, do_shrink=True):
    cnt = {}
    s = run_guarded(case, cnt)
    for k, v in cnt.items():
        ctx.count(k, v)
    if s is None:
        ctx.count("case_watchdog_fired")
        ctx.inconc(f"case-watchdog: a history did not finish within {CASE_TIMEOUT:.0f} s")
        ctx.extra.setdefault("timed_out_case", case)
        return None
    ctx.count("kind:" + case["wrap"]["kind"])
    ctx.count("content:" + case["content"][0])
    ctx.case(json.dumps(case, sort_keys=True), nontrivial=s.judged > 0)
    for sig, msg in s.viols:
        seen = state.setdefault(sig, 0)
        state[sig] = seen + 1
        wit = case
        if do_shrink and seen < 2:
            wit = shrink(case, sig)
        elif seen >= 2 and len(case["ops"]) > 6:
            ctx.count("violations_raw")  # counted, but a long unshrunk witness is not worth keeping
            continue
        ctx.violation(sig, msg, wit)
    return s


def core_cases(quick):
    """two small exhaustive cores: set_scrollpos on short/long content, and position sweeps for the thumb"""
    out = []
    for kind in ("S", "SB"):
        for total in range(0, 7):
            for h in range(1, 5):
                for v in range(-8, 9):
                    wrap = {"kind": kind, "side": "right", "bw": 1, "thumb": "#", "trough": "."}
                    out.append({"content": ["rowspy", 0, total, False, [], []], "wrap": wrap, "size": [5, h], "focus": True, "ops": [["setpos", v]]})
    for h in range(1, 11):
        for extra in range(1, 13):
            for w, bw, side in ((3, 1, "right"), (8, 2, "left"), (8, 3, "right"), (4, 1, "left")):
                wrap = {"kind": "SB", "side": side, "bw": bw, "thumb": "#", "trough": "."}
                out.append(
                    {"content": ["rowspy", 0, h + extra, False, [], []], "wrap": wrap, "size": [w, h], "focus": False, "ops": [["sweep", "pos"], ["sweep", "keys"]]}
                )
    # events the wrapped spy reports as handled, from a scrolled position where every one of them could scroll
    allkeys = ["up", "down", "page up", "page down", "home", "end"]
    evs = [["setpos", 2]] + [op for k in allkeys for op in (["key", k], ["setpos", 2])]
    evs += [["mouse", "mouse press", 5, 0, 0], ["mouse", "mouse press", 4, 0, 0], ["mouse", "mouse press", 5, 1, 1]]
    evs += [op for b in (4, 5, 5, 4) for op in (["mouse", "mouse press", b, 2, 0], ["setpos", 3])]
    for kind in ("S", "SB"):
        for h in (2, 3, 5):
            for shape in ("rowspy", "pile", "fixedspy"):
                spy = ["rowspy", 0, h + 5, True, allkeys, [4, 5]]
                if shape == "pile":
                    content = ["pile", [spy, ["rowspy", 50, 2, False, [], []]], 0]
                elif shape == "fixedspy":
                    content = ["fixedspy", 0, 4, h + 5, True, allkeys, [4, 5]]
                else:
                    content = spy
                wrap = {"kind": kind, "side": "left", "bw": 1, "thumb": "#", "trough": "."}
                out.append({"content": content, "wrap": wrap, "size": [6, h], "focus": True, "ops": evs})
    for h in range(1, 9):
        for nitems in (h + 1, 2 * h + 1, 3 * h + 1, 3 * h + 4, 30):
            for rows_each in (1, 2, 3):
                wrap = {"kind": "LB", "side": "right", "bw": 1, "thumb": "#", "trough": ".", "walker": "focus"}
                items = [["rowspy", 3 * i, rows_each, True, [], []] for i in range(nitems)]
                out.append({"content": ["listbox", items, 0], "wrap": wrap, "size": [6, h], "focus": True, "ops": [["sweep", "keys"], ["sweep", "wheel"]]})
    # ListBox items of different heights in relative mode (19 items > 3*6), and an off-screen item that grows
    lbwrap = {"kind": "LB", "side": "right", "bw": 1, "thumb": "#", "trough": ".", "walker": "focus"}
    heights = [1, 2, 4, 4, 3, 1, 1, 1, 1, 1, 5, 1, 1, 4, 1, 1, 2, 1, 3]
    items = [["rowspy", 6 * i, n, False, [], []] for i, n in enumerate(heights)]
    out.append({"content": ["listbox", items, 0], "wrap": lbwrap, "size": [4, 6], "focus": True, "ops": [["sweep", "keys"], ["sweep", "wheel"]]})
    items = [["rowspy", 30 * i, 1, False, [], []] for i in range(12)]
    wheel = ["mouse", "mouse press", 5, 0, 0]
    ops = [wheel, wheel, ["setrows", 0, 26], ["mouse", "mouse press", 4, 0, 0], ["mouse", "mouse press", 4, 0, 0]]
    out.append({"content": ["listbox", items, 0], "wrap": lbwrap, "size": [6, 4], "focus": True, "ops": ops})
    # public setters after construction: scrollbar_width = n for n in -3..4 (effective width = max(1, n) as reported)
    for kind, content in (("SB", ["rowspy", 0, 9, False, [], []]), ("SB", ["rowspy", 0, 2, False, [], []]), ("LB", ["listbox", [["rowspy", 5 * i, 1, False, [], []] for i in range(9)], 0])):
        for n in range(-3, 5):
            for side in ("left", "right"):
                wrap = {"kind": kind, "side": "right", "bw": 1, "thumb": "#", "trough": ".", "walker": "focus"}
                ops = [["bar", side, n], ["key", "down"], ["resize", 9, 3], ["bar", side, 2], ["bar", "right", n]]
                out.append({"content": content, "wrap": wrap, "size": [7, 4], "focus": True, "ops": ops})
    # ListBox in row mode whose focus item has a cursor and is taller than the shrunk view: cursor keys while
    # everything fits, then a shrink, rendered with and without focus
    for tall in ("edit", "cursorspy"):
        for nl in (6, 9):
            for k in (2, 5, nl - 1):
                for h2 in (1, 2, 3):
                    for foc in (True, False):
                        for pre in (0, 1):
                            it = ["edit", "", "\n".join(f"L{j}" for j in range(nl)), True] if tall == "edit" else ["cursorspy", 0, nl, [], []]
                            items = [["rowspy", 100, 1, False, [], []]] * pre + [it, ["rowspy", 200, 2, False, [], []]]
                            ops = [["dive", k, 6, h2], ["key", "down"], ["key", "up"], ["resize", 6, 12], ["dive", 1, 5, h2]]
                            out.append({"content": ["listbox", items, pre], "wrap": lbwrap, "size": [6, 12], "focus": foc, "ops": ops})
    # fixed content narrower / wider than the view with content changes and resizes
    for kind in ("S", "SB"):
        for cols in (2, 5, 6, 9):
            for h in (2, 4):
                wrap = {"kind": kind, "side": "right", "bw": 1, "thumb": "#", "trough": "."}
                ops = [["setpos", 2], ["setcols", 3], ["setrows", -1, 2], ["setrows", -1, h + 4], ["resize", 5, 3], ["setcols", 9], ["key", "end"], ["setrows", -1, 0], ["resize", 6, h], ["setrows", -1, h + 1], ["setcols", 6]]
                out.append({"content": ["fixedspy", 0, cols, h + 3, False, [], []], "wrap": wrap, "size": [6, h], "focus": True, "ops": ops})
    # relative mode (> 3*h items) with item lines right at the view width / the width beside the bar, driven to the end
    k = 0
    for W, bar in ((6, 1), (9, 2), (12, 1)):
        for h in (3, 7, 10):  # the bar only overflows when (h - thumb) * (pos / posmax - 1) >= 1: needs the taller views
            for tw in (W - bar - 1, W - bar, W - bar + 1, W - 1, W, W + 1):
                n = 3 * h + 1 + (k % 3)
                k += 1
                items = [["text", [(f"{i:02d}" + "".join(chr(97 + (i + j) % 26) for j in range(tw)))[:tw]], "any", "left"] for i in range(n)]
                wrap = {"kind": "LB", "side": "right" if k % 2 else "left", "bw": bar, "thumb": "#", "trough": ".", "walker": "focus"}
                ops = [["key", "page down"]] * 6 + [["key", "end"], ["key", "page up"], ["setfocus", -1], ["key", "home"], ["setfocus", -1], ["key", "up"]]
                out.append({"content": ["listbox", items, 0], "wrap": wrap, "size": [W, h], "focus": bool(k % 4), "ops": ops})
    # user list walkers whose positions are not 0-based indexes, in relative and in row mode
    for scheme in ("offset1", "offset1000", "negative", "stride10", "str", "tuple"):
        for h, n in ((2, 8), (4, 14), (4, 9), (1, 5)):
            for rows_each in (1, 2):
                items = [["rowspy", 3 * i, rows_each, bool(i % 2), [], []] for i in range(n)]
                wrap = {"kind": "LB", "side": "right", "bw": 1, "thumb": "#", "trough": ".", "walker": scheme}
                ops = [["sweep", "keys"], ["key", "page down"], ["key", "end"], ["key", "page up"], ["setfocus", 1], ["del", 0], ["key", "home"], ["add", 0, ["rowspy", 300, 1, True, [], []]], ["key", "home"], ["sweep", "wheel"]]
                out.append({"content": ["listbox", items, 0], "wrap": wrap, "size": [7, h], "focus": True, "ops": ops})
    # the SAME widget object at several positions of a ListBox in row mode (shared divider / the same Text thrice),
    # focus on each occurrence and on the items between
    walkers = ("focus", "simple", "offset1", "str")
    k = 0
    for shared_inner in (["rowspy", 0, 1, False, [], []], ["rowspy", 0, 2, True, [], []], ["text", ["same text"], "space", "left"]):
        for h, n in ((4, 10), (3, 7), (2, 5)):
            for fpos in (0, 2, 4, n - 1):
                items = [["shared", "D", shared_inner] if i % 2 == 0 else ["rowspy", 10 * i, 1, bool(i % 4 == 1), [], []] for i in range(n)]
                wrap = {"kind": "LB", "side": "right", "bw": 1, "thumb": "#", "trough": ".", "walker": walkers[k % 4]}
                k += 1
                ops = [["sweep", "keys"], ["setfocus", fpos], ["sweep", "wheel"], ["key", "end"], ["setfocus", fpos], ["key", "page up"], ["setfocus", 2]]
                out.append({"content": ["listbox", items, fpos], "wrap": wrap, "size": [12, h], "focus": bool(k % 3), "ops": ops})
    # falsy widgets in a ListBox in row mode: empty Pile (0 rows), empty Columns / GridFlow (1 blank row), a spy with
    # __len__ == 0 that has rows; at the focus position, above and below it
    k = 0
    for falsy in (["emptypile"], ["emptycolumns"], ["emptygridflow"], ["falsyspy", 300, 2, True, [], []], ["falsyspy", 300, 1, False, [], []]):
        for where in ("first", "middle", "last", "all"):
            for h, n in ((4, 10), (2, 6)):
                items = [["rowspy", 10 * i, 1, bool(i % 2), [], []] for i in range(n)]
                if where == "all":
                    if falsy[0] != "falsyspy":
                        continue
                    items = [["falsyspy", 10 * i, 1, bool(i % 2), [], []] for i in range(n)]
                else:
                    items[{"first": 0, "middle": n // 2, "last": n - 1}[where]] = falsy
                wrap = {"kind": "LB", "side": "left", "bw": 1, "thumb": "#", "trough": ".", "walker": walkers[k % 4]}
                k += 1
                for fpos in (0, n // 2, n - 1):
                    ops = [["sweep", "keys"], ["setfocus", fpos], ["key", "home"], ["sweep", "wheel"], ["setfocus", fpos], ["key", "page up"], ["key", "page down"], ["key", "end"]]
                    out.append({"content": ["listbox", items, fpos], "wrap": wrap, "size": [8, h], "focus": True, "ops": ops})
    # relative mode with a 0-row first item (empty Pile placeholder)
    items = [["emptypile"]] + [["rowspy", 10 * i, 1, bool(i % 2), [], []] for i in range(8)]
    out.append({"content": ["listbox", items, 1], "wrap": lbwrap, "size": [4, 2], "focus": True, "ops": [["sweep", "keys"], ["key", "home"], ["sweep", "wheel"]]})
    # frames of earlier sizes kept alive (keep=per_size): a render at another size / focus state CLAMPS or RESETS the
    # position, then the earlier size is rendered again: the rows shown there must start at get_scrollpos()
    for kind in ("S", "SB"):
        for content_kind in ("rowspy", "text", "widefixed"):
            for T, p1, h1, h2 in ((20, 15, 5, 12), (20, 18, 2, 10), (9, 6, 3, 5), (9, 6, 3, 8), (12, 11, 1, 6), (8, 3, 3, 25), (8, 5, 2, 8), (6, 4, 2, 7)):
                if content_kind == "rowspy":
                    content = ["rowspy", 0, T, False, [], []]
                elif content_kind == "text":
                    content = ["text", [f"line{i:02d}" for i in range(T)], "clip", "left"]
                else:  # fixed widget wider than the view: never takes Scrollable's fits-the-view shortcut
                    content = ["fixedspy", 0, 14, T, False, [], []]
                wrap = {"kind": kind, "side": "right", "bw": 1, "thumb": "#", "trough": ".", "keep": "per_size"}
                ops = [["setpos", p1], ["resize", 10, h2], ["resize", 10, h1], ["setpos", p1], ["focus", False], ["resize", 10, h2], ["focus", True], ["resize", 10, h1], ["key", "up"], ["resize", 10, h2], ["resize", 10, h1]]
                out.append({"content": content, "wrap": wrap, "size": [10, h1], "focus": True, "ops": ops})
    # relative mode with runs of zero-row items near the end, focus on the last item, valign top / 'end' (the one path
    # that counts zero-row widgets as visible: the thumb wants the whole view)
    for h in (2, 3, 4, 5):
        for zeros in (3 * h - 1, 3 * h + 2):
            for head in (2, 3):
                items = [["rowspy", 10 * i, 1, bool(i % 2), [], []] for i in range(head)] + [["emptypile"]] * zeros + [["rowspy", 400, 1, True, [], []]]
                for first_ops in ([["setfocus", -1], ["valign", "top"]], [["key", "end"]], [["valign", "top"], ["key", "end"]], [["setfocus", -1], ["valign", "bottom"]]):
                    ops = first_ops + [["key", "up"], ["key", "home"], ["setfocus", -1], ["valign", "top"], ["key", "page up"], ["key", "end"]]
                    out.append({"content": ["listbox", items, 0], "wrap": dict(lbwrap, walker=("focus", "simple", "offset1")[h % 3]), "size": [6, h], "focus": bool(zeros % 2), "ops": ops})
    # view not wider than the bar (each case named by fix 94e9ef7), then keys / wheel / wider again
    for kind, content in (("SB", ["text", [f"l{i}" for i in range(8)], "any", "left"]), ("SB", ["rowspy", 0, 8, True, [], []]), ("LB", ["listbox", [["rowspy", 10 * i, 1, bool(i % 2), [], []] for i in range(8)], 0])):
        for w, bw in ((1, 1), (2, 3), (2, 2), (3, 3), (1, 2)):
            wrap = {"kind": kind, "side": "right", "bw": bw, "thumb": "#", "trough": ".", "walker": "focus"}
            ops = [["key", "down"], ["mouse", "mouse press", 5, 0, 0], ["key", "page down"], ["resize", w + 3, 3], ["resize", w, 3], ["mouse", "mouse press", 4, 0, 1], ["key", "end"]]
            out.append({"content": content, "wrap": wrap, "size": [w, 3], "focus": True, "ops": ops})
    # a scroll key on content that fits, then the content grows (pending action of fix e22d711)
    for kind in ("S", "SB"):
        wrap = {"kind": kind, "side": "right", "bw": 1, "thumb": "#", "trough": "."}
        for key in ("down", "page down", "end", "up"):
            ops = [["key", key], ["setpos", -2], ["setrows", -1, 9], ["key", key], ["setrows", -1, 2], ["setpos", 5], ["setrows", -1, 9]]
            out.append({"content": ["rowspy", 0, 3, False, [], []], "wrap": wrap, "size": [5, 4], "focus": True, "ops": ops})
    # urwid.Text with MORE rows at the wider width (4 rows at 10 columns, 3 rows at 9): the circular bar case
    text = ["text", ["A0 B1", "C2", "D3 E4 F5 G6 H7 I8", "J9", "K10 L11 M12 N13 O14 P15", "Q16R17r17q"], "space", "left"]
    wrap = {"kind": "SB", "side": "left", "bw": 1, "thumb": "#", "trough": "."}
    for pos in (0, 7):
        ops = [["setpos", pos], ["settext", -1, ["L37 M38N39n39q O40 P41 Q42"]], ["key", "down"], ["setpos", -1]]
        out.append({"content": text, "wrap": wrap, "size": [10, 3], "focus": True, "ops": ops})
    return out


def run(ctx):
    import urwid
    from urwid.widget import listbox as LB
    from urwid.widget import scrollable as SC

    old_enc = urwid.util.get_encoding() if hasattr(urwid.util, "get_encoding") else "utf-8"
    urwid.set_encoding("utf-8")
    reach.watch(
        SC.Scrollable.render,
        SC.Scrollable._adjust_trim_top,
        SC.Scrollable.keypress,
        SC.Scrollable.mouse_event,
        SC.Scrollable.set_scrollpos,
        SC.Scrollable.rows_max,
        SC.ScrollBar.render,
        SC.ScrollBar.keypress,
        SC.ScrollBar.mouse_event,
        LB.ListBox.get_scrollpos,
        LB.ListBox.rows_max,
        LB.ListBox.require_relative_scroll,
        LB.ListBox.get_first_visible_pos,
        LB.ListBox.get_visible_amount,
    )
    state = {}
    try:
        soft, hard = resource.getrlimit(resource.RLIMIT_AS)
        if hard == resource.RLIM_INFINITY or hard >= MEM_LIMIT:
            resource.setrlimit(resource.RLIMIT_AS, (MEM_LIMIT, hard))
    except (ValueError, OSError):
        pass
    try:
        for i, case in enumerate(core_cases(ctx.quick)):
            if ctx.mine(i):
                run_case(ctx, case, state)
                ctx.count("core_cases")
                if i in (40, 1000):
                    ctx.sample(case)
        gen = Gen(ctx.rng)
        nops = ctx.pick(20, 50)
        k = 0
        while ctx.more(1.0):
            case = gen.case(nops)
            run_case(ctx, case, state)
            ctx.count("random_histories")
            k += 1
            if k == 1:
                ctx.sample(case)
    finally:
        urwid.set_encoding(old_enc)
    reach.flush(ctx)


def replay(ctx, wit):
    import urwid

    urwid.set_encoding("utf-8")
    return run_case(ctx, wit, {}, do_shrink=False)
