"""C17 display attributes travel from markup to the terminal unchanged.

Three clause groups, each with its own counters and oracle (reference side in vmon/models/c17_model.py,
terminal side = vmon/models/vt.py, cell splitting = vmon/models/grid.py):

(a) markup -> canvas   urwid.Text / urwid.Edit over texts of pairwise distinct characters: every displayed
                       cell names its source character, whose innermost enclosing tag is known.
(b) attribute maps     chains of AttrMap / AttrWrap / fill_attr / fill_attr_apply around unique-glyph leaves in
                       Pile / Columns, focus on/off: expected = fold of the maps on the path, inner -> outer.
(c) palette -> SGR     raw display draw_screen output decoded by the VT model == own parse of the palette strings.
"""

from __future__ import annotations

import os
import warnings

from vmon import reach
from vmon.models import c17_model as M
from vmon.models import grid as G
from vmon.models.vt import DEC_GRAPHICS, VT

PROPERTY = "C17"
LEVEL = "exploration"
SHARDS = {"quick": 8, "thorough": 16}
BUDGET = {"quick": 25.0, "thorough": 420.0}
REQUIRE = {
    "a_cases": 1000,
    "a_cells_source_char": 9000,
    "a_cells_tagged": 5000,
    "a_cells_wide": 1500,
    "a_cells_multibyte": 1500,
    "a_cells_dec": 300,
    "a_rows_left_trimmed": 100,
    "a_edit_cases": 200,
    "a_rows_width_judged": 3000,
    "a_cases_canvas_clipped": 300,
    "a_clip_right_before_wide_char_with_own_attr": 9,
    "a_clip_left_after_wide_char_with_own_attr": 7,
    "a_rows_with_charset_runs": 600,
    "a_rows_with_charset_runs_and_several_attrs": 300,
    "a_attr_boundary_on_charset_boundary": 200,
    "b_cases": 200,
    "b_cells_judged": 9000,
    "b_cells_remapped": 5000,
    "b_focus_map_used": 100,
    "b_mutations_judged": 50,
    "b_chain_depth_ge3": 150,
    "b_cells_equal_nonidempotent_maps_on_path": 600,
    "b_cells_equal_nonidempotent_maps_directly_nested": 300,
    "b_cells_second_equal_map_changes_result": 80,
    "b_maps_chain_target_listed_before_pointer": 200,
    "b_maps_chain_target_listed_after_pointer": 200,
    "c_scenarios": 100,
    "c_cells_judged": 4000,
    "c_pairs_distinct_styles": 1500,
    "c_alias_cells": 100,
    "c_undefined_cells": 100,
    "c_attrspec_cells": 100,
    "c_draws_depth_1": 30,
    "c_draws_depth_16": 30,
    "c_draws_depth_88": 30,
    "c_draws_depth_256": 30,
    "c_draws_depth_16777216": 30,
    "c_draws_bright_is_bold_True": 90,
    "c_draws_bright_is_bold_False": 100,
    "c_redraw_same_content_after_property_change": 90,
    "c_redraw_depth_up": 30,
    "c_redraw_depth_down": 20,
    "c_redraw_bright_is_bold_flip_only": 30,
    "c_redraw_same_canvas_object": 50,
    "c_redraw_cells_restyled": 700,
    "l_rendered": 300,
    "l_cells_judged": 6000,
    "l_cells_tagged": 3000,
    "l_cases_stepping_back_in_text": 100,
    "l_cases_segment_straddles_earlier_end": 80,
    "l_kind_overlap": 40,
    "l_kind_reversed-lines": 40,
    "l_kind_repeat": 40,
    "l_kind_skip": 40,
    "l_kind_mirror": 40,
    "l_kind_random": 40,
    "c_blank_cells_judged": 1000,
    "p_frames": 1040,
    "p_frames_visible_through_line_style_only": 240,
    "p_blank_row_cells_must_show_attribute": 4800,
    "p_frames_depth_1": 208,
    "p_frames_depth_16": 208,
    "p_frames_depth_88": 208,
    "p_frames_depth_256": 208,
    "p_frames_depth_16777216": 208,
    "c_cells_fg_high_empty_string_basic_not_default": 80,
    "c_cells_bg_high_empty_string_basic_not_default": 80,
    "c_cells_fg_high_None_falls_back_to_basic": 150,
    "c_cells_bg_high_None_falls_back_to_basic": 100,
    "c_trailing_blank_cells_erased": 400,
    "c_trailing_blank_cells_printed": 200,
    "c_trailing_blank_cells_with_visible_style": 200,
    "c_trailing_blank_cells_visible_style_differs_between_depth_fields": 150,
}
RULE = (
    "(a) case = (encoding utf-8|euc-jp|ascii|iso8859-1, str|bytes markup, nested markup descriptor depth<=4 over a text of "
    "pairwise distinct characters (ASCII, 2-byte, CJK wide, 4-byte wide, DEC line drawing) with random spaces/newlines, "
    "Text|Edit, width 1..30, wrap space|any|clip|ellipsis, align left|center|right[, edit_pos]); "
    "(b) case = (widget tree recipe of unique-glyph leaves Text/Edit/SolidFill in Pile/Columns under AttrMap/AttrWrap/"
    "fill_attr/fill_attr_apply chains (Padding / LineBox in between; maps often EQUAL on several levels and non-idempotent: chains a->b->c, swaps, cycles, both dict orders) with pool attribute names, width, focus, optional map mutation); "
    "(l) case = (encoding, markup, width, user-supplied TextLayout returning a generated layout structure: forward / overlapping "
    "(repeat the last 1-4 characters) / reversed line order / repeated lines / skipping / right-to-left mirrored / random segments with "
    "inserted blanks and inserted text); expected cell attributes follow from the segment list alone; "
    "(p) directed core, complete in every run: raw display without the alternate buffer, 3-row / 2-row frame whose lower row is an "
    "all-space row in one palette attribute: 13 style-flag sets (each flag alone, combinations, none) x fg default|dark red x bg "
    "default|dark blue x 5 depths x bright_is_bold off|on x row followed by a default blank row | last row = 1040 frames; "
    "(c) case = (op order of set_terminal_properties/register_palette, palette entries of every form, depth, bright_is_bold, "
    "rows of attribute sequences, 0-3 further set_terminal_properties changes each followed by a redraw of the same content on the "
    "same started screen, ONE terminal model accumulating all output); distinct = distinct descriptors; non-trivial = at least one attributed cell judged"
)
ASSUMES = [
    "a blank that stands in for the cut half of a double-width character, and an inserted ellipsis, are neither source "
    "characters nor padding: they may carry None or the attribute of the character they replace / adjoin (documented "
    "in TextLayout.layout); every other blank outside the source text must carry None",
    "attribute names that compare equal (1 == True) are the same name; the pool holds pairwise unequal values",
    "colour rounding (nearest cube/gray step) is C18's subject: (c) accepts any index within a small slack of the nearest",
    "bold-as-bright: with bright_is_bold a bright basic foreground and (dark colour + bold) are the same terminal state",
    "bright basic colours as BACKGROUND are outside the documented background values and are not generated",
    "88-colour depth with an hN (N>15) high-colour field: the 16-colour fields are the entry's meaning (documented fallback)",
    "the urwid layout (which characters land in which row) is C03's subject; rows are read back through unique glyphs",
]

# ---------------------------------------------------------------------------------------------- pools

# pairwise unequal hashables; index = JSON-safe name of the attribute
POOL = [None, "a", "b", "hdr", "", 0, 1, 7, ("t", 1), ("x",), (), "B", -3, ("a", ("n", 2)), "focus", 2.5, b"by", frozenset({1})]
NPOOL = len(POOL)

ASCII = "abcdefghijklmnopqrstuvwxyzABCDEFGHIJKLMNOPQRSTUVWXYZ0123456789!#$%&*+-/:;<=>?@^_~"
# ASCII without the bytes the DEC special-graphics set uses (0x5f-0x7e): in str texts of non-utf8 encodings a
# displayed byte then names its source character whatever charset flag the cell carries
ASCII_NODEC = "".join(c for c in ASCII if not 0x5F <= ord(c) <= 0x7E)
LATIN = "éüßñçøåæÐþÿÀ"
TWOBYTE = "αβγδλЖДЯю"
CJK_JP = "漢字日本語東京都あいうえおカキクケコ山川"
CJK_X = "한글中文"
EMOJI = "😀🎉🚀"
DEC = "◆▒°±┘┐┌└┼─├┤┴┬│≤≥π≠£·"
COMBINING = "\u0301\u0308\u0323"  # zero-width: attach to the previous cell but keep their own attribute run
ELL = "…"

ENCODINGS = {
    "utf-8": "utf8",
    "euc-jp": "wide",
    "ascii": "narrow",
    "iso8859-1": "narrow",
}


def alphabet(enc: str, as_bytes: bool):
    """[(chars, weight)] valid for that encoding; every character encodes to width-many bytes in wide mode"""
    if enc == "utf-8":
        return [(ASCII, 5), (LATIN, 2), (TWOBYTE, 1), (CJK_JP + CJK_X, 4), (EMOJI, 1), (DEC, 2), (COMBINING, 0.6)]
    if enc == "euc-jp":
        if as_bytes:
            return [(ASCII, 5), (CJK_JP, 4)]
        return [(ASCII_NODEC, 5), (CJK_JP, 4), (DEC, 2)]
    if enc == "iso8859-1":
        if as_bytes:
            return [(ASCII, 5), (LATIN, 3)]
        return [(ASCII_NODEC, 5), (LATIN, 3), (DEC, 2)]
    if as_bytes:
        return [(ASCII, 1)]
    return [(ASCII_NODEC, 5), (DEC, 2)]


def char_cols(ch: str) -> int:
    return G.char_width(ch)


# ---------------------------------------------------------------------------------------------- (a) generator


def gen_text(rng, enc, as_bytes, n):
    alpha = alphabet(enc, as_bytes)
    groups = [g for g, _ in alpha]
    weights = [w for _, w in alpha]
    used = set()
    out = []
    tries = 0
    while len(out) < n and tries < 10 * n:
        tries += 1
        g = rng.choices(groups, weights)[0]
        ch = rng.choice(g)
        if ch in used:
            continue
        used.add(ch)
        out.append(ch)
    # blanks and newlines (repeatable)
    k = rng.choice([0, 0, 1, 2, 3, 5])
    for _ in range(k):
        out.insert(rng.randint(0, len(out)), " ")
    if rng.random() < 0.3:
        p = rng.randint(0, len(out))
        out[p:p] = [" "] * rng.randint(2, 3)
    for _ in range(rng.choice([0, 0, 0, 1, 1, 2])):
        out.insert(rng.randint(0, len(out)), "\n")
    return "".join(out)


def gen_dense_markup(rng, text):
    """flat list of short tagged pieces over 2-4 attributes: an attribute boundary every 1-3 characters"""
    attrs = rng.sample(range(NPOOL), rng.randint(2, 4))
    items, i, last = [], 0, None
    while i < len(text):
        n = rng.randint(1, 3)
        a = rng.choice([x for x in attrs if x != last] or attrs)
        last = a
        piece = ["S", text[i : i + n]]
        items.append(piece if a == 0 else ["T", a, piece])
        i += n
    node = ["L", items]
    if rng.random() < 0.3:
        node = ["T", rng.randrange(NPOOL), node]
    return node


def gen_markup(rng, text, depth, allow_empty=True):
    """random nested descriptor over `text`"""
    r = rng.random()
    if depth <= 0 or (len(text) <= 1 and r < 0.5) or r < 0.14:
        return ["S", text]
    if r < 0.42:
        return ["T", rng.randrange(NPOOL), gen_markup(rng, text, depth - 1, allow_empty)]
    # list: cut the text into 1..5 parts
    k = rng.randint(min(2, max(1, len(text))), min(5, max(1, len(text))))
    cuts = sorted(rng.randint(0, len(text)) for _ in range(k - 1))
    parts = []
    last = 0
    for c in [*cuts, len(text)]:
        parts.append(text[last:c])
        last = c
    items = [gen_markup(rng, p, depth - 1, allow_empty) for p in parts]
    if allow_empty and rng.random() < 0.012:
        items.insert(rng.randint(0, len(items)), ["L", []])
    if allow_empty and rng.random() < 0.05:
        items.insert(rng.randint(0, len(items)), ["T", rng.randrange(NPOOL), ["S", ""]])
    return ["L", items]


def build_markup(desc, enc, as_bytes):
    kind = desc[0]
    if kind == "S":
        return desc[1].encode(enc) if as_bytes else desc[1]
    if kind == "T":
        return (POOL[desc[1]], build_markup(desc[2], enc, as_bytes))
    return [build_markup(d, enc, as_bytes) for d in desc[1]]


def gen_a_case(rng):
    enc = rng.choices(list(ENCODINGS), [5, 3, 1, 2])[0]
    widget = "edit" if rng.random() < 0.18 else "text"
    as_bytes = widget == "text" and rng.random() < 0.12
    n = rng.choice([1, 2, 3, 5, 8, 8, 12, 12, 18, 25, 36])
    text = gen_text(rng, enc, as_bytes, n)
    case = {
        "k": "a",
        "enc": enc,
        "bytes": as_bytes,
        "widget": widget,
        "w": rng.choice([1, 2, 3, 4, 5, 6, 7, 8, 9, 10, 12, 15, 20, 30, rng.randint(1, 30)]),
        "wrap": rng.choice(["space", "any", "clip", "clip", "ellipsis"]),
        "align": rng.choice(["left", "center", "right"]),
    }
    if widget == "edit":
        cut = rng.randint(0, len(text))
        case["markup"] = gen_dense_markup(rng, text[:cut]) if rng.random() < 0.25 else gen_markup(rng, text[:cut], 3, allow_empty=False)
        case["edit_text"] = text[cut:]
        case["pos"] = rng.choice([0, len(text) - cut, len(text) - cut, rng.randint(0, len(text) - cut)])
        case["focus"] = rng.random() < 0.85
    else:
        case["markup"] = gen_dense_markup(rng, text) if rng.random() < 0.25 else gen_markup(rng, text, 4)
    if case["w"] >= 2 and rng.random() < 0.25:
        # canvas-level clipping of the rendered rows (what Columns / Padding / Overlay do to a child canvas)
        left = rng.randint(0, case["w"] - 1)
        right = rng.randint(0, case["w"] - 1 - left)
        if left or right:
            case["clip"] = [left, right]
        if widget == "text" and rng.random() < 0.5:
            # aimed: a left-aligned clipped line whose view edge falls in the middle of a double-width character
            line = text.split("\n")[0]
            col, starts, before, after = 0, [], [], []
            fl = M.flatten_markup(case["markup"], POOL)
            for i, ch in enumerate(line):
                if char_cols(ch) == 2 and col + 2 <= case["w"]:
                    starts.append(col)
                    if i > 0 and not _same(fl[i - 1][1], fl[i][1]):
                        before.append(col)  # the wide character starts an attribute run: cut it on the right
                    if i + 1 < len(line) and not _same(fl[i + 1][1], fl[i][1]) and col + 2 < case["w"]:
                        after.append(col)  # it ends one: cut it on the left
                col += char_cols(ch)
            if starts:
                right = rng.random() < 0.5
                if (right and before) or (not right and after):
                    c0 = rng.choice(before if right else after)
                else:
                    c0 = rng.choice(starts)
                case["wrap"], case["align"] = "clip", "left"
                if right:
                    case["clip"] = [0, case["w"] - (c0 + 1)]
                elif c0 + 1 < case["w"]:
                    case["clip"] = [c0 + 1, rng.randint(0, case["w"] - c0 - 2)]
    return case


# ---------------------------------------------------------------------------------------------- (a) oracle


class Skip(Exception):
    pass


def _decode_item(b, cs, enc):
    if cs == "0":
        return DEC_GRAPHICS.get(b[0], "�") if len(b) == 1 else "�"
    try:
        return b.decode(enc)
    except UnicodeDecodeError:
        return "�"


def split_row(segs, mode):
    """one content() row -> ([(char_bytes, width, attr, cs)], attr_split, cs_split).  Unlike grid.flatten_rows this
    tolerates a run boundary inside a character (reported through the two flags; the character then gets the
    attribute / charset of its first byte) so that attributes can still be judged when only the charset runs are off."""
    text = b"".join(b for _a, _cs, b in segs)
    per = []
    for a, cs, b in segs:
        if not isinstance(b, bytes):
            raise ValueError("segment text is not bytes")
        per += [(a, cs)] * len(b)
    items = []
    pos = 0
    attr_split = cs_split = False
    for chb, w in G.split_chars(text, mode):
        a, cs = per[pos]
        for a2, cs2 in per[pos + 1 : pos + len(chb)]:
            if not (a2 == a and type(a2) is type(a)):
                attr_split = True
            if cs2 != cs:
                cs_split = True
        items.append((chb, w, a, cs))
        pos += len(chb)
    return items, attr_split, cs_split


def _row_end_class(items, src, index, enc) -> str:
    """where does a too-short row stop, in terms of the source text: at an attribute and/or charset boundary?"""
    last = None
    for b, _w, _a, cs in items:
        ch = _decode_item(b, cs, enc)
        if ch in index:
            last = index[ch]
    if last is None or last + 1 >= len(src):
        return "ends=end-of-text-or-unidentified"
    (c1, a1), (c2, a2) = src[last], src[last + 1]
    ab = not _same(a1, a2)
    cb = (c1 in DEC) != (c2 in DEC) and enc != "utf-8"
    return "ends=" + ("attr+charset-boundary" if ab and cb else "attr-boundary" if ab else "charset-boundary" if cb else "inside-a-run")


def _match_trailing(cells, src, nxt, ell_ok):
    """cells: list of (kind, attr) after the last identified character (or virtual gap); src: [(ch, attr)];
    nxt = source index of the first character not yet shown.  True if explainable as
    [source blanks]* [stand-in]? [ellipsis]* [stand-in]? [None fill]*"""
    n = len(cells)

    def fill_from(i):
        return all(k == "S" and a is None for k, a in cells[i:])

    def after_spaces(i, s):
        # i = cell index, s = source index of the next unseen character
        if fill_from(i):
            return True
        last_attr = src[s - 1][1] if s - 1 >= 0 else None
        nxt_attr = src[s][1] if s < len(src) else None
        nxt_wide = s < len(src) and char_cols(src[s][0]) == 2
        # optional stand-in before the ellipsis / fill
        starts = [i]
        if i < n and nxt_wide and cells[i][0] == "S" and cells[i][1] == nxt_attr:
            starts.append(i + 1)
        for j in starts:
            if fill_from(j):
                return True
            e = j
            while ell_ok and e < n and cells[e][0] == "E" and (cells[e][1] is None or cells[e][1] in (last_attr, nxt_attr)):
                e += 1
                if fill_from(e):
                    return True
                if e < n and nxt_wide and cells[e][0] == "S" and cells[e][1] == nxt_attr and fill_from(e + 1):
                    return True
        return False

    i, s = 0, nxt
    cands = [(0, nxt)]
    while i < n and s < len(src) and src[s][0] == " " and cells[i][0] == "S" and cells[i][1] == src[s][1]:
        i += 1
        s += 1
        cands.append((i, s))
    return any(after_spaces(i, s) for i, s in reversed(cands))


def _match_leading(cells, src, prv):
    """cells: list of (kind, attr) BEFORE the first identified character, nearest first; prv = source index of the
    character just before the first shown one (-1 if none).  [source blanks]* [stand-in]? [None pad]*"""
    n = len(cells)

    def fill_from(i):
        return all(k == "S" and a is None for k, a in cells[i:])

    def after_spaces(i, s):
        if fill_from(i):
            return True
        t = s
        while t >= 0 and char_cols(src[t][0]) == 0 and src[t][0] != "\n":
            t -= 1  # zero-width marks ride on the cut character
        if t >= 0 and char_cols(src[t][0]) == 2 and cells[i][0] == "S" and any(_same(cells[i][1], src[u][1]) for u in range(t, s + 1)):
            return fill_from(i + 1)
        return False

    i, s = 0, prv
    cands = [(0, prv)]
    while i < n and s >= 0 and src[s][0] == " " and cells[i][0] == "S" and cells[i][1] == src[s][1]:
        i += 1
        s -= 1
        cands.append((i, s))
    return any(after_spaces(i, s) for i, s in reversed(cands))


def a_source(case):
    src = M.flatten_markup(case["markup"], POOL)
    if case["widget"] == "edit":
        src = src + [(ch, None) for ch in case["edit_text"]]
    return src


def a_render(case):
    """build the real widget and render it; returns content rows (list of segment lists)"""
    import urwid
    from urwid import util

    enc = case["enc"]
    old = util.get_encoding()
    util.set_encoding(enc)
    try:
        mk = build_markup(case["markup"], enc, case["bytes"])
        if case["widget"] == "edit":
            w = urwid.Edit(mk, case["edit_text"], multiline=True, align=case["align"], wrap=case["wrap"])
            w.set_edit_pos(case["pos"])
            canv = w.render((case["w"],), focus=case["focus"])
        else:
            w = urwid.Text(mk, align=case["align"], wrap=case["wrap"])
            canv = w.render((case["w"],))
        clip = case.get("clip")
        if clip:
            canv = urwid.CompositeCanvas(canv)
            canv.pad_trim_left_right(-clip[0], -clip[1])
        rows = [list(r) for r in canv.content()]
        return rows, canv.cols()
    finally:
        util.set_encoding(old)


def a_eval(case, stats=None):
    """-> list of (sig, msg).  stats: optional Counter-like with .count(name, n)"""
    enc = case["enc"]
    mode = ENCODINGS[enc]
    src = a_source(case)
    index = {}
    for i, (ch, _a) in enumerate(src):
        if ch not in (" ", "\n"):
            if ch in index:
                raise Skip("source characters not distinct")
            index[ch] = i
    bshape = f"{case['widget']}|wrap={case['wrap']}|align={case['align']}|enc={mode}" + ("|canvas-clip" if case.get("clip") else "")
    shape = bshape + ("|bytes" if case["bytes"] else "")
    out = []

    def cnt(name, n=1):
        if stats is not None:
            stats.count(name, n)

    try:
        rows, cols = a_render(case)
    except Exception as e:  # noqa: BLE001
        import traceback

        tb = traceback.extract_tb(e.__traceback__)
        where = tb[-1].name if tb else "?"
        in_markup = any(f.name in ("decompose_tagmarkup", "_tagmarkup_recurse") for f in tb)
        in_attr = any(f.name in ("arange", "attrrange") for f in tb)
        if in_markup or in_attr:
            what = "decompose_tagmarkup|" + markup_class(case["markup"]) if in_markup else "apply_text_layout.attrrange|" + shape
            out.append((f"C17|a|{what}|raise:{type(e).__name__}", f"{type(e).__name__}: {e}"))
        else:
            # a layout / canvas-size failure: not an attribute statement (C01/C03); counted, not judged
            cnt(f"a_render_raised_not_judged:{type(e).__name__}:{where}:wrap={case['wrap']}:enc={mode}")
        return out
    cnt("a_rendered")
    clip = case.get("clip") or [0, 0]
    if clip != [0, 0]:
        cnt("a_cases_canvas_clipped")
    if cols != case["w"] - clip[0] - clip[1]:
        out.append((f"C17|a|canvas-cols-differ-from-requested|{bshape}", f"cols()={cols}, requested {case['w']} minus clip {clip}"))
    item_rows = []
    for y, segs in enumerate(rows):
        try:
            items, split_attr, split_cs = split_row(segs, mode)
        except ValueError as e:
            cnt("a_rows_undecodable_not_judged")
            item_rows.append([])
            continue
        if split_attr:
            out.append((f"C17|a|attr-run-ends-inside-a-character|{shape}", f"row {y}: {segs!r}"))
        if split_cs:
            out.append((f"C17|a|charset-run-ends-inside-a-character|{bshape}", f"row {y}: {segs!r}"))
        # every cell of the row must exist: (attr, charset, text) triples cover exactly cols() columns
        roww = sum(w for _b, w, _a, _cs in items)
        cnt("a_rows_width_judged")
        if roww != cols:
            out.append((f"C17|a|row-width-differs-from-canvas|{'shorter' if roww < cols else 'longer'}|{_row_end_class(items, src, index, enc)}|enc={mode}", f"row {y} covers {roww} of {cols} columns: {segs!r}"))
        # bookkeeping for the charset dimension
        if any(cs is not None for _b, _w, _a, cs in items):
            cnt("a_rows_with_charset_runs")
            if len({a for _b, _w, a, _cs in items}) > 1:
                cnt("a_rows_with_charset_runs_and_several_attrs")
        for (_b1, _w1, a1, cs1), (_b2, _w2, a2, cs2) in zip(items, items[1:]):
            if cs1 != cs2 and not _same(a1, a2):
                cnt("a_attr_boundary_on_charset_boundary")
        item_rows.append(items)
    ell_ok = case["wrap"] == "ellipsis"
    seen_any_attr = False
    last_idx = -1
    for y, items in enumerate(item_rows):
        cnt("a_rows")
        cells = []  # (kind, attr, idx)
        for b, w, a, cs in items:
            ch = _decode_item(b, cs, enc)
            idx = None
            if b == b" ":
                kind = "S"
                if cs is not None:
                    out.append((f"C17|a|charset-flag|blank-flagged-as-line-drawing|{bshape}", f"row {y}: {rows[y]!r}"))
            elif ch in index:
                kind, idx = "A", index[ch]
            elif ch == " ":
                kind = "S"
            elif ch in (ELL, "."):
                kind = "E"
            else:
                # glyph shown in the wrong character set?  identify it through the other set so that the
                # attribute can still be judged; the charset defect itself is not a C17 statement
                alt = DEC_GRAPHICS.get(b[0]) if (cs is None and len(b) == 1) else (b.decode(enc, "replace") if cs == "0" else None)
                if alt in index:
                    kind, idx = "A", index[alt]
                    what = "line-drawing-char-lost-its-flag" if cs is None else "plain-char-flagged-as-line-drawing"
                    out.append((f"C17|a|charset-flag|{what}|{bshape}", f"row {y}: source char {alt!r} shown as bytes {b!r} with charset flag {cs!r}; row={rows[y]!r}"))
                else:
                    kind = "X"
                    cnt("a_cells_unknown_glyph_not_judged")
            cells.append((kind, a, idx, w, len(b), cs))
        anchors = [i for i, c in enumerate(cells) if c[0] == "A"]
        # every identified character: its own attribute
        for i in anchors:
            kind, a, idx, w, nb, cs = cells[i]
            want = src[idx][1]
            cnt("a_cells_source_char")
            if want is not None:
                cnt("a_cells_tagged")
                seen_any_attr = True
            if w == 2:
                cnt("a_cells_wide")
            if w == 0:
                cnt("a_cells_zero_width")
            if nb > 1:
                cnt("a_cells_multibyte")
            if cs == "0":
                cnt("a_cells_dec")
            if not (a == want and type(a) is type(want)):
                prev_a = src[idx - 1][1] if idx > 0 else "<none>"
                next_a = src[idx + 1][1] if idx + 1 < len(src) else "<none>"
                if a == prev_a and a != next_a:
                    how = "has-attr-of-previous-char"
                elif a == next_a and a != prev_a:
                    how = "has-attr-of-next-char"
                elif a is None:
                    how = "lost-attr"
                else:
                    how = "other-attr"
                cls = "wide" if w == 2 else ("multibyte" if nb > 1 else ("dec" if cs == "0" else "ascii"))
                out.append((f"C17|a|char-attr|{how}|char={cls}|{shape}", f"row {y} char {src[idx][0]!r} (source index {idx}) has attr {a!r}, innermost tag is {want!r}; row={rows[y]!r}"))
        if not anchors:
            kinds = [(c[0], c[1]) for c in cells]
            if all(a is None for _k, a in kinds):
                continue
            cnt("a_rows_blank_with_attr")
            ok = False
            for g in range(len(src) + 1):
                for x in range(len(kinds) + 1):
                    if _match_leading(kinds[:x][::-1], src, g - 1) and _match_trailing(kinds[x:], src, g, ell_ok):
                        ok = True
                        break
                if ok:
                    break
            if not ok:
                out.append((f"C17|a|blank-cells-carry-attr|row-without-source-char|{bshape}", f"row {y}: {rows[y]!r} not explainable as pad + source blanks/stand-in/ellipsis + fill"))
            continue
        # contiguity between anchors: blanks in between must be the source blanks in between
        contiguous = True
        for p, q in zip(anchors, anchors[1:]):
            i, j = cells[p][2], cells[q][2]
            if j - i != q - p or j <= i:
                contiguous = False
                break
            for t in range(1, q - p):
                k, a = cells[p + t][0], cells[p + t][1]
                sc, sa = src[i + t]
                if k != "S" or sc != " ":
                    contiguous = False
                    break
                cnt("a_cells_source_blank")
                if not (a == sa and type(a) is type(sa)):
                    out.append((f"C17|a|source-blank-attr|{shape}", f"row {y}: blank at source index {i + t} has attr {a!r}, innermost tag is {sa!r}; row={rows[y]!r}"))
        if not contiguous:
            cnt("a_rows_not_contiguous_not_judged")
            continue
        first, last = anchors[0], anchors[-1]
        fi, li = cells[first][2], cells[last][2]
        if fi <= last_idx:
            cnt("a_rows_out_of_order_not_judged")
        last_idx = li
        if fi > 0 and src[fi - 1][0] not in ("\n",) and case["wrap"] in ("clip", "ellipsis"):
            cnt("a_rows_left_trimmed")
        lead = [(c[0], c[1]) for c in cells[:first]][::-1]
        trail = [(c[0], c[1]) for c in cells[last + 1 :]]
        if clip[1] and trail and li + 1 < len(src) and char_cols(src[li + 1][0]) == 2 and not _same(src[li + 1][1], src[li][1]):
            cnt("a_clip_right_before_wide_char_with_own_attr")
        if clip[0] and lead and fi > 0 and char_cols(src[fi - 1][0]) == 2 and not _same(src[fi - 1][1], src[fi][1]):
            cnt("a_clip_left_after_wide_char_with_own_attr")
        cnt("a_cells_blank_judged", len(lead) + len(trail))
        if all(a is None for _k, a in lead) and not _match_leading(lead, src, fi - 1):
            cnt("a_rows_odd_blank_structure_all_none")
        elif not _match_leading(lead, src, fi - 1):
            out.append((f"C17|a|blank-cells-carry-attr|before-text|{bshape}", f"row {y}: cells before {src[fi][0]!r}: {lead[::-1]!r}; row={rows[y]!r}"))
        if all(a is None for _k, a in trail) and not _match_trailing(trail, src, li + 1, ell_ok):
            cnt("a_rows_odd_blank_structure_all_none")
        elif not _match_trailing(trail, src, li + 1, ell_ok):
            out.append((f"C17|a|blank-cells-carry-attr|after-text|{bshape}", f"row {y}: cells after {src[li][0]!r}: {trail!r}; row={rows[y]!r}"))
    if seen_any_attr:
        cnt("a_cases_with_tagged_cells")
    return out


def _has_empty_list(desc) -> bool:
    kind = desc[0]
    if kind == "S":
        return False
    if kind == "T":
        return _has_empty_list(desc[2])
    return not desc[1] or any(_has_empty_list(d) for d in desc[1])


def markup_class(desc) -> str:
    """abstract class of a markup descriptor for exception signatures"""
    if _has_empty_list(desc):
        return "markup-contains-empty-list"
    if "" in [d[1] for d in _leaves(desc)]:
        return "markup-contains-empty-string"
    return "markup-plain"


def _leaves(desc):
    kind = desc[0]
    if kind == "S":
        return [desc]
    if kind == "T":
        return _leaves(desc[2])
    out = []
    for d in desc[1]:
        out += _leaves(d)
    return out


# ---------------------------------------------------------------------------------------------- (a) shrinking


def a_shrink(case, sig, budget=120):
    """greedy: simplify the markup, drop characters, narrow nothing else; keeps `sig` reproducing"""

    def reproduces(c):
        try:
            return any(s == sig for s, _m in a_eval(c))
        except Skip:
            return False
        except Exception:  # noqa: BLE001
            return False

    best = case
    tries = 0
    c2 = dict(best, markup=M.simplify(best["markup"]))
    tries += 1
    if reproduces(c2):
        best = c2
    changed = True
    while changed and tries < budget:
        changed = False
        n = len(M.markup_text(best["markup"]))
        for k in range(n - 1, -1, -1):
            if tries >= budget:
                break
            d, _ = M.drop_char(best["markup"], k)
            c2 = dict(best, markup=d)
            tries += 1
            if reproduces(c2):
                best = c2
                changed = True
        if best["widget"] == "edit":
            et = best["edit_text"]
            for k in range(len(et) - 1, -1, -1):
                if tries >= budget:
                    break
                c2 = dict(best, edit_text=et[:k] + et[k + 1 :])
                c2["pos"] = min(c2["pos"], len(c2["edit_text"]))
                tries += 1
                if reproduces(c2):
                    best = c2
                    et = best["edit_text"]
                    changed = True
        c2 = dict(best, markup=M.simplify(best["markup"]))
        if c2["markup"] != best["markup"]:
            tries += 1
            if reproduces(c2):
                best = c2
    return best


# ---------------------------------------------------------------------------------------------- (b) attribute maps
# node := ["text", glyphs, [attr_idx per glyph]]
#       | ["edit", caption, cap_attr_idx, text]
#       | ["solid", glyph]                                        (box)
#       | ["map", "AttrMap"|"AttrWrap", mapspec, mapspec|None, node]
#       | ["fill", attr_idx, node] | ["apply", [[k, v], ...], node]   (canvas-level, via a tiny decoration widget)
#       | ["pile", focus_pos, [item, ...]]   item := node (flow) | ["given", rows, boxnode]
#       | ["cols", focus_pos, dividechars, [[width, node], ...]]
#       | ["pad", left, right, node] (urwid.Padding) | ["lbox", node] (urwid.LineBox)
# mapspec := ["single", attr_idx] | ["dict", [[k_idx, v_idx], ...]]


def spec_to_dict(spec):
    if spec is None:
        return None
    if spec[0] == "single":
        return {None: POOL[spec[1]]}
    return {POOL[k]: POOL[v] for k, v in spec[1]}


def spec_to_arg(spec):
    """what is handed to the AttrMap constructor"""
    if spec is None:
        return None
    if spec[0] == "single":
        return POOL[spec[1]]
    return {POOL[k]: POOL[v] for k, v in spec[1]}


def gen_chain_mapspec(rng, used):
    """a map that is NOT idempotent: some value is also a key (chain a->b->c, swap a<->b, cycle), pairs in random
    dict order (the chain target listed before or after the key pointing at it)"""
    pool = list(dict.fromkeys([*used, *rng.sample(range(NPOOL), 3)]))
    rng.shuffle(pool)
    n = rng.randint(2, min(4, len(pool)))
    ks = pool[:n]
    shape = rng.choice(["chain", "chain", "swap", "cycle"])
    if shape == "swap":
        pairs = [[ks[0], ks[1]], [ks[1], ks[0]]]
    elif shape == "cycle":
        pairs = [[ks[i], ks[(i + 1) % n]] for i in range(n)]
    else:
        pairs = [[ks[i], ks[i + 1]] for i in range(n - 1)]
        if rng.random() < 0.4:
            pairs.append([ks[-1], rng.randrange(NPOOL)] if rng.random() < 0.5 else [rng.randrange(NPOOL), ks[0]])
            pairs = [[k, v] for k, v in dict((k, v) for k, v in pairs).items()]
    rng.shuffle(pairs)
    return ["dict", pairs]


def gen_mapspec(rng, used, allow_single=True):
    r = rng.random()
    if allow_single and r < 0.3:
        i = rng.randrange(1, NPOOL)  # a non-Mapping, non-None single attribute
        return ["single", i]
    n = rng.choice([0, 1, 1, 2, 3, 4])
    pairs = {}
    for _ in range(n):
        k = rng.choice(used) if (used and rng.random() < 0.75) else rng.randrange(NPOOL)
        pairs[k] = rng.choice(used) if (used and rng.random() < 0.3) else rng.randrange(NPOOL)
    return ["dict", [[k, v] for k, v in pairs.items()]]


class _BGen:
    def __init__(self, rng):
        self.rng = rng
        self.glyphs = list(ASCII)
        rng.shuffle(self.glyphs)
        self.used = [0]  # attribute indices in play (None always)
        self.shared = []
        self.bank = []  # dict map specs already used in this tree: reused to get EQUAL maps on several levels

    def take(self, n):
        out = []
        for _ in range(n):
            if self.glyphs:
                out.append(self.glyphs.pop())
        return "".join(out) or "x"

    def attr(self):
        rng = self.rng
        i = rng.choice(self.used) if rng.random() < 0.5 else rng.randrange(NPOOL)
        if i not in self.used:
            self.used.append(i)
        return i

    def leaf(self):
        rng = self.rng
        if self.shared and rng.random() < 0.1:
            return rng.choice(self.shared)
        if rng.random() < 0.2:
            cap = self.take(rng.randint(0, 4))
            node = ["edit", cap, self.attr(), self.take(rng.randint(1, 5))]
        else:
            g = self.take(rng.randint(1, 9))
            attrs = []
            cur = self.attr()
            for _ in g:
                if rng.random() < 0.35:
                    cur = self.attr()
                attrs.append(cur)
            node = ["text", g, attrs]
        if rng.random() < 0.3:
            self.shared.append(node)
        return node

    def dictspec(self, allow_single=True):
        """a map spec; often one equal to (a fresh copy of) a map used elsewhere in the tree, often non-idempotent"""
        rng = self.rng
        r = rng.random()
        if self.bank and r < 0.35:
            spec = rng.choice(self.bank)
            return ["dict", [list(p) for p in spec[1]]]
        if r < 0.6:
            spec = gen_chain_mapspec(rng, self.used)
        else:
            spec = gen_mapspec(rng, self.used, allow_single)
        if spec[0] == "dict" and spec[1]:
            self.bank.append(spec)
        return spec

    def wrap(self, child):
        rng = self.rng
        r = rng.random()
        if r < 0.5:
            fm = self.dictspec() if rng.random() < 0.6 else None
            node = ["map", "AttrMap", self.dictspec(), fm, child]
        elif r < 0.68:
            fm = ["single", rng.randrange(1, NPOOL)] if rng.random() < 0.6 else None
            node = ["map", "AttrWrap", ["single", rng.randrange(NPOOL)], fm, child]
        elif r < 0.84:
            node = ["fill", rng.randrange(NPOOL), child]
        else:
            node = ["apply", self.dictspec(allow_single=False)[1], child]
        for spec in node[2:4] if node[0] == "map" else []:
            if spec and spec[0] == "single" and spec[1] not in self.used:
                self.used.append(spec[1])
            if spec and spec[0] == "dict":
                for _k, v in spec[1]:
                    if v not in self.used:
                        self.used.append(v)
        return node

    def box(self, depth):
        node = ["solid", self.take(1)]
        for _ in range(self.rng.choice([0, 1, 1, 2])):
            node = self.wrap(node)
        return node

    def flow(self, depth):
        rng = self.rng
        r = rng.random()
        if depth <= 0 or r < 0.3:
            node = self.leaf()
        elif r < 0.65:
            n = rng.randint(1, 3)
            items = []
            for _ in range(n):
                if rng.random() < 0.2:
                    items.append(["given", rng.randint(1, 2), self.box(depth - 1)])
                else:
                    items.append(self.flow(depth - 1))
            node = ["pile", rng.randrange(n), items]
        else:
            n = rng.randint(1, 3)
            node = ["cols", rng.randrange(n), rng.choice([0, 0, 1, 2]), [[rng.randint(1, 6), self.flow(depth - 1)] for _ in range(n)]]
        for _ in range(rng.choice([0, 1, 1, 2, 3])):
            node = self.wrap(node)
            r = rng.random()
            if r < 0.1:
                node = ["pad", rng.randint(0, 2), rng.randint(0, 2), node]  # something between two map levels
            elif r < 0.18:
                node = ["lbox", node]
        return node


def b_min_width(node) -> int:
    k = node[0]
    if k in ("text", "edit", "solid"):
        return 1
    if k == "map":
        return b_min_width(node[4])
    if k in ("fill", "apply"):
        return b_min_width(node[2])
    if k == "pile":
        return max(b_min_width(it[2] if it[0] == "given" else it) for it in node[2])
    if k == "cols":
        return sum(w for w, _c in node[3]) + node[2] * (len(node[3]) - 1)
    if k == "pad":
        return node[1] + node[2] + b_min_width(node[3])
    if k == "lbox":
        return 2 + b_min_width(node[1])
    raise ValueError(node)


def b_fix_widths(node):
    """make every column at least as wide as its child needs (in place)"""
    k = node[0]
    if k == "map":
        b_fix_widths(node[4])
    elif k in ("fill", "apply"):
        b_fix_widths(node[2])
    elif k == "pile":
        for it in node[2]:
            b_fix_widths(it[2] if it[0] == "given" else it)
    elif k == "cols":
        for pair in node[3]:
            b_fix_widths(pair[1])
            pair[0] = max(pair[0], b_min_width(pair[1]))
    elif k == "pad":
        b_fix_widths(node[3])
    elif k == "lbox":
        b_fix_widths(node[1])


def gen_b_case(rng):
    g = _BGen(rng)
    tree = g.flow(rng.choice([0, 1, 2, 2, 3]))
    b_fix_widths(tree)
    mw = b_min_width(tree)
    case = {"k": "b", "tree": tree, "w": mw + rng.choice([0, 0, 1, 3, 8]), "focus": rng.random() < 0.5, "canvas_ops": [], "mut": None}
    for _ in range(rng.choice([0, 0, 0, 1, 2])):
        if rng.random() < 0.5:
            case["canvas_ops"].append(["fill", rng.randrange(NPOOL)])
        else:
            case["canvas_ops"].append(["apply", gen_mapspec(rng, g.used, allow_single=False)[1]])
    if rng.random() < 0.3:
        op = rng.choice(["attr_map", "focus_map", "focus_map_none", "attr", "focus_attr"])
        if op in ("attr", "focus_attr"):
            spec = ["single", rng.randrange(1, NPOOL)]
        elif op == "focus_map_none":
            spec = None
        else:
            spec = gen_mapspec(rng, g.used, allow_single=False)
        case["mut"] = [rng.randrange(8), op, spec]
    return case


def _b_maps_in(node, out):
    k = node[0]
    if k == "map":
        out.append(node)
        _b_maps_in(node[4], out)
    elif k in ("fill", "apply"):
        _b_maps_in(node[2], out)
    elif k == "pile":
        for it in node[2]:
            _b_maps_in(it[2] if it[0] == "given" else it, out)
    elif k == "cols":
        for _w, c in node[3]:
            _b_maps_in(c, out)
    elif k == "pad":
        _b_maps_in(node[3], out)
    elif k == "lbox":
        _b_maps_in(node[1], out)
    return out


def b_apply_mut(tree, mut):
    """model side of the mutation: returns a new tree (deep copy with one map node changed) or None if not applicable"""
    import copy

    t = copy.deepcopy(tree)
    maps = []
    seen = set()
    for m in _b_maps_in(t, []):
        if id(m) not in seen:
            seen.add(id(m))
            maps.append(m)
    if not maps:
        return None, None
    k, op, spec = mut
    k %= len(maps)
    node = maps[k]
    if op in ("attr", "focus_attr") and node[1] != "AttrWrap":
        op = "attr_map" if op == "attr" else "focus_map"
        spec = ["dict", [[0, spec[1]]]]
    if op in ("attr_map", "attr"):
        node[2] = spec
    else:
        node[3] = spec
    return t, (k, op, spec)


def b_model(node, width, focus, nrows=None):
    """-> list of rows, each a list of [glyph, base_attr, path] ; path = list of (kind, used_map, other_map, in_focus)"""
    k = node[0]
    if k in ("text", "edit"):
        if k == "text":
            cells = [(ch, POOL[a]) for ch, a in zip(node[1], node[2])]
        else:
            cells = [(ch, POOL[node[2]]) for ch in node[1]] + [(ch, None) for ch in node[3]]
        rows = []
        for i in range(0, max(len(cells), 1), width):
            row = [[ch, a, []] for ch, a in cells[i : i + width]]
            row += [[" ", None, []] for _ in range(width - len(row))]
            rows.append(row)
        return rows
    if k == "solid":
        return [[[node[1], None, []] for _ in range(width)] for _ in range(nrows)]
    if k in ("map", "fill", "apply"):
        if k == "map":
            child = node[4]
            am, fm = spec_to_dict(node[2]), spec_to_dict(node[3])
            used, other = (fm, am) if (focus and fm is not None) else (am, fm)
            step = (node[1], used, other, bool(focus))
        elif k == "fill":
            child = node[2]
            step = ("fill_attr", {None: POOL[node[1]]}, None, bool(focus))
        else:
            child = node[2]
            step = ("fill_attr_apply", {POOL[a]: POOL[b] for a, b in node[1]}, None, bool(focus))
        rows = b_model(child, width, focus, nrows)
        for row in rows:
            for cell in row:
                cell[2] = [*cell[2], step]
        return rows
    if k == "pile":
        rows = []
        for i, it in enumerate(node[2]):
            f = focus and i == node[1]
            if it[0] == "given":
                rows += b_model(it[2], width, f, it[1])
            else:
                rows += b_model(it, width, f)
        return rows
    if k == "pad":
        inner = b_model(node[3], width - node[1] - node[2], focus)
        return [[[" ", None, []] for _ in range(node[1])] + row + [[" ", None, []] for _ in range(node[2])] for row in inner]
    if k == "lbox":
        inner = b_model(node[1], width - 2, focus)
        top = [["\u250c", None, []]] + [["\u2500", None, []] for _ in range(width - 2)] + [["\u2510", None, []]]
        bot = [["\u2514", None, []]] + [["\u2500", None, []] for _ in range(width - 2)] + [["\u2518", None, []]]
        return [top] + [[["\u2502", None, []]] + row + [["\u2502", None, []]] for row in inner] + [bot]
    if k == "cols":
        parts = [b_model(c, w, focus and i == node[1]) for i, (w, c) in enumerate(node[3])]
        h = max(len(p) for p in parts)
        rows = []
        for y in range(h):
            row = []
            for i, ((w, _c), p) in enumerate(zip(node[3], parts)):
                if i:
                    row += [[" ", None, []] for _ in range(node[2])]
                row += p[y] if y < len(p) else [[" ", None, []] for _ in range(w)]
            row += [[" ", None, []] for _ in range(width - len(row))]
            rows.append(row)
        return rows
    raise ValueError(node)


_B_CLASSES = {}


def _b_classes():
    if _B_CLASSES:
        return _B_CLASSES
    import urwid

    class CanvasMapped(urwid.WidgetDecoration):
        """user-level use of CompositeCanvas.fill_attr / fill_attr_apply inside a render()"""

        def __init__(self, w, op, arg):
            super().__init__(w)
            self._op, self._arg = op, arg

        def selectable(self):
            return self._original_widget.selectable()

        def sizing(self):
            return self._original_widget.sizing()

        def rows(self, size, focus=False):
            return self._original_widget.rows(size, focus)

        def render(self, size, focus=False):
            canv = urwid.CompositeCanvas(self._original_widget.render(size, focus=focus))
            if self._op == "fill":
                canv.fill_attr(self._arg)
            else:
                canv.fill_attr_apply(self._arg)
            return canv

    _B_CLASSES["CanvasMapped"] = CanvasMapped
    return _B_CLASSES


def b_build(node, memo, maps):
    import urwid

    key = id(node)
    if key in memo:
        return memo[key]
    k = node[0]
    if k == "text":
        mk = [(POOL[a], ch) for ch, a in zip(node[1], node[2])]
        w = urwid.Text(mk, wrap="any")
    elif k == "edit":
        w = urwid.Edit((POOL[node[2]], node[1]), node[3], wrap="any")
        w.set_edit_pos(0)
    elif k == "solid":
        w = urwid.SolidFill(node[1])
    elif k == "map":
        child = b_build(node[4], memo, maps)
        if node[1] == "AttrWrap":
            with warnings.catch_warnings():
                warnings.simplefilter("ignore")
                w = urwid.AttrWrap(child, spec_to_arg(node[2]), spec_to_arg(node[3]))
        else:
            w = urwid.AttrMap(child, spec_to_arg(node[2]), spec_to_arg(node[3]))
        maps.append((node, w))
    elif k in ("fill", "apply"):
        child = b_build(node[2], memo, maps)
        arg = POOL[node[1]] if k == "fill" else {POOL[a]: POOL[b] for a, b in node[1]}
        w = _b_classes()["CanvasMapped"](child, k, arg)
    elif k == "pile":
        items = []
        for it in node[2]:
            if it[0] == "given":
                items.append((it[1], b_build(it[2], memo, maps)))
            else:
                items.append(b_build(it, memo, maps))
        w = urwid.Pile(items, focus_item=node[1])
    elif k == "cols":
        items = [(wd, b_build(c, memo, maps)) for wd, c in node[3]]
        w = urwid.Columns(items, dividechars=node[2], focus_column=node[1])
    elif k == "pad":
        w = urwid.Padding(b_build(node[3], memo, maps), left=node[1], right=node[2])
    elif k == "lbox":
        w = urwid.LineBox(b_build(node[1], memo, maps))
    else:
        raise ValueError(node)
    memo[key] = w
    return w


def _same(a, b) -> bool:
    return a == b and type(a) is type(b)


def _nonidempotent(m: dict) -> bool:
    """some value the map produces is itself remapped by the map to something else"""
    for v in m.values():
        try:
            if v in m and not _same(m[v], v):
                return True
        except TypeError:
            pass
    return False


def b_diagnose(actual, base, path):
    """name the way `actual` differs from the fold of `path` over `base`"""
    n = len(path)
    for i in range(n - 1):
        if path[i][1] and path[i][1] == path[i + 1][1]:
            if _same(actual, M.fold_maps([p[1] for j, p in enumerate(path) if j != i], base)) and not _same(actual, M.fold_maps([p[1] for p in path], base)):
                return "one-of-two-equal-nested-maps-not-applied"
    if _same(actual, base) and n:
        return "no-map-applied"
    for i in range(n):
        if _same(actual, M.fold_maps([p[1] for j, p in enumerate(path) if j != i], base)):
            return f"map-skipped:{path[i][0]}:{'outermost' if i == n - 1 else ('innermost' if i == 0 else 'middle')}"
    if n > 1 and _same(actual, M.fold_maps([p[1] for p in reversed(path)], base)):
        return "maps-applied-outer-first"
    for i in range(n):
        if path[i][2] is not None:
            alt = [p[1] for p in path]
            alt[i] = path[i][2]
            if _same(actual, M.fold_maps(alt, base)):
                return f"{path[i][0]}:{'attr_map-used-in-focus' if path[i][3] else 'focus_map-used-without-focus'}"
    return "other-attr"


def b_check_render(case, tree, widget, stats, label, keep=None):
    import urwid

    out = []

    def cnt(name, n=1):
        if stats is not None:
            stats.count(name, n)

    width, focus = case["w"], case["focus"]
    canv = widget.render((width,), focus=focus)
    if keep is not None:
        keep.append(canv)  # CanvasCache holds canvases weakly: keep the first render alive across the mutation
    extra = []
    if case["canvas_ops"] and label == "first":
        canv = urwid.CompositeCanvas(canv)
        for op in case["canvas_ops"]:
            if op[0] == "fill":
                canv.fill_attr(POOL[op[1]])
                extra.append(("fill_attr", {None: POOL[op[1]]}, None, bool(focus)))
            else:
                d = {POOL[a]: POOL[b] for a, b in op[1]}
                canv.fill_attr_apply(d)
                extra.append(("fill_attr_apply", d, None, bool(focus)))
    rows = [list(r) for r in canv.content()]
    items = G.flatten_rows(rows, "utf8")
    model = b_model(tree, width, focus)
    got_glyphs = ["".join(b.decode("utf-8") for b, _w, _a, _cs in r) for r in items]
    want_glyphs = ["".join(c[0] for c in r) for r in model]
    if got_glyphs != want_glyphs:
        cnt("b_geometry_mismatch_not_judged")
        return out, False
    maxdepth = 0
    for y, (ir, mr) in enumerate(zip(items, model)):
        for x, ((_b, _w, a, _cs), (glyph, base, path)) in enumerate(zip(ir, mr)):
            path = [*path, *extra]
            want = M.fold_maps([p[1] for p in path], base)
            cnt("b_cells_judged")
            maxdepth = max(maxdepth, len(path))
            if not _same(want, base):
                cnt("b_cells_remapped")
            # equal maps on two levels of the path (distinct dict objects), and is that map non-idempotent?
            for i in range(len(path) - 1):
                m = path[i][1]
                if m and _nonidempotent(m) and any(path[j][1] == m for j in range(i + 1, len(path))):
                    cnt("b_cells_equal_nonidempotent_maps_on_path")
                    if path[i + 1][1] == m:
                        cnt("b_cells_equal_nonidempotent_maps_directly_nested")
                        before = M.fold_maps([p[1] for p in path[:i]], base)
                        once = M.apply_map(m, before)
                        if not _same(M.apply_map(m, once), once):
                            cnt("b_cells_second_equal_map_changes_result")
                    break
            if any(p[3] and p[2] is not None and p[0] in ("AttrMap", "AttrWrap") and p[1] is not p[2] for p in path):
                cnt("b_cells_under_focus_choice")
            if not _same(a, want):
                how = b_diagnose(a, base, path)
                kinds = ">".join(sorted({p[0] for p in path}))
                cell = "glyph" if glyph != " " else "blank"
                out.append((f"C17|b|cell-attr|{how}|render={'first' if label == 'first' else 'after-map-mutation'}", f"{cell} cell, ops={kinds}, depth={len(path)}, focus={bool(focus)}, render={label}: cell ({x},{y}) {glyph!r}: attr {a!r}, expected {want!r} = fold over base {base!r} of {[(p[0], p[1]) for p in path]!r}"))
    cnt(f"b_chain_depth_{min(maxdepth, 4)}")
    if maxdepth >= 3:
        cnt("b_chain_depth_ge3")
    return out, True


def _b_focus_map_used(node, focus) -> int:
    k = node[0]
    if k == "map":
        return (1 if (focus and node[3] is not None) else 0) + _b_focus_map_used(node[4], focus)
    if k in ("fill", "apply"):
        return _b_focus_map_used(node[2], focus)
    if k == "pile":
        return sum(_b_focus_map_used(it[2] if it[0] == "given" else it, focus and i == node[1]) for i, it in enumerate(node[2]))
    if k == "cols":
        return sum(_b_focus_map_used(c, focus and i == node[1]) for i, (_w, c) in enumerate(node[3]))
    if k == "pad":
        return _b_focus_map_used(node[3], focus)
    if k == "lbox":
        return _b_focus_map_used(node[1], focus)
    return 0


def b_eval(case, stats=None):
    from urwid import util

    def cnt(name, n=1):
        if stats is not None:
            stats.count(name, n)

    old = util.get_encoding()
    util.set_encoding("utf-8")
    out = []
    try:
        tree = case["tree"]
        maps = []
        try:
            widget = b_build(tree, {}, maps)
            keep = []
            res, judged = b_check_render(case, tree, widget, stats, "first", keep)
        except Exception as e:  # noqa: BLE001
            import traceback

            tb = traceback.extract_tb(e.__traceback__)
            where = tb[-1].name if tb else "?"
            out.append((f"C17|b|raise:{type(e).__name__}|in={where}", f"{type(e).__name__}: {e}"))
            return out
        out += res
        if judged:
            cnt("b_focus_map_used", _b_focus_map_used(tree, case["focus"]))
            for node in _b_maps_in(tree, []):
                for spec in node[2:4]:
                    if spec and spec[0] == "dict":
                        keys = [k for k, _v in spec[1]]
                        for pos, (k, v) in enumerate(spec[1]):
                            if v in keys and v != k:
                                cnt("b_maps_chain_target_listed_before_pointer" if keys.index(v) < pos else "b_maps_chain_target_listed_after_pointer")
        if case["mut"] and maps:
            t2, eff = b_apply_mut(tree, case["mut"])
            if t2 is not None:
                # the same mutation on the real widget (construction order == preorder of distinct map nodes)
                uniq = []
                seen = set()
                for node, w in sorted(maps, key=lambda nw: _b_preorder_index(tree, nw[0])):
                    if id(node) not in seen:
                        seen.add(id(node))
                        uniq.append(w)
                k, op, spec = eff
                w = uniq[k]
                try:
                    if op == "attr_map":
                        w.set_attr_map(spec_to_dict(spec))
                    elif op == "focus_map":
                        w.set_focus_map(spec_to_dict(spec))
                    elif op == "focus_map_none":
                        w.set_focus_map(None)
                    elif op == "attr":
                        w.set_attr(POOL[spec[1]])
                    elif op == "focus_attr":
                        w.set_focus_attr(POOL[spec[1]])
                    res, judged = b_check_render(case, t2, widget, stats, "after-" + op)
                    out += res
                    if judged:
                        cnt("b_mutations_judged")
                except Exception as e:  # noqa: BLE001
                    out.append((f"C17|b|raise:{type(e).__name__}|mutation={op}", f"{type(e).__name__}: {e}"))
    finally:
        util.set_encoding(old)
    return out


def _b_preorder_index(tree, target):
    order = []
    seen = set()
    for m in _b_maps_in(tree, []):
        if id(m) not in seen:
            seen.add(id(m))
            order.append(id(m))
    return order.index(id(target))


# ---------------------------------------------------------------------------------------------- (c) palette -> SGR
# scenario = {"k": "c", "enc": ..., "ops": [op, ...], "rows": [[cellref, ...], ...]}
# op := ["props", depth, bright_is_bold]
#     | ["entry", name_idx, fg, bg]  | ["entry", name_idx, fg, bg, mono] | ["entry", name_idx, fg, bg, mono, fgh, bgh]
#     | ["entry1", ...same...]  (register_palette_entry instead of register_palette)
#     | ["alias", name_idx, like_idx]
#     | ["draw"]
# cellref := ["n", name_idx] | ["s", fg, bg, colors]
# consecutive entry/alias ops are handed to ONE register_palette call, as an application would.

DEPTHS = [1, 16, 88, 256, 2**24]
DARK = ["black", "dark red", "dark green", "brown", "dark blue", "dark magenta", "dark cyan", "light gray"]
BRIGHT = ["dark gray", "light red", "light green", "yellow", "light blue", "light magenta", "light cyan", "white"]
SETTING_NAMES = list(M.SETTINGS)
HIGH_EXAMPLES = ["#009", "#fcc", "#000", "#fff", "#f00", "#0f0", "#00f", "#ff0", "#08f", "#a5c", "#23facc", "#ff8000", "#000000", "#ffffff", "g0", "g100", "g40", "g50", "g73", "g#cc", "g#00", "g#ff", "g#80"]


def gen_settings(rng, names=SETTING_NAMES):
    k = rng.choice([0, 0, 0, 1, 1, 2, 3, len(names)])
    return rng.sample(names, min(k, len(names)))


def join_spec(rng, colour, settings):
    parts = list(settings)
    if colour is not None:
        parts.insert(rng.randint(0, len(parts)) if rng.random() < 0.35 else 0, colour)
    sep = rng.choice([",", ",", ", ", " ,"])
    return sep.join(parts)


def gen_fg16(rng):
    r = rng.random()
    colour = None if r < 0.12 else ("default" if r < 0.25 else rng.choice(DARK + BRIGHT))
    s = join_spec(rng, colour, gen_settings(rng))
    return s


def gen_bg16(rng):
    r = rng.random()
    return "" if r < 0.08 else ("default" if r < 0.3 else rng.choice(DARK))


def gen_high_colour(rng, depth_hint):
    r = rng.random()
    if r < 0.2:
        return rng.choice(DARK + BRIGHT)
    if r < 0.3:
        return "default"
    if r < 0.6:
        hi = 16 if rng.random() < 0.3 else (88 if depth_hint == 88 and rng.random() < 0.5 else 256)
        return f"h{rng.randrange(hi)}"
    return rng.choice(HIGH_EXAMPLES)


def gen_entry(rng, name_idx, depth_hint):
    form = rng.choice([3, 4, 4, 6, 6, 6])
    fg, bg = gen_fg16(rng), gen_bg16(rng)
    op = ["entry1" if rng.random() < 0.2 else "entry", name_idx, fg, bg]
    if form >= 4:
        r = rng.random()
        if r < 0.15:
            mono = None
        elif r < 0.3:
            mono = list(gen_settings(rng))  # old tuple style
        else:
            mono = join_spec(rng, "default" if rng.random() < 0.2 else None, gen_settings(rng))
        op.append(mono)
    if form == 6:
        # each high field independently: None (fall back to the 16-colour field) | "" (= default) | settings only
        # (colour default) | a spelled-out / real colour
        r = rng.random()
        if r < 0.12:
            fgh = None
        elif r < 0.24:
            fgh = ""
        elif r < 0.32:
            fgh = join_spec(rng, None, gen_settings(rng) or ["underline"])
        else:
            fgh = join_spec(rng, gen_high_colour(rng, depth_hint), gen_settings(rng))
        bc = gen_high_colour(rng, depth_hint)
        while bc in BRIGHT:
            bc = gen_high_colour(rng, depth_hint)
        r = rng.random()
        bgh = None if r < 0.12 else ("" if r < 0.26 else bc)
        op += [fgh, bgh]
    return op


def gen_c_case(rng):
    depth = rng.choice(DEPTHS)
    bib = rng.random() < 0.5
    names = rng.sample(range(NPOOL), rng.randint(3, 8))
    if 0 in names and rng.random() < 0.7:
        names.remove(0)
    pal_ops = []
    defined = []
    for n in names:
        if defined and rng.random() < 0.25:
            pal_ops.append(["alias", n, rng.choice(defined)])
        else:
            pal_ops.append(gen_entry(rng, n, depth))
        defined.append(n)
    if rng.random() < 0.2 and defined:
        pal_ops.append(gen_entry(rng, rng.choice(defined), depth))  # re-registration (aliases keep their copy)
    order = rng.choice(["props-first", "props-first", "palette-first", "props-twice", "default-props"])
    ops = []
    if order == "props-first":
        ops = [["props", depth, bib], *pal_ops]
    elif order == "palette-first":
        ops = [*pal_ops, ["props", depth, bib]]
    elif order == "props-twice":
        other = rng.choice([d for d in DEPTHS if d != depth])
        cut = rng.randint(0, len(pal_ops))
        ops = [["props", other, not bib], *pal_ops[:cut], ["props", depth, bib], *pal_ops[cut:]]
    else:
        ops = list(pal_ops)  # screen defaults: 16 colours, bright_is_bold False under TERM=xterm
    ops.append(["draw"])
    # history on ONE started screen / ONE terminal: change the terminal properties, draw the same content again
    cur_d, cur_b = (depth, bib) if order != "default-props" else (16, False)
    if rng.random() < 0.6:
        for _ in range(rng.choice([1, 1, 2, 3])):
            r = rng.random()
            if r < 0.3:
                nd, nb = cur_d, not cur_b  # bright_is_bold flip alone
            elif r < 0.9:
                nd, nb = rng.choice([d for d in DEPTHS if d != cur_d]), (cur_b if rng.random() < 0.6 else not cur_b)
            else:
                nd, nb = cur_d, cur_b  # no-op call
            ops += [["props", nd, nb], ["draw", "same"] if rng.random() < 0.5 else ["draw"]]
            cur_d, cur_b = nd, nb
    undefined = [i for i in range(NPOOL) if i not in names and i != 0]
    ncols = rng.randint(4, 12)
    rows = []
    for _ in range(rng.randint(1, 4)):
        row = []
        for _ in range(ncols):
            r = rng.random()
            if r < 0.62:
                row.append(["n", rng.choice(defined)])
            elif r < 0.72:
                row.append(["n", 0])
            elif r < 0.84 and undefined:
                row.append(["n", rng.choice(undefined)])
            else:
                colors = rng.choice(DEPTHS)
                if colors == 1:
                    row.append(["s", join_spec(rng, None, gen_settings(rng)), "default", 1])
                elif colors == 16:
                    row.append(["s", gen_fg16(rng), gen_bg16(rng), 16])
                else:
                    hc = gen_high_colour(rng, colors)
                    while not _spec_valid_for(hc, colors):
                        hc = gen_high_colour(rng, colors)
                    bc = gen_high_colour(rng, colors)
                    while bc in BRIGHT or not _spec_valid_for(bc, colors):
                        bc = gen_high_colour(rng, colors)
                    row.append(["s", join_spec(rng, hc, gen_settings(rng)), bc, colors])
        rows.append(row)
    # blank cells: a tail of 1..4 blanks per row (usually in ONE attribute, so that the display may replace them
    # by "erase to end of line"), some interior blanks
    blanks = []
    for row in rows:
        bl = []
        if rng.random() < 0.65:
            t = rng.randint(1, min(4, ncols - 1))
            if rng.random() < 0.8:
                ref = row[ncols - t - 1] if rng.random() < 0.4 else (["n", rng.choice(defined)] if rng.random() < 0.8 else row[-1])
                for x in range(ncols - t, ncols):
                    row[x] = ref
            bl += list(range(ncols - t, ncols))
        if rng.random() < 0.3:
            x = rng.randrange(ncols)
            if x not in bl:
                bl.append(x)
        blanks.append(sorted(bl))
    return {"k": "c", "enc": rng.choice(["utf-8", "utf-8", "ascii"]), "ops": ops, "rows": rows, "blanks": blanks}


class _Cap:
    def __init__(self):
        self.buf = []

    def write(self, s):
        self.buf.append(s)

    def flush(self):
        pass


CELL_CHARS = "ABCDEFGHIJKLMNOPQRSTUVWXYZabcdefghijklmnopqrstuvwxyz"


def _entry_tuple(op):
    """(fg16, bg16, mono, fgh, bgh) of an entry op, as the documentation reads it"""
    fg, bg = op[2], op[3]
    mono = op[4] if len(op) > 4 else None
    if isinstance(mono, list):
        mono = ",".join(mono)
    fgh = op[5] if len(op) > 5 else None
    bgh = op[6] if len(op) > 6 else None
    return (fg, bg, mono, fgh, bgh), {4: 3, 5: 4, 7: 6}[len(op)]


def _spec_valid_for(colour: str, colors: int) -> bool:
    """is the colour string usable in an AttrSpec limited to `colors`?"""
    if colour == "default" or colour in M.X.BASIC_NAMES:
        return colors >= 16 or colour == "default"
    if colors < 88:
        return False
    if colour.startswith("h"):
        return int(colour[1:]) < (88 if colors == 88 else 256)
    if colour.startswith("#") and len(colour) == 7:
        return colors != 88
    return True


def c_cell_ok(cell, exp, bib):
    """-> list of mismatching components"""
    fa, ba, flags = exp
    bad = []
    ebold = "bold" in flags
    ok = False
    for f in fa:
        if isinstance(f, tuple):
            if M.colour_ok(cell.fg, {f}) and cell.bold == ebold:
                ok = True
        elif M.normalise_bright(f, ebold, bib) == M.normalise_bright(cell.fg, cell.bold, bib) and not isinstance(cell.fg, tuple):
            ok = True
    if not ok:
        fg_alone = any((M.colour_ok(cell.fg, {f}) if isinstance(f, tuple) else (f == cell.fg and not isinstance(cell.fg, tuple))) for f in fa)
        bad.append("bold" if fg_alone else "fg")
    if not M.colour_ok(cell.bg, ba):
        bad.append("bg")
    for name, got in (("italics", cell.italics), ("underline", cell.underline), ("blink", cell.blink), ("standout", cell.reverse), ("strikethrough", cell.strikethrough)):
        if got != (name in flags):
            bad.append(name)
    if cell.dim:
        bad.append("dim")
    return bad


DEFAULT_EXP = ({None}, {None}, frozenset())


def c_eval(case, stats=None):
    import urwid
    from urwid import util
    from urwid.display import raw

    def cnt(name, n=1):
        if stats is not None:
            stats.count(name, n)

    out = []
    old_enc = util.get_encoding()
    old_term = os.environ.get("TERM")
    os.environ["TERM"] = "xterm"
    util.set_encoding(case["enc"])
    cap = _Cap()
    inp = open(os.devnull)  # noqa: SIM115
    scr = None
    try:
        scr = raw.Screen(input=inp, output=cap)
        depth, bib = 16, False
        model = {None: ((("default", "default", None, None, None)), "None-initial")}
        # build canvas
        rows = case["rows"]
        ncols = len(rows[0])
        texts, attrs, refs = [], [], []
        for y, row in enumerate(rows):
            bl = (case.get("blanks") or [[]] * len(rows))[y]
            texts.append("".join(" " if x in bl else CELL_CHARS[(y * 7 + x) % len(CELL_CHARS)] for x in range(ncols)).encode("ascii"))
            arow = []
            rrow = []
            for ref in row:
                if ref[0] == "n":
                    a = POOL[ref[1]]
                else:
                    a = urwid.AttrSpec(ref[1], ref[2], ref[3])
                arow.append((a, 1))
                rrow.append(a)
            attrs.append(arow)
            refs.append(rrow)
        started = False
        vt = None
        canv = None
        drawn_props = None  # (depth, bright_is_bold) in force at the previous draw
        props_history = []  # ... at every draw so far
        pending = []
        props_since_palette = False  # did a set_terminal_properties call CHANGE something after the last registration?

        def flush_palette():
            nonlocal pending
            if not pending:
                return
            batch, pending = pending, []
            # model first (documentation semantics)
            tuples = []
            for op in batch:
                name = POOL[op[1]]
                if op[0] == "alias":
                    tuples.append((name, POOL[op[2]]))
                else:
                    e = tuple(tuple(v) if isinstance(v, list) else v for v in op[2:])
                    tuples.append((name, *e))
            try:
                scr.register_palette(tuples)
            except Exception as e:  # noqa: BLE001
                # one bad entry aborts the batch: find which one by registering one at a time on the model side
                raise _PaletteRaise(e, batch) from e
            for op in batch:
                name = POOL[op[1]]
                if op[0] == "alias":
                    model[name] = (model[POOL[op[2]]][0], "alias")
                else:
                    ent, form = _entry_tuple(op)
                    model[name] = (ent, f"{form}-tuple")

        for op in case["ops"]:
            if op[0] in ("entry", "alias"):
                pending.append(op)
                props_since_palette = False
                continue
            flush_palette()
            if op[0] == "entry1":
                ent, form = _entry_tuple(op)
                args = [tuple(v) if isinstance(v, list) else v for v in op[2:]]
                try:
                    scr.register_palette_entry(POOL[op[1]], *args)
                except Exception as e:  # noqa: BLE001
                    raise _PaletteRaise(e, [op]) from e
                model[POOL[op[1]]] = (ent, f"{form}-tuple")
                props_since_palette = False
            elif op[0] == "props":
                if (op[1], op[2]) != (depth, bib):
                    props_since_palette = True
                depth, bib = op[1], op[2]
                scr.set_terminal_properties(colors=depth, bright_is_bold=bib)
            elif op[0] == "draw":
                if not started:
                    scr.start()
                    started = True
                cap.buf.clear()
                # ONE terminal model per screen: it accumulates state over all draws (no reset, no clear(), no
                # resize), like the real terminal does.  A redraw hands over the same content (equal canvas or
                # the very same canvas object, as MainLoop does through the canvas cache).
                if not (len(op) > 1 and op[1] == "same" and canv is not None):
                    canv = urwid.TextCanvas([bytes(t) for t in texts], [list(a) for a in attrs], maxcol=ncols)
                else:
                    cnt("c_redraw_same_canvas_object")
                scr.draw_screen((ncols, len(rows)), canv)
                data = "".join(cap.buf).encode(case["enc"], "replace")
                if vt is None:
                    # bce: "erase to end of line" paints the current background colour and nothing else (xterm)
                    vt = VT(ncols, len(rows), utf8=case["enc"] == "utf-8", bce=True)
                vt.feed(data)
                redraw = drawn_props is not None
                changed = redraw and drawn_props != (depth, bib)
                if redraw:
                    cnt("c_redraws_same_content")
                if changed:
                    cnt("c_redraw_same_content_after_property_change")
                    od, ob = drawn_props
                    if od == depth:
                        cnt("c_redraw_bright_is_bold_flip_only")
                    elif DEPTHS.index(depth) > DEPTHS.index(od):
                        cnt("c_redraw_depth_up")
                    else:
                        cnt("c_redraw_depth_down")
                    if not data:
                        cnt("c_redraw_after_property_change_nothing_sent")
                old_props, drawn_props = drawn_props, (depth, bib)
                earlier = [p for p in props_history if p != (depth, bib)]
                props_history.append((depth, bib))
                cnt("c_draws")
                cnt(f"c_draws_depth_{depth}")
                cnt(f"c_draws_bright_is_bold_{bib}")
                stage = "terminal-properties-changed-after-registration" if props_since_palette else "no-terminal-properties-change-after-registration"
                if redraw:
                    stage = "redraw-same-content-after-property-change" if changed else ("redraw-same-content-property-changed-before-an-earlier-draw" if earlier else "redraw-same-content-no-property-change")
                prev_exp = None
                for y in range(len(rows)):
                    for x in range(ncols):
                        a = refs[y][x]
                        cell = vt.cells[y][x]
                        if cell.ch != chr(texts[y][x]):
                            cnt("c_cells_glyph_mismatch_not_judged")
                            prev_exp = None
                            continue
                        if isinstance(a, urwid.AttrSpec):
                            ref = rows[y][x]
                            kind = "AttrSpec"
                            if ref[3] == 1:
                                exp = M.entry_expect(("default", "default", ref[1], None, None), 1)
                            else:
                                exp = M.entry_expect((ref[1], ref[2], None, ref[1], ref[2]), ref[3])
                            cnt("c_attrspec_cells")
                        else:
                            try:
                                known = a in model
                            except TypeError:
                                known = False
                            if known:
                                ent, kind = model[a]
                                exp = M.entry_expect(ent, depth)
                                if depth >= 88 and not (depth == 88 and (M.uses_large_h(ent[3] or "") or M.uses_large_h(ent[4] or ""))):
                                    # "" means default; None means "use the 16-colour field": decisive when they differ
                                    for hi, lo, which in ((ent[3], ent[0], "fg"), (ent[4], ent[1], "bg")):
                                        lo_default = M.split_spec(lo) == ("default", frozenset())
                                        if hi == "" and not lo_default:
                                            cnt(f"c_cells_{which}_high_empty_string_basic_not_default")
                                        elif hi is None and not lo_default:
                                            cnt(f"c_cells_{which}_high_None_falls_back_to_basic")
                                if kind == "alias":
                                    cnt("c_alias_cells")
                                if a is None:
                                    kind = "name-None:" + kind
                            else:
                                kind = "undefined-name"
                                exp = DEFAULT_EXP
                                cnt("c_undefined_cells")
                        if exp is None:
                            cnt("c_cells_spec_meaningless_at_depth_not_judged")
                            prev_exp = None
                            continue
                        cnt("c_cells_judged")
                        if exp != DEFAULT_EXP:
                            cnt("c_cells_nondefault")
                        if prev_exp is not None and prev_exp != exp:
                            cnt("c_pairs_distinct_styles")
                        bad = c_cell_ok(cell, exp, bib)
                        is_blank = texts[y][x] == 0x20
                        if is_blank:
                            # on a blank only the background and the styles drawn on empty cells are visible
                            vis = {"bg", "underline", "standout", "strikethrough"}
                            if "standout" in exp[2] and cell.reverse:
                                vis |= {"fg", "bold"}
                            bad = [b for b in bad if b in vis]
                            cnt("c_blank_cells_judged")
                            trailing = all(t == 0x20 for t in texts[y][x:])
                            if trailing:
                                cnt("c_trailing_blank_cells_erased" if cell.erased else "c_trailing_blank_cells_printed")
                                if exp[2] & {"underline", "standout", "strikethrough"}:
                                    cnt("c_trailing_blank_cells_with_visible_style")
                                if not (isinstance(a, urwid.AttrSpec) or kind == "undefined-name"):
                                    ent = model[a][0]
                                    sets = set()
                                    for fld in (ent[0], ent[2] if ent[2] is not None else "default", ent[3] if ent[3] is not None else ent[0]):
                                        sets.add(M.split_spec(fld)[1] & {"underline", "standout", "strikethrough"})
                                    if len(sets) > 1:
                                        cnt("c_trailing_blank_cells_visible_style_differs_between_depth_fields")
                        exp_old = None
                        if changed:
                            # what the palette said under the terminal properties of the previous draw
                            if isinstance(a, urwid.AttrSpec) or kind == "undefined-name":
                                exp_old = exp
                            else:
                                exp_old = M.entry_expect(model[a][0], old_props[0])
                            if exp_old is not None and c_cell_ok(cell, exp_old, old_props[1]):
                                cnt("c_redraw_cells_restyled")  # the decoded style really differs from the old one
                        stale = False
                        if bad and earlier:
                            for od, ob in earlier:
                                eo = exp if (isinstance(a, urwid.AttrSpec) or kind == "undefined-name") else M.entry_expect(model[a][0], od)
                                if eo is not None and not c_cell_ok(cell, eo, ob):
                                    stale = True
                                    break
                        empty_fb = False
                        if bad and not isinstance(a, urwid.AttrSpec) and kind != "undefined-name":
                            ent = model[a][0]
                            if ent[3] == "" or ent[4] == "":
                                ent2 = (ent[0], ent[1], ent[2], None if ent[3] == "" else ent[3], None if ent[4] == "" else ent[4])
                                e4 = M.entry_expect(ent2, depth)
                                if e4 is not None:
                                    b4 = c_cell_ok(cell, e4, bib)
                                    if is_blank:
                                        b4 = [b for b in b4 if b in vis]
                                    empty_fb = not b4
                        if bad:
                            if empty_fb:
                                how = "empty-string-high-field-treated-like-None-(16-colour-field-used)"
                                stale = False
                            elif stale:
                                how = "stale-style-of-earlier-terminal-properties"
                            elif not c_cell_ok(cell, DEFAULT_EXP, bib):
                                how = "decodes-to-default"
                            elif prev_exp is not None and not c_cell_ok(cell, prev_exp, bib):
                                how = "keeps-style-of-previous-cell"
                            else:
                                how = "wrong:" + "+".join(bad)
                                e3 = None
                                if not isinstance(a, urwid.AttrSpec) and kind != "undefined-name" and depth == 88:
                                    e3 = M.entry_expect(model[a][0], 88, large_h_fallback=False)
                                if e3 is not None and not c_cell_ok(cell, e3, bib):
                                    how = "high-colour-fields-used-at-88-colours-although-hN>15-(setting-listed-before-colour)"
                                elif not isinstance(a, urwid.AttrSpec) and kind != "undefined-name":
                                    for d2 in DEPTHS:
                                        e2 = M.entry_expect(model[a][0], d2)
                                        if d2 != depth and e2 is not None and not c_cell_ok(cell, e2, bib):
                                            how = f"uses-fields-of-depth-{d2}-at-depth-{depth}"
                                            break
                            if how.startswith("wrong:"):
                                how += f"|depth={depth}|bright_is_bold={bib}"
                            sig = f"C17|c|entry={kind}|{how}|{stage}"
                            if empty_fb:
                                sig = f"C17|c|entry={kind}|{how}"
                            elif stale:
                                sig = f"C17|c|redraw-same-content|{how}|{stage}"
                            elif is_blank and cell.erased:
                                dc = "mono" if depth == 1 else ("16" if depth == 16 else "high")
                                what = "lost-visible-style" if set(bad) <= {"underline", "standout", "strikethrough", "fg", "bold"} else "wrong:" + "+".join(bad)
                                sig = f"C17|c|trailing-blanks-erased|{what}|depth-class={dc}|entry={kind}"
                            elif is_blank:
                                sig = f"C17|c|entry={kind}|blank-cell|{how}|{stage}"
                            if how.startswith("high-colour-fields-used-at-88"):
                                sig = "C17|c|88-colours|hN>15-not-first-in-spec|high-colour-fields-used-instead-of-16-colour-fields"
                            out.append((sig, f"cell ({x},{y}) attr {a!r} depth {depth}: decoded {cell.style()!r}, palette says fg in {sorted(map(repr, exp[0]))} bg in {sorted(map(repr, exp[1]))} flags {sorted(exp[2])}; output={data!r}"))
                        prev_exp = exp
                    prev_exp = None
            else:
                raise ValueError(op)
    except _PaletteRaise as pr:
        e, batch = pr.args
        cls = "other"
        for op in batch:
            if op[0] == "alias":
                continue
            ent, _form = _entry_tuple(op)
            for fld, label in ((ent[3], "fg_high"), (ent[4], "bg_high")):
                if fld and any(p.strip().startswith("h") and p.strip()[1:].isdigit() and int(p.strip()[1:]) > 15 for p in fld.split(",")) and not (fld.startswith("h")):
                    cls = f"{label}-hN>15-not-first-in-spec"
        out.append((f"C17|c|register_palette|raise:{type(e).__name__}|{cls}", f"{type(e).__name__}: {e}"))
    except Exception as e:  # noqa: BLE001
        import traceback

        tb = traceback.extract_tb(e.__traceback__)
        where = tb[-1].name if tb else "?"
        out.append((f"C17|c|raise:{type(e).__name__}|in={where}", f"{type(e).__name__}: {e}\n{traceback.format_exc(limit=4)}"))
    finally:
        try:
            if scr is not None and scr._started:
                scr.stop()
        except Exception:  # noqa: BLE001
            pass
        inp.close()
        util.set_encoding(old_enc)
        if old_term is None:
            os.environ.pop("TERM", None)
        else:
            os.environ["TERM"] = old_term
    return out


class _PaletteRaise(Exception):
    pass


# ---------------------------------------------------------------------------------------------- (l) user-supplied layouts
# The documented TextLayout interface lets an application hand Text any layout structure: lines of
#   (cols, start, end) text segments | (n, offs-or-None) inserted blanks | (cols, offs, b"text") inserted text.
# case = {"k": "l", "enc", "markup", "w", "kind", "lines": [[seg, ...], ...]}
# seg  := ["t", start, end] | ["p", n, offs|None] | ["i", offs, "text"]
# The expected (glyph, attribute) of every cell follows from the segment list and the markup alone.

LAYOUT_KINDS = ["forward", "overlap", "reversed-lines", "repeat", "skip", "mirror", "random"]


def _text_cols(text, a, b):
    return sum(char_cols(ch) for ch in text[a:b])


def _chunks(text, start, w, step=None):
    """[(start, end)] consecutive pieces of at most w columns, at least one character each"""
    out = []
    n = len(text)
    while start < n:
        end, cols = start, 0
        while end < n and cols + char_cols(text[end]) <= w:
            cols += char_cols(text[end])
            end += 1
        if end == start:
            end = start + 1  # cannot happen for w >= 2
        out.append((start, end))
        start = end
    return out


def gen_l_case(rng):
    enc = rng.choices(list(ENCODINGS), [5, 3, 1, 2])[0]
    n = rng.choice([3, 5, 8, 8, 12, 12, 18, 25])
    text = gen_text(rng, enc, False, n).replace("\n", "")
    if len(text) < 2:
        text = "XY"
    markup = gen_dense_markup(rng, text) if rng.random() < 0.5 else gen_markup(rng, text, 4, allow_empty=False)
    w = rng.choice([2, 3, 4, 4, 5, 6, 8, 10, 15])
    kind = rng.choice(LAYOUT_KINDS)
    N = len(text)
    lines = []
    fw = _chunks(text, 0, w)
    if kind == "forward":
        lines = [[["t", a, b]] for a, b in fw]
    elif kind == "overlap":
        k = rng.randint(1, 4)
        start = 0
        for _ in range(60):
            (a, b) = _chunks(text, start, w)[0]
            lines.append([["t", a, b]])
            if b >= N:
                break
            start = b - k if b - k > a else b
    elif kind == "reversed-lines":
        lines = [[["t", a, b]] for a, b in reversed(fw)]
    elif kind == "repeat":
        for a, b in fw:
            lines.append([["t", a, b]])
            if rng.random() < 0.5:
                lines.append([["t", a, b]])
        if rng.random() < 0.5:
            a, b = rng.choice(fw)
            lines.append([["t", a, b]])
    elif kind == "skip":
        start = rng.randint(0, min(3, N - 1))
        while start < N:
            (a, b) = _chunks(text, start, rng.randint(1, w) if w > 2 else w)[0]
            lines.append([["t", a, b]])
            start = b + rng.randint(0, 3)
    elif kind == "mirror":
        for a, b in fw:
            lines.append([["t", i, i + 1] for i in range(b - 1, a - 1, -1)])
    else:
        for _ in range(rng.randint(1, 6)):
            line, used = [], 0
            for _ in range(rng.randint(1, 4)):
                r = rng.random()
                left = w - used
                if left <= 0:
                    break
                if r < 0.6:
                    a = rng.randrange(N)
                    (a, b) = _chunks(text, a, min(left, rng.randint(1, w)))[0]
                    c = _text_cols(text, a, b)
                    if c > left:
                        continue
                    line.append(["t", a, b])
                    used += c
                elif r < 0.75:
                    nb = rng.randint(1, min(3, left))
                    line.append(["p", nb, None])
                    used += nb
                elif r < 0.9:
                    nb = rng.randint(1, min(3, left))
                    line.append(["p", nb, rng.randrange(N)])
                    used += nb
                else:
                    t = rng.choice(["~", ">>", "<-"])
                    if len(t) <= left:
                        line.append(["i", rng.randrange(N), t])
                        used += len(t)
            lines.append(line)
    # alignment-style padding in front of some lines
    if kind != "random" and rng.random() < 0.3:
        for line in lines:
            used = sum(_text_cols(text, sg[1], sg[2]) for sg in line if sg[0] == "t")
            if used < w and rng.random() < 0.6:
                line.insert(0, ["p", rng.randint(1, w - used), None])
    return {"k": "l", "enc": enc, "markup": markup, "w": w, "kind": kind, "lines": lines}


_L_CLASSES = {}


def _scripted_layout_class():
    if _L_CLASSES:
        return _L_CLASSES["cls"]
    import urwid

    class ScriptedLayout(urwid.TextLayout):
        """a user layout: returns the layout structure it was given"""

        def __init__(self, structure):
            self.structure = structure

        def supports_align_mode(self, align):
            return True

        def supports_wrap_mode(self, wrap):
            return True

        def layout(self, text, width, align, wrap):
            return [list(line) for line in self.structure]

        def pack(self, maxcol, layout):
            return maxcol

    _L_CLASSES["cls"] = ScriptedLayout
    return ScriptedLayout


def l_eval(case, stats=None):
    import urwid
    from urwid import util

    def cnt(name, n=1):
        if stats is not None:
            stats.count(name, n)

    enc, w = case["enc"], case["w"]
    mode = ENCODINGS[enc]
    src = M.flatten_markup(case["markup"], POOL)
    text = "".join(ch for ch, _a in src)
    out = []

    def attr_at(o):
        return src[o][1] if 0 <= o < len(src) else None

    # reference: expected rows from the segment list alone
    structure, want_rows = [], []
    backward = overlap = False
    high = 0
    for line in case["lines"]:
        segs, want = [], []
        for sg in line:
            if sg[0] == "t":
                _t, a, b = sg
                segs.append((_text_cols(text, a, b), a, b))
                for o in range(a, b):
                    want.append((text[o], {0: attr_at(o)}, char_cols(text[o])))
                if a < high:
                    backward = True
                    if b > 0 and a < high <= b:
                        overlap = True
                high = max(high, b)
            elif sg[0] == "p":
                _p, nb, offs = sg
                segs.append((nb, offs))
                # documented: blanks take the attribute at that offset (None: no attribute).  Offset 0 is
                # treated like None by the implementation; the statement does not decide: both accepted
                acc = {0: None} if offs is None else {0: attr_at(offs), 1: None}
                want += [(" ", acc, 1)] * nb
            else:
                _i, offs, t = sg
                segs.append((len(t), offs, t.encode("ascii")))
                want += [(ch, {0: attr_at(offs), 1: None}, 1) for ch in t]
        used = sum(c for _g, _a, c in want)
        want += [(" ", {0: None}, 1)] * (w - used)
        structure.append(segs)
        want_rows.append(want)
    old = util.get_encoding()
    util.set_encoding(enc)
    try:
        try:
            widget = urwid.Text(build_markup(case["markup"], enc, False), layout=_scripted_layout_class()(structure))
            canv = widget.render((w,))
            rows = [list(r) for r in canv.content()]
        except Exception as e:  # noqa: BLE001
            import traceback

            tb = traceback.extract_tb(e.__traceback__)
            where = tb[-1].name if tb else "?"
            out.append((f"C17|l|custom-layout|kind={case['kind']}|raise:{type(e).__name__}|in={where}", f"{type(e).__name__}: {e}"))
            return out
    finally:
        util.set_encoding(old)
    lk = "layout-steps-back-in-text" if backward else "layout-forward-only"
    cnt("l_rendered")
    cnt(f"l_kind_{case['kind']}")
    if backward:
        cnt("l_cases_stepping_back_in_text")
    if overlap:
        cnt("l_cases_segment_straddles_earlier_end")
    if len(rows) != len(want_rows):
        out.append((f"C17|l|custom-layout|{lk}|row-count-differs", f"{len(rows)} rows for {len(want_rows)} layout lines"))
        return out
    for y, (segs, want) in enumerate(zip(rows, want_rows)):
        try:
            items, split_attr, _split_cs = split_row(segs, mode)
        except ValueError:
            cnt("l_rows_undecodable_not_judged")
            continue
        if split_attr:
            out.append((f"C17|l|custom-layout|{lk}|attr-run-ends-inside-a-character", f"row {y}: {segs!r}"))
        got = [(_decode_item(b, cs, enc), a, wd) for b, wd, a, cs in items]
        if [g for g, _a, _w in got] != [g for g, _a, _w in want]:
            if sum(wd for _g, _a, wd in got) != w:
                out.append((f"C17|l|custom-layout|{lk}|row-width-differs-from-canvas", f"row {y}: {segs!r}"))
            else:
                cnt("l_rows_glyphs_differ_not_judged")
            continue
        cnt("l_rows_judged")
        for x, ((g, a, _wd), (_g2, acc, _w2)) in enumerate(zip(got, want)):
            cnt("l_cells_judged")
            if acc.get(0) is not None:
                cnt("l_cells_tagged")
            if any(_same(a, v) for v in acc.values()):
                continue
            nxt = want[x + 1][1].get(0) if x + 1 < len(want) else "<none>"
            prv = want[x - 1][1].get(0) if x > 0 else "<none>"
            if (_same(a, nxt) and not _same(a, prv)) or (_same(a, prv) and not _same(a, nxt)):
                how = "has-attr-of-neighbouring-cell"
            elif a is None:
                how = "lost-attr"
            else:
                how = "other-attr"
            cell = "blank" if g == " " else "char"
            out.append((f"C17|l|custom-layout|{lk}|cell-attr|{how}", f"kind={case['kind']} enc={mode} {cell} row {y} cell {x} {g!r}: attr {a!r}, the layout maps it to an offset whose tag is {acc.get(0)!r}; row={segs!r}; line={case['lines'][y]!r}"))
    return out


def l_shrink(case, sig, budget=100):
    def reproduces(c):
        try:
            return any(s == sig for s, _m in l_eval(c))
        except Exception:  # noqa: BLE001
            return False

    best = dict(case)
    tries = 0
    c2 = dict(best, markup=M.simplify(best["markup"]))
    tries += 1
    if reproduces(c2):
        best = c2
    changed = True
    while changed and tries < budget:
        changed = False
        for i in range(len(best["lines"]) - 1, -1, -1):
            if len(best["lines"]) <= 1 or tries >= budget:
                break
            c2 = dict(best, lines=best["lines"][:i] + best["lines"][i + 1 :])
            tries += 1
            if reproduces(c2):
                best = c2
                changed = True
        for i, line in enumerate(best["lines"]):
            for j in range(len(line) - 1, -1, -1):
                if len(line) <= 1 or tries >= budget:
                    break
                l2 = line[:j] + line[j + 1 :]
                c2 = dict(best, lines=best["lines"][:i] + [l2] + best["lines"][i + 1 :])
                tries += 1
                if reproduces(c2):
                    best = c2
                    line = l2
                    changed = True
    return best


# ---------------------------------------------------------------------------------------------- (p) partial-screen frames
# Directed core, never skipped: raw display started WITHOUT the alternate buffer; a frame whose lower rows are
# all-space rows carrying one attribute.  Every style flag alone and in combinations x default / non-default fg and bg
# x every colour depth x the attributed blank row followed by a default blank row / being the last row.
# case = {"k": "p", "depth", "bib", "flags": [...], "fg", "bg", "pos": "middle"|"last", "cols"}

P_FLAG_SETS = [[f] for f in M.SETTINGS] + [
    [],
    ["underline", "strikethrough"],
    ["bold", "italics"],
    ["bold", "underline"],
    ["blink", "strikethrough"],
    ["standout", "underline"],
    list(M.SETTINGS),
]
P_VISIBLE_ON_BLANK = ("underline", "standout", "strikethrough")


def p_core_cases():
    out = []
    for depth in DEPTHS:
        for flags in P_FLAG_SETS:
            for fg in ("default", "dark red"):
                for bg in ("default", "dark blue"):
                    for pos, bib in (("middle", False), ("last", False), ("middle", True), ("last", True)):
                        out.append({"k": "p", "depth": depth, "bib": bib, "flags": list(flags), "fg": fg, "bg": bg, "pos": pos, "cols": 6})
    return out


def p_eval(case, stats=None):
    import urwid
    from urwid import util
    from urwid.display import raw

    def cnt(name, n=1):
        if stats is not None:
            stats.count(name, n)

    out = []
    depth, bib, flags, cols = case["depth"], case["bib"], case["flags"], case["cols"]
    fgspec = ",".join([case["fg"], *flags])
    entry = (fgspec, case["bg"], ",".join(flags) or "default", fgspec, case["bg"])
    old_enc = util.get_encoding()
    old_term = os.environ.get("TERM")
    os.environ["TERM"] = "xterm"
    util.set_encoding("utf-8")
    cap = _Cap()
    inp = open(os.devnull)  # noqa: SIM115
    scr = None
    try:
        scr = raw.Screen(input=inp, output=cap)
        scr.set_terminal_properties(colors=depth, bright_is_bold=bib)
        scr.register_palette([("row", *entry)])
        scr.start(alternate_buffer=False)
        cap.buf.clear()
        texts = [b"top".ljust(cols), b" " * cols]
        attrs = [[(None, cols)], [("row", cols)]]
        if case["pos"] == "middle":
            texts.append(b" " * cols)
            attrs.append([(None, cols)])
        canv = urwid.TextCanvas(texts, attrs, maxcol=cols)
        scr.draw_screen((cols, len(texts)), canv)
        data = "".join(cap.buf).encode("utf-8")
        vt = VT(cols, len(texts) + 3, utf8=True, bce=True)
        vt.feed(data)
        cnt("p_frames")
        cnt(f"p_frames_depth_{depth}")
        exp = M.entry_expect(entry, depth)
        visible = sorted(set(flags) & set(P_VISIBLE_ON_BLANK))
        through = []
        if set(flags) & {"underline", "strikethrough"}:
            through.append("line-style")
        if "standout" in flags:
            through.append("standout")
        if case["bg"] != "default" and depth != 1:
            through.append("background")
        if through == ["line-style"]:
            cnt("p_frames_visible_through_line_style_only")
        if not through:
            cnt("p_frames_nothing_visible_on_blanks")
        if vt.row_text(0)[:3] != "top":
            cnt("p_frames_first_row_missing_not_judged")
            return out
        bad_all = set()
        for x in range(cols):
            cell = vt.cells[1][x]
            if cell.ch != " ":
                bad_all.add("glyph")
                continue
            bad = c_cell_ok(cell, exp, bib)
            vis = {"bg", "underline", "standout", "strikethrough"}
            if "standout" in flags and cell.reverse:
                vis |= {"fg", "bold"}
            bad = [b for b in bad if b in vis]
            cnt("p_blank_row_cells_judged")
            if through:
                cnt("p_blank_row_cells_must_show_attribute")
            bad_all |= set(bad)
        if bad_all:
            default_like = all(not [b for b in c_cell_ok(vt.cells[1][x], DEFAULT_EXP, bib) if b in ("bg", "underline", "standout", "strikethrough")] for x in range(cols))
            if default_like and through:
                sig = f"C17|p|partial-screen|all-space-row-with-visible-attribute-not-painted|visible-through={'+'.join(through)}"
            else:
                sig = f"C17|p|partial-screen|all-space-row|wrong:{'+'.join(sorted(bad_all))}"
            out.append((sig, f"depth {depth} entry {entry!r} row position {case['pos']}: blank row decoded {[vt.cells[1][x].style() for x in range(2)]!r}..., palette says bg in {sorted(map(repr, exp[1]))} visible flags {visible}; output={data!r}"))
    except Exception as e:  # noqa: BLE001
        import traceback

        tb = traceback.extract_tb(e.__traceback__)
        out.append((f"C17|p|partial-screen|raise:{type(e).__name__}|in={tb[-1].name if tb else '?'}", f"{type(e).__name__}: {e}"))
    finally:
        try:
            if scr is not None and scr._started:
                scr.stop()
        except Exception:  # noqa: BLE001
            pass
        inp.close()
        util.set_encoding(old_enc)
        if old_term is None:
            os.environ.pop("TERM", None)
        else:
            os.environ["TERM"] = old_term
    return out


def p_shrink(case, sig, budget=0):
    return case


# ---------------------------------------------------------------------------------------------- shrinking (b), (c)


def _b_node_variants(node):
    """smaller trees: a decoration replaced by its child, a container by one child, one container item dropped"""
    k = node[0]
    if k == "map":
        yield node[4]
        for v in _b_node_variants(node[4]):
            yield [*node[:4], v]
        if node[3] is not None:
            yield [node[0], node[1], node[2], None, node[4]]
        for idx in (2, 3):
            spec = node[idx]
            if spec and spec[0] == "dict" and len(spec[1]) > 0:
                for i in range(len(spec[1])):
                    n2 = list(node)
                    n2[idx] = ["dict", spec[1][:i] + spec[1][i + 1 :]]
                    yield n2
    elif k in ("fill", "apply"):
        yield node[2]
        for v in _b_node_variants(node[2]):
            yield [node[0], node[1], v]
    elif k == "pile":
        items = node[2]
        for i, it in enumerate(items):
            if it[0] != "given":
                yield it
            if len(items) > 1:
                rest = items[:i] + items[i + 1 :]
                yield ["pile", min(node[1] - (1 if i < node[1] else 0), len(rest) - 1), rest]
            sub = it[2] if it[0] == "given" else it
            for v in _b_node_variants(sub):
                if it[0] == "given" and v[0] not in ("solid", "map", "fill", "apply"):
                    continue
                yield ["pile", node[1], items[:i] + [["given", it[1], v] if it[0] == "given" else v] + items[i + 1 :]]
    elif k == "cols":
        items = node[3]
        for i, (w, c) in enumerate(items):
            yield c
            if len(items) > 1:
                rest = items[:i] + items[i + 1 :]
                yield ["cols", min(node[1] - (1 if i < node[1] else 0), len(rest) - 1), node[2], rest]
            for v in _b_node_variants(c):
                yield ["cols", node[1], node[2], items[:i] + [[w, v]] + items[i + 1 :]]
    elif k == "pad":
        yield node[3]
        for v in _b_node_variants(node[3]):
            yield ["pad", node[1], node[2], v]
    elif k == "lbox":
        yield node[1]
        for v in _b_node_variants(node[1]):
            yield ["lbox", v]
    elif k == "text" and len(node[1]) > 1:
        yield ["text", node[1][:-1], node[2][:-1]]
        yield ["text", node[1][1:], node[2][1:]]
    elif k == "edit":
        if node[1]:
            yield ["edit", node[1][:-1], node[2], node[3]]
        if len(node[3]) > 1:
            yield ["edit", node[1], node[2], node[3][:-1]]


def b_shrink(case, sig, budget=150):
    import copy

    def reproduces(c):
        try:
            return any(s == sig for s, _m in b_eval(c))
        except Exception:  # noqa: BLE001
            return False

    best = copy.deepcopy(case)
    tries = 0
    for key, val in (("canvas_ops", []), ("mut", None)):
        if best[key]:
            c2 = dict(best, **{key: val})
            tries += 1
            if reproduces(c2):
                best = c2
    changed = True
    while changed and tries < budget:
        changed = False
        for v in _b_node_variants(best["tree"]):
            if tries >= budget:
                break
            v = copy.deepcopy(v)
            try:
                b_fix_widths(v)
                w = max(b_min_width(v), min(best["w"], b_min_width(v) + 1))
            except Exception:  # noqa: BLE001
                continue
            c2 = dict(best, tree=v, w=w)
            tries += 1
            if reproduces(c2):
                best = c2
                changed = True
                break
    return best


def c_shrink(case, sig, budget=120):
    import copy

    def reproduces(c):
        try:
            return any(s == sig for s, _m in c_eval(c))
        except Exception:  # noqa: BLE001
            return False

    best = copy.deepcopy(case)
    tries = 0
    changed = True
    while changed and tries < budget:
        changed = False
        # drop one op
        for i in range(len(best["ops"]) - 1, -1, -1):
            if tries >= budget:
                break
            ops = best["ops"][:i] + best["ops"][i + 1 :]
            if not any(o[0] == "draw" for o in ops):
                continue
            c2 = dict(best, ops=ops)
            tries += 1
            if reproduces(c2):
                best = c2
                changed = True
        # drop one row
        for i in range(len(best["rows"]) - 1, -1, -1):
            if len(best["rows"]) <= 1 or tries >= budget:
                break
            c2 = dict(best, rows=best["rows"][:i] + best["rows"][i + 1 :])
            if best.get("blanks"):
                c2["blanks"] = best["blanks"][:i] + best["blanks"][i + 1 :]
            tries += 1
            if reproduces(c2):
                best = c2
                changed = True
        # drop one column
        for x in range(len(best["rows"][0]) - 1, -1, -1):
            if len(best["rows"][0]) <= 2 or tries >= budget:
                break
            c2 = dict(best, rows=[r[:x] + r[x + 1 :] for r in best["rows"]])
            if best.get("blanks"):
                c2["blanks"] = [[b - (1 if b > x else 0) for b in bl if b != x] for bl in best["blanks"]]
            tries += 1
            if reproduces(c2):
                best = c2
                changed = True
    return best


# ---------------------------------------------------------------------------------------------- driver

EVAL = {"a": a_eval, "b": b_eval, "c": c_eval, "l": l_eval, "p": p_eval}
SHRINK = {"a": a_shrink, "b": b_shrink, "c": c_shrink, "l": l_shrink, "p": p_shrink}


def judge(ctx, case, shrink=True):
    """evaluate one case with counters; report violations (shrunk the first time a signature is seen)"""
    k = case["k"]
    try:
        res = EVAL[k](case, ctx)
    except Skip:
        ctx.count(f"{k}_skipped_generator")
        return
    ctx.count(f"{k}_cases")
    seen = set()
    for sig, msg in res:
        if sig in seen:
            continue
        seen.add(sig)
        norm = sig.replace(" ", "_")
        if shrink and norm not in ctx.violations and not ctx.replaying:
            small = SHRINK[k](case, sig)
            msg2 = next((m for s, m in EVAL[k](small) if s == sig), None)
            if msg2 is not None:
                ctx.violation(sig, msg2, small)
                continue
        ctx.violation(sig, msg, case)


def run(ctx):
    import urwid
    from urwid import canvas, util
    from urwid.display import _raw_display_base as rdb
    from urwid.display import common as dcommon

    warnings.simplefilter("ignore")
    reach.watch(
        util.decompose_tagmarkup,
        util._tagmarkup_recurse,
        canvas.apply_text_layout,
        canvas.TextCanvas.content,
        canvas.CompositeCanvas.fill_attr,
        canvas.CompositeCanvas.fill_attr_apply,
        urwid.AttrMap.render,
        dcommon.BaseScreen.register_palette,
        dcommon.BaseScreen.register_palette_entry,
        rdb.Screen._on_update_palette_entry,
        rdb.Screen._attrspec_to_escape,
        rdb.Screen.draw_screen,
    )
    rng = ctx.rng
    # fixed regression seeds: the design's candidate (left-cut wide character, shifted Edit view, DEC glyphs)
    fixed = [
        {"k": "a", "enc": "euc-jp", "bytes": False, "widget": "text", "w": 6, "wrap": "clip", "align": "right", "markup": ["L", [["T", 1, ["S", "A漢"]], ["T", 2, ["S", "B─"]], ["T", 3, ["S", "C│D"]]]]},
        {"k": "a", "enc": "euc-jp", "bytes": False, "widget": "edit", "w": 5, "wrap": "clip", "align": "left", "markup": ["T", 1, ["S", "漢A"]], "edit_text": "字B─C│DあE", "pos": 9, "focus": True},
        {"k": "a", "enc": "utf-8", "bytes": False, "widget": "edit", "w": 4, "wrap": "clip", "align": "left", "markup": ["L", [["T", 1, ["S", "é漢"]], ["T", 2, ["S", "字x"]]]], "edit_text": "日y本z", "pos": 4, "focus": True},
    ]
    if ctx.shard == 0:
        for case in fixed:
            judge(ctx, case)
            ctx.case(case)
            ctx.count("a_fixed_seed_cases")
    # directed core, never skipped (statically partitioned over the shards): partial-screen frames
    for i, case in enumerate(p_core_cases()):
        if ctx.mine(i):
            judge(ctx, case)
            ctx.case(case)
    n = 0
    cap = ctx.pick(40000, 1500000)
    while ctx.more(0.4) and n < cap:
        n += 1
        case = gen_a_case(rng)
        judge(ctx, case)
        if case["widget"] == "edit":
            ctx.count("a_edit_cases")
        ctx.count(f"a_cases_wrap_{case['wrap']}")
        ctx.count(f"a_cases_enc_{case['enc']}")
        ctx.count(f"a_cases_markup_depth_{min(M.markup_depth(case['markup']), 5)}")
        ctx.case(case)
        if n <= 1:
            ctx.sample(case)
    n = 0
    while ctx.more(0.5) and n < cap:
        n += 1
        case = gen_l_case(rng)
        judge(ctx, case)
        ctx.case(case)
        if n <= 1:
            ctx.sample(case)
    n = 0
    while ctx.more(0.7) and n < cap:
        n += 1
        case = gen_b_case(rng)
        judge(ctx, case)
        ctx.case(case)
        if n <= 1:
            ctx.sample(case)
    n = 0
    while ctx.more(1.0) and n < cap:
        n += 1
        case = gen_c_case(rng)
        judge(ctx, case)
        ctx.count("c_scenarios")
        ctx.case(case)
        if n <= 1:
            ctx.sample(case)
    reach.flush(ctx)


def replay(ctx, wit):
    warnings.simplefilter("ignore")
    judge(ctx, wit, shrink=False)
    ctx.case(wit)
