"""C05 terminal input decoding under fragmentation: schedule-exploring monitor.

Boundary: urwid.display.raw.Screen.parse_input(event_loop, callback, codes) fed through the real
get_available_raw_input() (carry-over of _partial_codes) with a stubbed _get_input_codes and a fake
event loop whose alarm is a *virtual* completion timer the monitor fires or not; plus the blocking
Screen.get_input(raw_keys=True) path under a virtual _wait_for_input_ready and on a real pipe.
escape.process_keyqueue is wrapped from outside to observe every top-level decode step.

Oracles (see DESIGN 3/C05): (a) totality + left-to-right partition, (b) naming against
vmon.models.c05_decoder, (c) fragmentation / timer metamorphic equalities, (d) garbage pass-through,
(e) the same on the get_input path.
"""

from __future__ import annotations

import io
import itertools
import os
import re
import sys
import traceback

from vmon import reach
from vmon.models import c05_decoder as M

PROPERTY = "C05"
LEVEL = "exploration"
SHARDS = {"quick": 8, "thorough": 16}
BUDGET = {"quick": 26.0, "thorough": 400.0}
REQUIRE = {
    "streams": 2000,
    "deliveries": 30000,
    "oracle_a_partition_checks": 40000,
    "oracle_a_steps_checked": 60000,
    "oracle_b_naming_streams": 500,
    "oracle_b_tokens_matched": 2000,
    "oracle_c_nofire_equal": 8000,
    "oracle_c_fire_equal": 15000,
    "oracle_c_cut_left_pending": 30000,
    "oracle_c_timer_flushed_pending": 15000,
    "oracle_d_garbage_streams": 150,
    "oracle_e_get_input_cases": 300,
    "oracle_e_realfd_cases": 60,
    "oracle_e_get_input_fds_cases": 300,
    "oracle_e_resize_wakeups_while_pending": 500,
    "oracle_e_equal_with_resize_while_pending": 500,
    "oracle_b_esc_prefixed_table_judged": 1404,
    "oracle_b_esc_prefixed_meta_named_judged": 300,
    "oracle_b_esc_nested_judged": 230,
    "wide_pairs_judged:pair": 600,
    "wide_pairs_judged:not-pair": 600,
    "esc_depth:2": 75,
    "esc_depth:3": 75,
    "esc_depth:4": 75,
    "oracle_a_event_names_checked": 100000,
    "schedules_mixed_entry": 2000,
    "rehook:with-bytes-pending": 900,
    "rehook:nothing-pending": 100,
    "rehook_via:direct": 400,
    "rehook_via:signal": 400,
    "oracle_c_equal_across_rehook_with_bytes_pending": 900,
    "throttle_wait:chunk": 400,
    "throttle_wait:chunk+resize": 400,
    "throttle_wait:resize": 100,
    "container:list": 1500,
    "transition:list-left-pending->read": 400,
    "transition:read-left-pending->list": 400,
    "transition:list-left-pending->get_input": 400,
    "container:bytearray": 1500,
    "transition:bytearray-left-pending->read": 400,
    "transition:read-left-pending->bytearray": 400,
    "transition:bytearray-left-pending->get_input": 400,
    "container:bytes": 1500,
    "transition:bytes-left-pending->read": 400,
    "transition:read-left-pending->bytes": 400,
    "transition:bytes-left-pending->get_input": 400,
    "container:tuple": 1500,
    "transition:tuple-left-pending->read": 400,
    "transition:read-left-pending->tuple": 400,
    "transition:tuple-left-pending->get_input": 400,
    "table_entries_seen": 400,
    "x10_reports": 1000,
    "sgr_reports": 1500,
    "cpr_reports": 100,
    "oracle_d_garbage_tokens_passed": 150,
    "oracle_e_equal": 200,
    "mode:utf8": 500,
    "mode:wide": 500,
    "mode:narrow": 500,
    "random_token_streams": 100,
    "random_mutated_streams": 50,
    "random_soup_streams": 50,
    "reach:display.escape.KeyqueueTrie.read_mouse_info": 1000,
    "reach:display.escape.KeyqueueTrie.read_sgrmouse_info": 1000,
    "reach:display.escape.KeyqueueTrie.read_cursor_position": 1000,
    "reach:display._raw_display_base.Screen.get_available_raw_input": 10000,
}
RULE = (
    "a case = (encoding mode, token stream, cut points, set of cuts at which the virtual completion timer fires); "
    "streams: every input_sequences entry alone and in context, X10 reports over every button byte x coordinate bytes, "
    "SGR reports over button codes 0..255 x M/m x coordinates, CPR, UTF-8 scalars of all lengths / double-byte "
    "characters / 8-bit bytes, all C0 controls, ESC-prefixed (meta) forms, malformed and truncated sequences, invalid "
    "UTF-8, random byte soup and mutated token streams; every stream of <= 12 bytes gets all 1-cuts and all 2-cut "
    "pairs x all fire patterns, longer ones random k-cuts; on the blocking get_input path the schedule also contains "
    "SIGWINCH wake-ups of the resize pipe after cuts (real _sigwinch_handler; descriptors real or virtual); ESC + every "
    "named sequence in all three modes against the absolute rule; each chunk enters either through the read path "
    "(get_available_raw_input / get_input) or is handed to parse_input directly in a list / bytearray / bytes / tuple "
    "(carrying over what is pending), mixed within one stream; distinct = distinct (mode, bytes, cuts, fires, resizes, path); "
    "non-trivial = at least one byte delivered"
)
ASSUMES = [
    "parse_input's `codes` may be any sequence of ints the docstring / process_keyqueue's Sequence[int] allows: list, bytearray "
    "('appropriate'), bytes (iterates as ints on Python 3), tuple; an application that hands a chunk itself prepends "
    "screen._partial_codes exactly as get_available_raw_input does",
    "input codes are bytes 0..255 (the gpm path's synthetic codes > 255 are outside 'byte stream from the terminal')",
    "naming is judged only inside the documented domain: mouse buttons 1-5 / release, modifiers shift/meta/ctrl, no "
    "motion-without-button, no wheel release; a CPR that is textually a table entry (ESC[1;2R = 'shift f3') is ambiguous "
    "and not judged; ESC followed by a mouse report / a 'meta ...' key / a CPR has no documented name and is judged for "
    "totality and fragmentation only",
    "wide mode: which two bytes form one double-byte character is the documented layout of the supported encodings (lead "
    "0x81..0xFE, trail 0x40..0x7E / 0x80..0xFE); a second byte < 0x40 or DEL never pairs; lead 0x80 / 0xFF or trail 0xFF "
    "with an 8-bit partner, and 0xFF + 0x40..0x7E (urwid pairs these) are outside the layout and not judged",
    "ESC-prefix rule for any nesting depth: the first event of what follows ESC takes 'meta ', unless it is a report, 'esc' or "
    "already carries 'meta ' - then ESC is its own 'esc' event; the rest of the inner run is reported unchanged (ESC^k + token, k<=4)",
    "'meta' rule from the documentation (ALT+J -> 'meta j'): ESC + key -> 'meta <key>', also for ESC + named sequence; a key "
    "carries 'meta' at most once, so ESC before a name that already contains 'meta ' (or before esc / a report) is its own "
    "'esc' event (tests/test_escapes.py test_esc_meta_1, test_bug_104): ESC+S -> ['meta '+N] if 'meta ' not in N else ['esc', N]",
    "documented event-name grammar: modifiers shift/meta/ctrl each at most once, then a base key of the name table / tab, "
    "enter, backspace, esc / one character (two in a wide encoding) / '<n>' pass-through; every event of every delivery is checked",
    "blocking-path schedules: one event (chunk / SIGWINCH / chunk+SIGWINCH / silence) per wait made by get_input; resize_wait "
    "is shorter than complete_wait, so a throttle wait that finds silence does not consume the scheduled expiry; once the "
    "expiry is delivered the terminal stays silent until nothing is pending; get_input returning with bytes pending is a "
    "violation (nothing would flush them: the next call blocks for max_wait, default for ever)",
    "re-hook (unhook_event_loop + hook_event_loop, directly or via INPUT_DESCRIPTORS_CHANGED with a MainLoop-like owner) "
    "must keep the pending tail AND keep a completion timeout running for it; 'window resize' events on the hooked screen "
    "(chained SIGWINCH handlers of other started screens) are not part of the input stream and are ignored",
    "a SIGWINCH wake-up while bytes are pending is not a timeout: 'window resize' events are removed before comparing with the "
    "event-loop path, and at least one must be reported per case with a wake-up",
    "an SGR report with three decimal fields but a zero coordinate (ESC[<0;0;0M -> x=y=-1) is outside the 1-based protocol; the "
    "documentation allows coordinates 'one position off the screen', so it is not judged (neither as report nor as garbage)",
    "pass-through of a malformed escape sequence = 'meta <first char>' followed by one event per remaining byte; names "
    "of pass-through events for NUL / invalid UTF-8 / stray lead bytes are not specified (any single key event)",
    "'timeout expired' on the event-loop path = the alarm registered with the loop is invoked; on the blocking path = "
    "_wait_for_input_ready reports no descriptor ready (virtual) / nothing written to the pipe with complete_wait=0 (real)",
    "timer-fired equality is metamorphic: events == decode(bytes before the fired cut) ++ decode(bytes after it), both by urwid",
]

MODES = M.MODES


class NoProgress(Exception):
    pass


# ------------------------------------------------------------------ fake loop


class FakeLoop:
    def __init__(self):
        self.pending = {}
        self.watches = {}
        self.n = 0
        self.bad = []

    def alarm(self, seconds, callback):
        self.n += 1
        self.pending[self.n] = (seconds, callback)
        return self.n

    def remove_alarm(self, handle):
        if handle in self.pending:
            del self.pending[handle]
            return True
        self.bad.append(handle)
        return False

    # file watches (used when the screen is really hooked with hook_event_loop)
    def watch_file(self, fd, callback):
        self.n += 1
        self.watches[self.n] = (fd, callback)
        return self.n

    def remove_watch_file(self, handle):
        return self.watches.pop(handle, None) is not None


# ------------------------------------------------------------------ environment (real urwid side)


class Env:
    """owns the Screens, the process_keyqueue wrapper and the global encoding"""

    def __init__(self):
        import urwid
        from urwid import str_util, util
        from urwid.display import escape, raw

        self.urwid = urwid
        from urwid.display.common import INPUT_DESCRIPTORS_CHANGED

        self.INPUT_DESCRIPTORS_CHANGED = INPUT_DESCRIPTORS_CHANGED
        self.escape = escape
        self.raw = raw
        self.util = util
        self.str_util = str_util
        self.saved_encoding = (util._target_encoding, util._use_dec_special, str_util.get_byte_encoding())
        self.mode = None
        self.screen = None
        self.steps = None  # list of (consumed bytes, run) for top-level decode steps
        self.depth = 0
        self.orig_pkq = escape.process_keyqueue
        env = self

        def pkq(codes, more_available):
            top = env.depth == 0
            env.depth += 1
            try:
                run, rest = env.orig_pkq(codes, more_available)
            finally:
                env.depth -= 1
            if top and env.steps is not None:
                n, r = len(codes), len(rest)
                if not (r < n and list(codes[n - r :]) == list(rest)):
                    env.steps.append(("BAD", list(codes), run, list(rest)))
                    raise NoProgress(f"process_keyqueue({list(codes)!r}) returned rest {list(rest)!r}")
                env.steps.append((bytes(codes[: n - r]), run))
            return run, rest

        escape.process_keyqueue = pkq
        self.model = M.Model(list(escape.input_sequences))
        self.gi = None  # get_input screens
        self.hscreen = None
        self.hpipe = None
        self.names_ok = {m: set() for m in MODES}  # event names already validated against the grammar

    def close(self):
        self.escape.process_keyqueue = self.orig_pkq
        self.util._target_encoding, self.util._use_dec_special = self.saved_encoding[:2]
        self.str_util.set_byte_encoding(self.saved_encoding[2])
        if self.gi is not None:
            self.gi.close()
        if self.hscreen is not None:
            self.hscreen.stop()
        if self.hpipe is not None:
            self.hpipe[0].close()
            os.close(self.hpipe[1])

    def set_mode(self, mode):
        if mode != self.mode:
            self.util.set_encoding(M.MODE_ENCODING[mode])
            assert self.str_util.get_byte_encoding() == mode
            self.mode = mode

    def new_screen(self):
        s = self.raw.Screen(input=object(), output=io.StringIO())
        self.screen = s
        return s

    def hooked_screen(self):
        """a started POSIX raw Screen on a pipe, so that hook_event_loop() registers real watches"""
        s = self.hscreen
        if s is None or s._partial_codes or s._input_timeout is not None or "_get_input_codes" in s.__dict__:
            if s is not None:
                s.stop()
            if self.hpipe is None:
                r, w = os.pipe()
                self.hpipe = (os.fdopen(r, "rb", 0), w)
            s = self.raw.Screen(input=self.hpipe[0], output=io.StringIO())
            s.start()
            self.hscreen = s
        return s

    def clean_screen(self):
        s = self.screen
        if s is None or s._partial_codes or s._input_timeout is not None or "_get_input_codes" in s.__dict__:
            s = self.new_screen()
        return s


class Delivery:
    __slots__ = ("events", "raw", "steps", "error", "problems", "left_pending", "flushed", "calls", "resize_events", "resize_while_pending", "names_checked", "marks")

    def __init__(self):
        self.events = []
        self.raw = []
        self.steps = []
        self.error = None  # (exc type name, where, normalised message, traceback text)
        self.problems = []  # (sig tail, message)
        self.left_pending = 0
        self.flushed = 0
        self.calls = 0
        self.resize_events = 0
        self.names_checked = 0
        self.marks = []  # counter keys: container types used, entry-point transitions taken
        self.resize_while_pending = 0


_NUM = re.compile(r"\d+")
_QUOTED = re.compile(r"'[^']*'|\"[^\"]*\"")


def exc_info(e):
    tb = traceback.extract_tb(e.__traceback__)
    where = "?"
    for fr in reversed(tb):
        if "/urwid/" in fr.filename and not fr.name.startswith("<"):
            where = fr.name
            break
    msg = _NUM.sub("N", _QUOTED.sub("Q", str(e)))[:60]
    msg = msg.split(":")[0] if isinstance(e, (ValueError, TypeError)) and ":" in msg else msg
    if isinstance(e, TypeError) and where == "within_double_byte":
        msg = "str-not-bytes" if isinstance(e.args[0], str) else msg
    return (type(e).__name__, where, msg.strip().replace(" ", "_"), "".join(traceback.format_exception(e, limit=-3))[-900:])


CONTAINERS = {"list": list, "bytearray": bytearray, "bytes": bytes, "tuple": tuple}


def entry_marks(d, prev, ent, how_read):
    """prev = (entry of the previous chunk, did it leave bytes pending)"""
    d.marks.append(f"container:{ent}" if ent else f"entry:{how_read}")
    if prev is not None and prev[1]:
        d.marks.append(f"transition:{prev[0] or how_read}-left-pending->{ent or how_read}")


def deliver(env: Env, mode, data: bytes, cuts=(), fires=(), entries=None, rehooks=None, via="direct") -> Delivery:
    """feed `data` cut at `cuts` through parse_input; fire the virtual timer at the cuts listed in `fires`
    and once more at the end (end of stream = the terminal is silent, the timeout expires).
    rehooks is not None: the screen is started and really hooked (screen.hook_event_loop(loop, cb)); chunks are read
    by the registered watch callback; after the cuts in `rehooks` the owner re-hooks the screen (unhook + hook, directly
    or through the INPUT_DESCRIPTORS_CHANGED signal like MainLoop._reset_input_descriptors) before the remainder arrives"""
    env.set_mode(mode)
    hooked = rehooks is not None
    s = env.hooked_screen() if hooked else env.clean_screen()
    loop = FakeLoop()
    d = Delivery()
    env.steps = d.steps
    rehooked = [False]

    def cb(keys, raw):
        d.calls += 1
        d.events.extend(keys)
        d.raw.extend(raw)

    bounds = [0, *cuts, len(data)]
    delivered = 0
    entries = entries or {}
    prev = None

    def rehook():
        s.unhook_event_loop(loop)
        s.hook_event_loop(loop, cb)

    if hooked:
        s.hook_event_loop(loop, cb)
        if via == "signal":
            env.urwid.connect_signal(s, env.INPUT_DESCRIPTORS_CHANGED, rehook)

    def invariants(stage):
        pend = list(s._partial_codes)
        if rehooked[0] and pend and not loop.pending:
            rehooked[0] = False
            d.problems.append(("alarm|completion-timer-not-rearmed-after-rehook", f"pending={pend}, no alarm {stage}"))
            return pend
        rehooked[0] = False
        if len(loop.pending) > 1:
            d.problems.append(("alarm|more-than-one-pending", f"{len(loop.pending)} alarms pending {stage}"))
        if loop.bad:
            d.problems.append(("alarm|removed-unknown-handle", f"{loop.bad} {stage}"))
            del loop.bad[:]
        if bool(pend) != bool(loop.pending):
            d.problems.append(
                ("alarm|pending-bytes-without-timer" if pend else "alarm|timer-without-pending-bytes", f"pending={pend} alarms={len(loop.pending)} {stage}")
            )
        if loop.pending:
            sec = next(iter(loop.pending.values()))[0]
            if sec != s.complete_wait:
                d.problems.append(("alarm|not-complete_wait", f"alarm in {sec}s, complete_wait={s.complete_wait}"))
            if s._input_timeout not in loop.pending:
                d.problems.append(("alarm|handle-not-remembered", f"_input_timeout={s._input_timeout!r} {stage}"))
        if bytes(d.raw) != data[: len(d.raw)]:
            d.problems.append(("partition|raw-not-a-prefix-of-input", f"raw={d.raw} input={list(data)} {stage}"))
        elif bytes(d.raw) + bytes(pend) != data[:delivered]:
            kind = "lost" if len(d.raw) + len(pend) < delivered else "duplicated"
            d.problems.append((f"partition|bytes-{kind}", f"raw={d.raw} pending={pend} delivered={list(data[:delivered])} {stage}"))
        return pend

    try:
        for i in range(len(bounds) - 1):
            chunk = data[bounds[i] : bounds[i + 1]]
            delivered = bounds[i + 1]
            ent = entries.get(bounds[i])
            entry_marks(d, prev, ent, "read")
            if ent is None:
                # the event-loop read path: get_available_raw_input() prepends the carried-over codes
                s._get_input_codes = lambda chunk=chunk: list(chunk)
                if hooked:
                    next(iter(loop.watches.values()))[1]()  # the watch callback registered by hook_event_loop
                else:
                    s.parse_input(loop, cb, s.get_available_raw_input())
            else:
                # the application read this chunk itself and hands it to parse_input in a container of its choice
                # (docstring: "a sequence of keycodes ... A bytearray is appropriate"), carrying over what is pending
                s.__dict__.pop("_get_input_codes", None)
                s.parse_input(loop, cb, CONTAINERS[ent]([*s._partial_codes, *chunk]))
            pend = invariants(f"after chunk {i}")
            prev = (ent, bool(pend))
            last = i == len(bounds) - 2
            if pend and not last:
                d.left_pending += 1
            if hooked and not last and bounds[i + 1] in rehooks:
                d.marks.append("rehook:with-bytes-pending" if pend else "rehook:nothing-pending")
                d.marks.append(f"rehook_via:{via}")
                if via == "signal":
                    env.urwid.emit_signal(s, env.INPUT_DESCRIPTORS_CHANGED)
                else:
                    rehook()
                rehooked[0] = True
                nprob = len(d.problems)
                invariants(f"after re-hook at {bounds[i + 1]}")
                if len(d.problems) > nprob and bounds[i + 1] in fires:
                    d.marks.append("stopped-early")
                    break  # no timer is running for the pending bytes, so the scheduled expiry cannot be delivered
            if (last or bounds[i + 1] in fires) and loop.pending:
                h = next(iter(loop.pending))
                _sec, fn = loop.pending.pop(h)
                fn()
                d.flushed += 1
                pend2 = invariants(f"after timer at {bounds[i + 1]}")
                if pend2 or loop.pending:
                    d.problems.append(("timer|pending-bytes-survive-expiry", f"pending={pend2} after timer at {bounds[i + 1]}"))
                if len(d.raw) != delivered:
                    d.problems.append(("timer|pending-bytes-not-reported", f"raw={d.raw} delivered={list(data[:delivered])}"))
    except Exception as e:  # noqa: BLE001
        d.error = exc_info(e)
        env.screen = None
    finally:
        env.steps = None
        if env.screen is not None:
            env.screen.__dict__.pop("_get_input_codes", None)
        if hooked:
            s.__dict__.pop("_get_input_codes", None)
            if via == "signal":
                env.urwid.disconnect_signal(s, env.INPUT_DESCRIPTORS_CHANGED, rehook)
            try:
                s.unhook_event_loop(loop)
            except Exception:  # noqa: BLE001
                pass
            if d.error is not None or d.problems:
                s._partial_codes = []
                s._input_timeout = None
    if hooked:
        # SIGWINCH handlers of started screens chain to each other; a resize is not part of the input stream
        d.events = [e for e in d.events if e != "window resize"]
    if d.error is None and "stopped-early" not in d.marks:
        if bytes(d.raw) != data:
            d.problems.append(("partition|raw-incomplete-at-end", f"raw={d.raw} input={list(data)}"))
        # every top-level decode step: consumed >= 1 byte (checked in the wrapper), events are str / tuple
        for st in d.steps:
            run = st[1]
            if not run or not all((isinstance(e, str) and e) or isinstance(e, tuple) for e in run):
                d.problems.append(("step|empty-or-illtyped-events", f"step {st!r}"))
        # only documented event names may ever be produced
        ok, bases = env.names_ok[mode], env.model.bases
        for e in d.events:
            if e not in ok:
                why = M.name_problem(e, bases, mode)
                if why is None:
                    if len(ok) < 200000:
                        ok.add(e)
                else:
                    d.problems.append((f"names|undocumented-event-name|{why}", f"event {e!r} from input {list(data)} in {mode} mode"))
                    break
        d.names_checked = len(d.events)
    return d


# ------------------------------------------------------------------ blocking path (get_input)


class GetInputRig:
    """a started Screen reading from a pipe; `virtual` mode replaces _wait_for_input_ready/_get_input_codes by a
    schedule of arrivals / expiries (a virtual clock for the blocking path)"""

    def __init__(self, env: Env):
        self.env = env
        self.r, self.w = os.pipe()
        self.rfile = os.fdopen(self.r, "rb", 0)
        self.screen = None
        self.dirty = False

    def fresh(self):
        if self.screen is not None:
            self.screen.stop()
        s = self.env.raw.Screen(input=self.rfile, output=io.StringIO())
        s.set_input_timeouts(max_wait=0, complete_wait=0, resize_wait=0)
        s.start()
        self.screen = s
        self.dirty = False
        return s

    def get(self):
        s = self.screen
        if s is None or self.dirty or s._partial_codes or s.prev_input_resize or "_get_input_codes" in s.__dict__:
            s = self.fresh()  # (prev_input_resize: the resize throttle state of an earlier case must not leak)
        return s

    def close(self):
        if self.screen is not None:
            self.screen.stop()
        self.rfile.close()
        os.close(self.w)


def deliver_get_input(env: Env, mode, data: bytes, cuts=(), fires=(), real=False, resizes=(), fds=False, entries=None, joint=()) -> Delivery:
    """blocking path.  real: whole data written to the pipe, nothing stubbed.  Otherwise a schedule of events
    (chunk arrives / SIGWINCH wakes the resize pipe / the wait times out) is consumed one event per
    _wait_for_input_ready call made by get_input: fds=False answers the wait from the schedule (virtual),
    fds=True applies the event to the real descriptors (os.write to the input pipe, the real _sigwinch_handler)
    and then lets the real selector-based wait run with all timeouts 0."""
    env.set_mode(mode)
    if env.gi is None:
        env.gi = GetInputRig(env)
    rig = env.gi
    s = rig.get()
    # timeouts: the real-pipe variant really waits (all 0); the scheduled variants never wait in real time, their
    # timeout values only identify which wait is asking (complete_wait 7 > resize_wait 3)
    s.set_input_timeouts(0, 0, 0) if real else s.set_input_timeouts(0, 7.0, 3.0)
    d = Delivery()
    bounds = [0, *cuts, len(data)]
    # schedule: at offset p first the SIGWINCHs listed for p (resizes is a multiset of offsets), then the expiry if the
    # timer fires at p, then the chunk starting at p; a p in `joint` merges one of its SIGWINCHs with that chunk
    # (bytes and resize arrive during the same wait)
    queue = []
    resizes = list(resizes)
    for i in range(len(bounds)):
        p = bounds[i]
        last = i == len(bounds) - 1
        together = p in joint and p in resizes and not last
        for _ in range(resizes.count(p) - (1 if together else 0)):
            queue.append(("resize", p))
        if i > 0 and (p in fires or last):
            queue.append(("expire", p))
        if not last:
            queue.append(("chunk", data[p : bounds[i + 1]], p, together))
    arrived = []
    state = {"expired": False, "delivered": 0, "last_resize_at": None}
    real_wait = s._wait_for_input_ready

    def wait(timeout):
        if fds and sys._getframe(1).f_code.co_name != "get_input":
            return real_wait(timeout)  # the nested readiness probe of _read_raw_input
        real_wait0 = lambda _t: real_wait(0)  # noqa: E731
        if state.get("silent"):
            return real_wait0(0) if fds else []
        if state.get("quiet"):
            # the terminal has gone silent for longer than every timeout: it stays silent until the pending bytes are out
            if s._partial_codes:
                return real_wait0(0) if fds else []
            state["quiet"] = False
        kind = queue[0][0] if queue else "expire"
        if kind == "expire" and timeout == 3.0:
            # the resize throttle's shorter wait ran out; the completion timeout is still ahead
            return real_wait0(0) if fds else []
        if timeout == 3.0:
            d.marks.append("throttle_wait:" + kind)
        if kind == "chunk":
            _k, c, _start, together = queue.pop(0)
            state["delivered"] += len(c)
            if together:
                state["last_resize_at"] = len(d.events)
                d.marks.append("throttle_wait:chunk+resize" if timeout == 3.0 else "wait:chunk+resize")
                s._sigwinch_handler(28, None)
            if fds:
                os.write(rig.w, c)
                return real_wait(0)
            arrived.append(c)
            return [rig.r]
        if kind == "resize":
            queue.pop(0)
            if s._partial_codes:
                d.resize_while_pending += 1
            state["last_resize_at"] = len(d.events)
            s._sigwinch_handler(28, None)  # the real handler: marks _resized and wakes the resize pipe
            return real_wait(0) if fds else [s._resize_pipe_rd.fileno()]
        if queue:
            queue.pop(0)
        state["expired"] = True
        state["quiet"] = True
        return real_wait(0) if fds else []

    def codes():
        out = [b for c in arrived for b in c]
        del arrived[:]
        return out

    try:
        if real:
            os.write(rig.w, data)
            state["delivered"] = len(data)
            for _ in range(4):
                keys, raw = s.get_input(raw_keys=True)
                d.calls += 1
                d.events.extend(keys)
                d.raw.extend(raw)
                if len(d.raw) >= len(data) and not s._partial_codes:
                    break
            if s._partial_codes:
                d.problems.append(("get_input|pending-bytes-survive-expiry", f"pending={list(s._partial_codes)} after 4 reads of a silent pipe, complete_wait=0"))
                rig.dirty = True
        else:
            s._wait_for_input_ready = wait
            if not fds:
                s._get_input_codes = codes
            guard = 0
            entries = entries or {}
            prev = None
            while queue and guard < 4 * len(bounds) + 8:
                guard += 1
                state["expired"] = False
                if queue[0][0] == "chunk":
                    ent = entries.get(queue[0][2])
                    entry_marks(d, prev, ent, "get_input")
                if queue[0][0] == "chunk" and entries.get(queue[0][2]):
                    # type-ahead the application read itself, handed to parse_input synchronously
                    _k, c, start, _tg = queue.pop(0)
                    state["delivered"] += len(c)
                    keys, raw = s.parse_input(None, None, CONTAINERS[entries[start]]([*s._partial_codes, *c]))
                    prev = (entries[start], bool(s._partial_codes))
                else:
                    nmarks = len(d.marks)
                    keys, raw = s.get_input(raw_keys=True)
                    prev = (None, bool(s._partial_codes))
                    if s._partial_codes and not state["expired"]:
                        # nothing will flush these: the next call first blocks for max_wait (None = for ever), not complete_wait
                        throttled = any(m.startswith("throttle_wait:") for m in d.marks[nmarks:])
                        d.problems.append(
                            (
                                "get_input|returns-with-bytes-pending|" + ("after-resize-throttle" if throttled else "plain"),
                                f"get_input returned {keys} with pending={list(s._partial_codes)}",
                            )
                        )
                        break
                d.calls += 1
                d.events.extend(keys)
                d.raw.extend(raw)
                idle = 0
                while state["expired"] and s._partial_codes and idle < 3:
                    # the timeout has expired with bytes pending: give the implementation three more silent reads
                    idle += 1
                    state["silent"] = True
                    keys, raw = s.get_input(raw_keys=True)
                    state["silent"] = False
                    d.events.extend(keys)
                    d.raw.extend(raw)
                if state["expired"] and s._partial_codes:
                    d.problems.append(
                        ("get_input|pending-bytes-survive-expiry", f"pending={list(s._partial_codes)} after the wait timed out and 3 further silent reads")
                    )
                    break
                if bytes(d.raw) + bytes(s._partial_codes) != data[: state["delivered"]]:
                    d.problems.append(("get_input|partition|bytes-lost-or-duplicated", f"raw={d.raw} pending={list(s._partial_codes)} delivered={list(data[: state['delivered']])}"))
                    break
    except Exception as e:  # noqa: BLE001
        d.error = exc_info(e)
        rig.dirty = True
    finally:
        s.__dict__.pop("_wait_for_input_ready", None)
        s.__dict__.pop("_get_input_codes", None)
    d.resize_events = sum(1 for e in d.events if e == "window resize")
    if d.error is None and not d.problems and state["last_resize_at"] is not None and "window resize" not in d.events[state["last_resize_at"] :]:
        d.problems.append(("get_input|resize-wakeup-not-reported", f"{len(resizes)} SIGWINCH delivered, no 'window resize' event after the last one: {d.events}"))
    d.events = [e for e in d.events if e != "window resize"]
    if d.problems or d.error:
        rig.dirty = True
        if real or fds:  # drain the pipe
            rig.close()
            env.gi = None
    elif bytes(d.raw) != data:
        d.problems.append(("get_input|partition|raw-incomplete-at-end", f"raw={d.raw} input={list(data)}"))
        rig.dirty = True
    return d


# ------------------------------------------------------------------ judging one case


def split_at(data: bytes, points):
    out = []
    p = 0
    for c in [*points, len(data)]:
        out.append(data[p:c])
        p = c
    return out


def cut_class(toks, spans, cuts, data=b""):
    """coarse family of what the first non-boundary cut goes through (which reader was waiting for more
    input), for signatures: x10 / sgr / csi (named CSI sequences and CPR) / ss3 / esc / multibyte / plain"""
    for c in cuts:
        inside = False
        for t, (a, b) in zip(toks, spans):
            if a < c < b:
                inside = True
                break
        if not inside:
            continue
        p = data.rfind(b"\x1b", max(0, c - 24), c)
        if p < 0:
            return "multibyte" if data[c - 1] >= 0x80 else "plain"
        seg = data[p:c]
        if seg[1:3] == b"[M":
            return "x10"
        if seg[1:3] == b"[<":
            return "sgr"
        if seg[1:2] == b"[":
            return "csi"
        if seg[1:2] == b"O":
            return "ss3"
        return "esc"
    return "boundary" if cuts else "none"


def first_diff(a, b):
    n = min(len(a), len(b))
    for i in range(n):
        if a[i] != b[i]:
            return i
    return n


class Judge:
    def __init__(self, env: Env, stats=None):
        self.env = env
        self.stats = stats  # Counter-like or None (during shrinking)
        self.cache = {}

    def cnt(self, k, n=1):
        if self.stats is not None:
            self.stats[k] += n

    def whole(self, mode, data):
        key = (mode, data)
        d = self.cache.get(key)
        if d is None:
            d = deliver(self.env, mode, data)
            self.cnt("deliveries")
            self.cnt("oracle_a_event_names_checked", d.names_checked)
            if len(self.cache) > 400:
                self.cache.clear()
            self.cache[key] = d
        return d

    @staticmethod
    def err_sig(d, mode, path="parse_input"):
        t, where, msg, _tb = d.error
        return f"C05|raise:{t}@{where}|{msg}" + ("|mode=wide" if where in ("within_double_byte", "process_keyqueue") and t == "TypeError" and mode == "wide" else "")

    def judge(self, case):
        """-> list of (signature, message)"""
        env = self.env
        mode, descs = case["mode"], case["descs"]
        cuts, fires = list(case.get("cuts", ())), list(case.get("fires", ()))
        path = case.get("path", "loop")
        entries = {int(p): t for p, t in case.get("entries", ()) if int(p) == 0 or int(p) in cuts}
        data, toks, exp, spans = env.model.stream(descs, mode)
        out = []
        if not data:
            return out
        w = self.whole(mode, data)
        self.cnt("oracle_a_partition_checks")
        if w.error is not None:
            return [(self.err_sig(w, mode), f"whole delivery of {list(data)} in {mode} mode raised {w.error[0]}: {w.error[3]}")]
        self.cnt("oracle_a_steps_checked", len(w.steps))
        for tail, msg in w.problems:
            out.append((f"C05|parse_input|{tail}|whole", msg))
        if b"".join(st[0] for st in w.steps) != data:
            out.append(("C05|parse_input|step|consumed-bytes-not-the-input|whole", f"steps={w.steps} input={list(data)}"))
        # ---- (b)/(d) naming of well-formed tokens and pass-through of garbage
        if exp is not None and path == "loop" and not cuts and not out:
            has_garbage = any(t.garbage for t in toks)
            self.cnt("oracle_d_garbage_streams" if has_garbage else "oracle_b_naming_streams")
            if not M.events_match(exp, w.events):
                out.append(self.naming_violation(mode, data, toks, spans, exp, w))
            else:
                self.cnt("oracle_b_tokens_matched", len(toks))
                if has_garbage:
                    self.cnt("oracle_d_garbage_tokens_passed", sum(1 for t in toks if t.garbage))
                # steps must not straddle token boundaries (each token consumed by whole steps)
                ends = {b for _a, b in spans}
                p = 0
                for st in w.steps:
                    a, p = p, p + len(st[0])
                    if any(a < e < p for e in ends):
                        out.append(("C05|parse_input|step|one-decode-step-straddles-two-tokens", f"step {st!r} over spans {spans}"))
                        break
        if out:
            return out
        # ---- (c) fragmentation on the event-loop path
        if path == "loop":
            if cuts or entries:
                rehooks = {r for r in case.get("rehooks", ()) if r in cuts} or None
                via = case.get("rehook_via", "direct")
                f = deliver(env, mode, data, cuts, fires, entries, rehooks=rehooks, via=via)
                for mk in f.marks:
                    self.cnt(mk)
                self.cnt("deliveries")
                self.cnt("oracle_a_event_names_checked", f.names_checked)
                self.cnt("oracle_a_partition_checks")
                self.cnt("oracle_c_cut_left_pending", f.left_pending)
                self.cnt("oracle_c_timer_flushed_pending", f.flushed if fires else 0)
                kind = "fire" if fires else "nofire"
                if f.error is not None:
                    return [(self.err_sig(f, mode), f"{list(data)} in {mode} mode cut at {cuts} timer fired at {fires} entries {entries}: {f.error[3]}")]
                for tail, msg in f.problems:
                    out.append((f"C05|parse_input|{tail}|fragmented", msg + f" cuts={cuts} fires={fires} rehook-after={sorted(rehooks or ())} via={via}"))
                if "stopped-early" in f.marks:
                    return out
                if fires:
                    expected = []
                    for seg in split_at(data, sorted(set(fires) & set(cuts))):
                        if not seg:
                            continue
                        ws = self.whole(mode, seg)
                        if ws.error is not None:
                            return out
                        expected.extend(ws.events)
                else:
                    expected = w.events
                if f.events != expected:
                    i = first_diff(f.events, expected)
                    how = "fewer-events" if len(f.events) < len(expected) and f.events == expected[: len(f.events)] else (
                        "extra-events" if len(f.events) > len(expected) and expected == f.events[: len(expected)] else "events-differ"
                    )
                    out.append(
                        (
                            f"C05|frag|{kind}|{how}|cut-in:{cut_class(toks, spans, cuts, data)}",
                            f"{mode} {list(data)} cuts={cuts} fires={fires} entries={entries} rehook-after={sorted(rehooks or ())}: got {f.events} expected {expected} (first difference at event {i})",
                        )
                    )
                else:
                    self.cnt("oracle_c_fire_equal" if fires else "oracle_c_nofire_equal")
                    if "rehook:with-bytes-pending" in f.marks:
                        self.cnt("oracle_c_equal_across_rehook_with_bytes_pending")
            return out
        # ---- (e) blocking path
        real = path == "realfd"
        fds = path == "get_input_fds"
        resizes = [] if real else sorted(r for r in case.get("resizes", ()) if r == 0 or r in cuts or r == len(data))
        joint = [p for p in case.get("joint", ()) if p in resizes]
        if entries and not real:
            fires = []  # a mid-stream expiry cannot be placed deterministically next to a synchronous parse_input call
        g = deliver_get_input(env, mode, data, () if real else cuts, () if real else fires, real=real, resizes=resizes, fds=fds, entries=None if real else entries, joint=joint)
        for mk in g.marks:
            self.cnt(mk)
        self.cnt("oracle_e_realfd_cases" if real else ("oracle_e_get_input_fds_cases" if fds else "oracle_e_get_input_cases"))
        self.cnt("oracle_e_resize_wakeups", len(resizes))
        self.cnt("oracle_e_resize_wakeups_while_pending", g.resize_while_pending)
        if g.error is not None:
            return [(self.err_sig(g, mode, "get_input"), f"get_input on {list(data)} cuts={cuts} fires={fires} entries={entries}: {g.error[3]}")]
        for tail, msg in g.problems:
            out.append((f"C05|{tail}", f"{mode} {list(data)} cuts={cuts} fires={fires} resizes={resizes} path={path}: {msg}"))
        if out:
            return out
        ref = w if real or not cuts else deliver(env, mode, data, cuts, fires)
        if ref.error is None and g.events != ref.events:
            # was a pending sequence decoded early because of a resize wake-up?
            plain = None
            if resizes:
                plain = deliver_get_input(env, mode, data, cuts, fires, resizes=(), fds=fds, entries=entries)
            if plain is not None and plain.error is None and not plain.problems and plain.events == ref.events:
                sig = "C05|get_input|resize-wakeup-changes-decoding|" + ("pending-decoded-before-timeout" if g.resize_while_pending else "keys-lost-or-changed-with-nothing-pending")
            else:
                sig = f"C05|get_input|events-differ-from-event-loop-path|{'realfd' if real else ('fds' if fds else 'virtual')}"
            out.append((sig, f"{mode} {list(data)} cuts={cuts} fires={fires} SIGWINCH-at={resizes} together-with-chunk-at={joint} entries={entries}: get_input (minus 'window resize') {g.events} vs parse_input {ref.events}"))
        else:
            self.cnt("oracle_e_equal")
            if g.resize_while_pending:
                self.cnt("oracle_e_equal_with_resize_while_pending")
        return out

    def naming_violation(self, mode, data, toks, spans, exp, w):
        # locate the first token whose events are wrong, using the step partition when it aligns
        ei = 0
        act = w.events
        for t, (a, b) in zip(toks, spans):
            n = len(t.events)
            got = act[ei : ei + n]
            if not M.events_match(t.events, got):
                cls = "garbage" if t.garbage else "naming"
                tkind = re.sub(r"^(meta-){2,}", "nested-meta-", t.kind)
                want = t.events
                if any(isinstance(g, tuple) != isinstance(e, tuple) for g, e in zip(got, want)):
                    how = "key-vs-report-confusion" if not t.garbage else "accepted-as-report"
                elif len(got) < n:
                    how = "missing-events"
                elif isinstance(want[0], tuple) and isinstance(got[0], tuple):
                    g0, e0 = got[0], want[0]
                    how = "wrong-" + ("name" if g0[0] != e0[0] else "button" if g0[1] != e0[1] else "coordinates" if g0[2:] != e0[2:] else "types")
                else:
                    how = "wrong-name"
                return (
                    f"C05|{cls}|{tkind}|{how}",
                    f"{mode} mode, token {t.kind} {list(t.data)} in stream {list(data)}: got {act} expected {exp}",
                )
            ei += n
        return (f"C05|naming|extra-events-after-{toks[-1].kind}", f"{mode} {list(data)}: got {act} expected {exp}")


# ------------------------------------------------------------------ shrinking


def _norm_case(case, env):
    """drop cuts/fires that are out of range for the (possibly shortened) stream"""
    data = env.model.stream(case["descs"], case["mode"])[0]
    cuts = sorted({c for c in case.get("cuts", ()) if 0 < c < len(data)})
    fires = sorted({f for f in case.get("fires", ()) if f in cuts})
    out = {"path": case.get("path", "loop"), "mode": case["mode"], "descs": case["descs"], "cuts": cuts, "fires": fires}
    if case.get("resizes"):
        out["resizes"] = sorted(r for r in case["resizes"] if r == 0 or r in cuts or r == len(data))
        if case.get("joint"):
            out["joint"] = sorted({p for p in case["joint"] if p in out["resizes"]})
    if case.get("rehooks"):
        rh = sorted({r for r in case["rehooks"] if r in cuts})
        if rh:
            out["rehooks"] = rh
            out["rehook_via"] = case.get("rehook_via", "direct")
    if case.get("entries"):
        ent = {int(p): t for p, t in case["entries"] if int(p) == 0 or int(p) in cuts}
        if ent:
            out["entries"] = [[p, t] for p, t in sorted(ent.items())]
    return out


def _shifted(case, shift):
    out = {k: [shift(c) for c in case.get(k, ())] for k in ("cuts", "fires", "resizes", "joint", "rehooks")}
    out["entries"] = [[shift(p_), t_] for p_, t_ in case.get("entries", ())]
    return out


def shrink(env: Env, case, sig, budget=150):
    j = Judge(env)

    def still(c):
        nonlocal budget
        budget -= 1
        try:
            return any(s == sig for s, _m in j.judge(c))
        except Exception:  # noqa: BLE001
            return False

    case = _norm_case(case, env)
    changed = True
    while changed and budget > 0:
        changed = False
        # fewer cuts / fires
        for key in ("rehooks", "joint", "entries", "resizes", "fires", "cuts"):
            for x in list(case.get(key, ())):
                rest = list(case[key])
                rest.remove(x)  # one occurrence (resizes is a multiset)
                c2 = _norm_case(dict(case, **{key: rest}), env)
                if budget > 0 and still(c2):
                    case, changed = c2, True
        # fewer tokens (cut positions are shifted by the removed length)
        i = 0
        while i < len(case["descs"]) and budget > 0:
            data, toks, _e, spans = env.model.stream(case["descs"], case["mode"])
            a, b = spans[i]
            shift = lambda c: c if c <= a else (a if c < b else c - (b - a))  # noqa: E731
            c2 = dict(case, descs=case["descs"][:i] + case["descs"][i + 1 :], **_shifted(case, shift))
            c2 = _norm_case(c2, env)
            if c2["descs"] and still(c2):
                case, changed = c2, True
            else:
                i += 1
        # raw tokens: fewer bytes
        for ti, dsc in enumerate(case["descs"]):
            if dsc[0] != "raw":
                continue
            k = 0
            while k < len(case["descs"][ti][1]) and budget > 0:
                bs = case["descs"][ti][1]
                if len(bs) <= 1:
                    break
                _d, _t, _e, spans = env.model.stream(case["descs"], case["mode"])
                pos = spans[ti][0] + k
                shift = lambda c: c if c <= pos else c - 1  # noqa: E731
                nd = list(case["descs"])
                nd[ti] = ["raw", bs[:k] + bs[k + 1 :]]
                c2 = _norm_case(dict(case, descs=nd, **_shifted(case, shift)), env)
                if still(c2):
                    case, changed = c2, True
                else:
                    k += 1
    # other modes: is the mechanism mode dependent?
    return case


def repro_code(env, case):
    data = env.model.stream(case["descs"], case["mode"])[0]
    chunks = split_at(data, case["cuts"])
    return (
        f"urwid.set_encoding({M.MODE_ENCODING[case['mode']]!r}); s=urwid.display.raw.Screen(input=object(),output=io.StringIO()); "
        f"chunks={[list(c) for c in chunks]!r}; fire_after_cut={case['fires']!r}  # feed each chunk via s._get_input_codes + "
        f"s.parse_input(loop, cb, s.get_available_raw_input()), call the alarm callback where fired and at the end"
        + (f"; screen started and hooked with hook_event_loop(loop, cb), chunks read by the watch callback, unhook_event_loop+hook_event_loop ({case.get('rehook_via')}) right after cut {case['rehooks']}" if case.get("rehooks") else "")
        + (f"; chunks starting at these offsets are handed directly as parse_input(loop, cb, <type>([*s._partial_codes, *chunk])): {case['entries']}" if case.get("entries") else "")
        + ("; path=" + case["path"] + (f"; SIGWINCH (real _sigwinch_handler) right after cut {case['resizes']}, before the next chunk" if case.get("resizes") else "") if case["path"] != "loop" else "")
    )


# ------------------------------------------------------------------ generators

COORDS = [1, 2, 9, 10, 94, 95, 99, 100, 222, 223, 224, 255, 256, 999, 1000, 9999, 65535]
SOUP = (
    [27] * 6
    + [ord(c) for c in "[[O<<Mm;;0125599R~AaHn$^ IZ\r\n\t"]
    + [0, 8, 127, 0x80, 0xA1, 0xA4, 0xA2, 0xC3, 0xA9, 0xE3, 0x81, 0x82, 0xF0, 0x9F, 0x98, 0x80, 0xFF, 0xC0, 0xED, 0xA0, 0x40, 0x7E, 0x8E]
)
SGR_BAD = {
    "sgr-nonnumeric": ["[<0;a;5M", "[<a;1;1M", "[<0;1;zm", "[<0;1a;5M", "[<0;1;5xM", "[<x;y;zm", "[<0;1;5[AM", "[<0:1:5M"],
    "sgr-fieldcount": ["[<0;5M", "[<0M", "[<M", "[<m", "[<0;1;2;3M", "[<0;;5M", "[<;;M", "[<0;1;m", "[<;1;2M", "[<0;1;2;M"],
    "sgr-lenient-int": ["[<0;+5;3M", "[<0;-5;3M", "[<0; 5;3M", "[<0;5 ;3m", "[<0;1_0;3M", "[<-1;5;3M", "[<+0;5;3m", "[< 0;5;3M"],
}
CPR_BAD = ["[0;5R", "[5;0R", "[05;5R", "[5;05R", "[0;0R", "[00;1R"]


def gen_broken(rng, model):
    r = rng.random()
    if r < 0.30:
        cls = rng.choice(list(SGR_BAD))
        return ["broken", cls, rng.choice(SGR_BAD[cls]), 0]
    if r < 0.36:
        return ["broken", "cpr-zero", rng.choice(CPR_BAD), 0]
    if r < 0.60:
        for _ in range(20):
            seq = "[" + "".join(rng.choice("0123456789;;?>=") for _ in range(rng.randint(0, 5))) + rng.choice("zxqwXYZ@`{|}_!\"#%&'()*+,-./:=>?TUVWJKLN")
            if model.broken_ok("csi-unknown", seq, False):
                return ["broken", "csi-unknown", seq, 0]
    if r < 0.70:
        for _ in range(20):
            seq = "O" + rng.choice("0123456789") * rng.randint(0, 1) + rng.choice("zZ!@~ efghiETUVWXYI")
            if model.broken_ok("ss3-unknown", seq, False):
                return ["broken", "ss3-unknown", seq, 0]
    if r < 0.85:
        return ["broken", "prefix-truncated", rng.choice(model.proper_prefixes), 1]
    if r < 0.93:
        return ["broken", "x10-truncated", "[M" + "".join(rng.choice(" !#0Aa~") for _ in range(rng.randint(0, 2))), 1]
    return ["broken", "sgr-truncated", "[<" + "".join(rng.choice("0123456789;") for _ in range(rng.randint(0, 8))), 1]


def gen_u8bad(rng):
    r = rng.random()
    if r < 0.3:
        run = [rng.choice([*range(0x80, 0xC2), *range(0xF5, 0x100)])]
    elif r < 0.5:
        run = [rng.randint(0xC2, 0xF4)]  # lead without continuation
    elif r < 0.65:
        run = [rng.randint(0xE0, 0xF4), rng.randint(0x80, 0xBF)]  # truncated
    elif r < 0.75:
        run = rng.choice([[0xC0, 0x80], [0xC1, 0xBF], [0xE0, 0x80, 0x80], [0xE0, 0x9F, 0xBF], [0xF0, 0x80, 0x80, 0x80], [0xF0, 0x8F, 0xBF, 0xBF]])
    elif r < 0.85:
        run = rng.choice([[0xED, 0xA0, 0x80], [0xED, 0xBF, 0xBF], [0xF4, 0x90, 0x80, 0x80], [0xF5, 0x80, 0x80, 0x80], [0xF7, 0xBF, 0xBF, 0xBF], [0xF8, 0x88, 0x80, 0x80, 0x80]])
    else:
        run = [rng.randint(0x80, 0xFF) for _ in range(rng.randint(1, 4))]
    return ["u8bad", run]


def gen_char(rng, mode):
    if mode == "utf8":
        r = rng.random()
        if r < 0.3:
            return ["utf8", rng.randint(0x80, 0x7FF)]
        if r < 0.7:
            cp = rng.randint(0x800, 0xFFFF)
            return ["utf8", cp if not 0xD800 <= cp <= 0xDFFF else 0x3042]
        return ["utf8", rng.randint(0x10000, 0x10FFFF)]
    if mode == "wide":
        return ["dbcs", rng.randint(0xA1, 0xFE), rng.randint(0xA1, 0xFE)]
    return ["byte", rng.randint(0x80, 0xFF)]


def gen_x10(rng):
    r = rng.random()
    if r < 0.85:
        return ["x10", rng.randint(32, 255), rng.randint(33, 255), rng.randint(33, 255)]
    return ["x10", rng.randint(0, 255), rng.randint(0, 255), rng.randint(0, 255)]


def gen_sgr(rng):
    b = rng.choice([rng.randint(0, 95), rng.randint(0, 255)])
    return ["sgr", b, rng.choice([rng.choice(COORDS), rng.randint(1, 300)]), rng.choice([rng.choice(COORDS), rng.randint(1, 120)]), rng.choice("Mm")]


def gen_cpr(rng):
    return ["cpr", rng.choice([rng.randint(1, 60), rng.choice(COORDS)]), rng.choice([rng.randint(1, 250), rng.choice(COORDS)])]


def gen_token(rng, mode, model, escish=False):
    """escish: only tokens whose first byte is ESC or < 0x40 (safe after a stray lead / invalid UTF-8 byte)"""
    r = rng.random()
    if r < 0.24:
        return ["seq", rng.choice(model.named)]
    if r < 0.34:
        return gen_x10(rng)
    if r < 0.44:
        return gen_sgr(rng)
    if r < 0.50:
        return gen_cpr(rng)
    if r < 0.58:
        inner = rng.random()
        if inner < 0.12:
            tok = gen_token(rng, mode, model, escish)
            for _ in range(rng.randint(2, 4)):
                tok = ["meta", tok]
            return tok
        if inner < 0.45:
            return ["meta", ["byte", rng.choice([rng.randint(32, 126), rng.randint(1, 127)])]]
        if inner < 0.6:
            return ["meta", gen_char(rng, mode)]
        if inner < 0.85:
            return ["meta", ["seq", rng.choice(model.named)]]
        return ["meta", rng.choice([gen_x10, gen_sgr, gen_cpr])(rng)]
    if r < 0.64:
        return gen_broken(rng, model)
    if escish:
        return ["byte", rng.choice([*range(1, 27), *range(28, 64)])]
    if r < 0.76:
        return gen_char(rng, mode)
    if r < 0.86:
        return ["byte", rng.randint(32, 126)]
    if r < 0.92:
        return ["byte", rng.choice([*range(0, 27), *range(28, 32), 127])]
    if r < 0.96:
        return gen_u8bad(rng) if mode == "utf8" else ["byte", rng.randint(0x80, 0xFF)]
    return ["byte", rng.randint(0, 255)]


def gen_stream(rng, mode, model, ntok):
    descs = []
    nxt = 256
    for i in range(ntok):
        for _ in range(8):
            d = gen_token(rng, mode, model, escish=nxt < 256)
            t = model.realize(d, mode)
            if t.end_only and i != ntok - 1:
                continue
            if t.data[0] >= nxt:
                continue
            break
        else:
            d = ["seq", "[A"]
            t = model.realize(d, mode)
        descs.append(d)
        nxt = t.next_lt
    return descs


def mutate(rng, data: bytes) -> list:
    b = list(data)
    for _ in range(rng.randint(1, 3)):
        if not b:
            break
        op = rng.random()
        i = rng.randrange(len(b))
        if op < 0.3:
            del b[i]
        elif op < 0.55:
            b.insert(i, rng.choice(SOUP))
        elif op < 0.75:
            b[i] = rng.choice(SOUP)
        elif op < 0.85:
            del b[i:]
        elif op < 0.93:
            b[i:i] = b[i : i + rng.randint(1, 4)]
        else:
            b[i] = rng.randint(0, 255)
    return b or [27]


def schedules_exhaustive(n, pairs=True):
    for c in range(1, n):
        yield [c], []
        yield [c], [c]
    if pairs:
        for a, b in itertools.combinations(range(1, n), 2):
            yield [a, b], []
            yield [a, b], [a]
            yield [a, b], [b]
            yield [a, b], [a, b]


def schedules_random(rng, n, count):
    for _ in range(count):
        k = rng.randint(1, min(6, n - 1))
        cuts = sorted(rng.sample(range(1, n), k))
        mode = rng.random()
        fires = [] if mode < 0.4 else ([c for c in cuts if rng.random() < 0.5] if mode < 0.8 else list(cuts))
        yield cuts, fires


# ------------------------------------------------------------------ workload


TALLY = {"x10": "x10_reports", "sgr": "sgr_reports", "cpr": "cpr_reports", "utf8": "utf8_chars", "dbcs": "dbcs_chars"}


class Runner:
    def __init__(self, ctx, env):
        self.ctx = ctx
        self.env = env
        self.judge = Judge(env, ctx.counters)
        self.seen = {}
        self.nstream = 0

    @staticmethod
    def base(sig):
        return sig.split("|cut-in:")[0]

    def reduce_cuts(self, case, sig):
        """the cut-in class of a signature must not depend on irrelevant cuts: find a 1-cut (else 2-cut)
        sub-schedule that reproduces the same base signature and return (case, its signature)"""
        if "|cut-in:" not in sig or len(case["cuts"]) <= 1:
            return case, sig
        base = self.base(sig)
        j = Judge(self.env)
        cuts, fires = case["cuts"], case["fires"]
        subs = [[c] for c in cuts] + [list(p) for p in itertools.combinations(cuts, 2)][:15]
        for sub in subs:
            c2 = _norm_case(dict(case, cuts=sub, fires=[f for f in fires if f in sub]), self.env)
            for s2, _m in j.judge(c2):
                if self.base(s2) == base:
                    return c2, s2
        return case, base + "|cut-in:several-cuts-needed"

    def report(self, case, found):
        ctx = self.ctx
        for sig, msg in found:
            if not ctx.replaying:
                case, sig = self.reduce_cuts(_norm_case(case, self.env), sig)
            if sig not in self.seen and not ctx.replaying:
                small = shrink(self.env, case, sig)
                again = [m for s, m in Judge(self.env).judge(small) if s == sig]
                self.seen[sig] = small
                if again:
                    case_out, msg = small, again[0]
                else:
                    case_out = _norm_case(case, self.env)
            else:
                case_out = _norm_case(case, self.env)
            ctx.violation(sig, msg + "\nrepro: " + repro_code(self.env, case_out), case_out)

    def one(self, mode, descs, cuts=(), fires=(), path="loop", **extra):
        """extra: resizes, joint, entries, rehooks, rehook_via"""
        case = {"path": path, "mode": mode, "descs": descs, "cuts": list(cuts), "fires": list(fires)}
        for k_, v_ in extra.items():
            if v_:
                case[k_] = [list(e) if isinstance(e, (list, tuple)) else e for e in v_] if not isinstance(v_, str) else v_
        found = self.judge.judge(case)
        if found:
            self.report(case, found)
        return not found

    def stream(self, mode, descs, sched="auto", nrand=6, pairs=True):
        """judge one stream whole, then under cut/fire schedules, then (sampled) on the blocking path"""
        ctx, rng = self.ctx, self.ctx.rng
        data = self.env.model.stream(descs, mode)[0]
        n = len(data)
        if n == 0:
            return
        self.nstream += 1
        ctx.count("streams")
        ctx.count(f"mode:{mode}")
        for dd in descs:
            dd = dd[1] if dd[0] == "meta" else dd
            if dd[0] == "sgr" and (dd[2] < 1 or dd[3] < 1):
                ctx.count("sgr_zero_coordinate_reports_unjudged")
            elif dd[0] in TALLY:
                ctx.count(TALLY[dd[0]])
        ctx.count("bytes_fed", n)
        hx = data.hex()
        ctx.case((mode, hx))
        if not self.one(mode, descs):
            return
        if n > 1 and sched != "none":
            if sched == "exhaustive" or (sched == "auto" and n <= 12):
                it = schedules_exhaustive(n, pairs)
                ctx.count("streams_with_exhaustive_cuts")
            else:
                it = schedules_random(rng, n, nrand)
            for cuts, fires in it:
                ctx.case((mode, hx, cuts, fires))
                ctx.count("schedules")
                if not self.one(mode, descs, cuts, fires):
                    break
        k = self.nstream
        types = list(CONTAINERS)
        if n > 1 and sched != "none":
            # mixed entry points: some chunks are handed to parse_input directly in a list / bytearray / bytes / tuple,
            # the others come through get_available_raw_input(); cuts inside sequences leave a typed tail pending
            for cuts, fires in schedules_random(rng, n, 2):
                entries = [[p, rng.choice(types)] for p in [0, *cuts] if rng.random() < 0.5]
                ctx.case((mode, hx, cuts, fires, entries))
                ctx.count("schedules_mixed_entry")
                if not self.one(mode, descs, cuts, fires, entries=entries):
                    break
        if n > 1 and sched != "none":
            # the owner re-hooks the screen (INPUT_DESCRIPTORS_CHANGED) between two reads
            cuts, fires = next(schedules_random(rng, n, 1))
            rehooks = [c for c in cuts if rng.random() < 0.6]
            via = "signal" if k % 2 else "direct"
            ctx.case((mode, hx, cuts, fires, rehooks, via))
            self.one(mode, descs, cuts, fires, rehooks=rehooks, rehook_via=via)
        if k % 5 == 0:
            cuts, fires = next(schedules_random(rng, n, 1)) if n > 1 else ([], [])
            # SIGWINCH wake-ups are schedule events too: after some cuts the resize pipe becomes ready before the remainder
            resizes = [c for c in cuts if rng.random() < 0.5] + ([0] if rng.random() < 0.1 else [])
            joint = []
            if k % 15 == 0:
                # drag-resizing: two resize-only results in a row start the throttle, then keys and further resizes
                # arrive inside its waits (separately or during the same wait)
                resizes = sorted([0, 0, *resizes, *[c for c in cuts if rng.random() < 0.3], *([n] if rng.random() < 0.3 else [])])
                joint = [c for c in set(resizes) if c < n and rng.random() < 0.5]
            gpath = "get_input" if (k // 5) % 2 else "get_input_fds"
            entries = [[p, rng.choice(types)] for p in [0, *cuts] if rng.random() < 0.4] if k % 10 == 0 else []
            ctx.case((mode, hx, cuts, fires, resizes, joint, gpath, entries))
            self.one(mode, descs, cuts, fires, path=gpath, resizes=resizes, joint=joint, entries=entries)
        if k % 23 == 0 and n <= 2048:
            ctx.case((mode, hx, "realfd"))
            self.one(mode, descs, path="realfd")


def enumerations(ctx, R: Runner):
    """the exhaustive / strided cores; each item is owned by one shard"""
    model = R.env.model
    q = ctx.quick
    idx = 0

    def mine():
        nonlocal idx
        idx += 1
        return ctx.mine(idx)

    # items are collected per section first and then executed interleaved in proportion, so that a time
    # cut-off under machine load thins every section instead of dropping the later ones
    items = []
    section = ["E1"]

    def S(mode, descs, **k):
        items.append((section[0], mode, descs, k))

    def mark(name):
        section[0] = name.split()[-1]

    # E0 core, never skipped for time: every named sequence alone, whole + every single cut x fire/no fire
    for seq in model.named:
        if mine():
            ctx.count("table_entries_seen")
            ctx.count("enumeration_items:E0")
            R.stream("utf8", [["seq", seq]], sched="exhaustive", pairs=False)
            # blocking path: a read ends inside the sequence, SIGWINCH wakes get_input, then the rest arrives in time
            n = len(seq) + 1
            for c in sorted({1, n // 2 or 1, n - 1}):
                ctx.case(("utf8", seq, c, "gi-resize"))
                R.one("utf8", [["seq", seq]], [c], [], path="get_input_fds" if c % 2 else "get_input", resizes=[c])
            # re-hook between the two halves of the sequence (event-loop path, really hooked POSIX screen)
            for via in ("direct", "signal"):
                ctx.case(("utf8", seq, c, via, "rehook"))
                R.one("utf8", [["byte", 120], ["seq", seq], ["byte", 121]], [c + 1], [], rehooks=[c + 1], rehook_via=via)
            # resize throttle: two resize-only reads, then a key in the first throttle wait and more input together
            # with / followed by another SIGWINCH in the second
            tdesc = [["byte", 97], ["seq", seq], ["byte", 98]]
            for ti, (tcuts, tres, tjoint) in enumerate(
                [
                    ([1], [0, 0, 1], [1]),  # key in round 1, more input + SIGWINCH right behind it
                    ([1], [0, 0, 0], [0]),  # round 1: key and SIGWINCH during the same wait
                    ([1], [0, 0, 0, 0], [0]),  # round 1: SIGWINCH only, round 2: key + SIGWINCH
                    ([1, c + 1], [0, 0, 1, c + 1], []),  # a read inside the throttle ends inside the sequence
                    ([1, n], [0, 0, n], [n]),
                ]
            ):
                ctx.case(("utf8", seq, ti, "throttle"))
                R.one("utf8", tdesc, tcuts, [], path="get_input_fds" if ti % 2 else "get_input", resizes=tres, joint=tjoint)
            # container type x entry-point transition, cut inside the sequence: typed chunk then the read path / get_input,
            # and the read path then a typed chunk
            c = n // 2 or 1
            for ti, t in enumerate(CONTAINERS):
                ctx.case(("utf8", seq, c, t, "entries"))
                R.one("utf8", [["seq", seq]], [c], [], entries=[[0, t]])
                R.one("utf8", [["seq", seq]], [c], [], entries=[[c, t]])
                R.one("utf8", [["seq", seq]], [c], [], path="get_input_fds" if ti % 2 else "get_input", entries=[[0, t]])
                # (get_input -> typed chunk with bytes pending cannot happen: get_input only returns once nothing is pending)
    # E0b core, never skipped: ESC in front of every named sequence, all three modes, judged against the rule
    # ['meta '+N] if N carries no 'meta ' else ['esc', N]  (absolute reference, not split-vs-whole)
    for seq in model.named:
        for mode in MODES:
            if mine():
                before = ctx.counters["oracle_b_naming_streams"]
                R.stream(mode, [["meta", ["seq", seq]]], sched="exhaustive" if mode == "utf8" else "none", pairs=False)
                ctx.count("oracle_b_esc_prefixed_table_judged", ctx.counters["oracle_b_naming_streams"] - before)
                if "meta " in model.table[seq]:
                    ctx.count("oracle_b_esc_prefixed_meta_named_judged", ctx.counters["oracle_b_naming_streams"] - before)
    # E0c core, never skipped: pass-through of invalid UTF-8 (every lead / stray byte, truncated after 1 and 2
    # continuation bytes, followed by a key) and of every malformed SGR / CPR template, whole delivery
    for b0 in range(0x80, 0x100):
        if mine():
            cont = 0x80 | (b0 & 0x3F)
            for run in ([b0], [b0, cont], [b0, cont, cont ^ 1]):
                R.stream("utf8", [["u8bad", run], ["byte", 49], ["seq", "[A"]], sched="none")
                R.stream("utf8", [["byte", 97], ["u8bad", run]], sched="none")  # truncated at the end of the stream: flushed by the timer
                ctx.count("enumeration_items:E0c")
    for dsc in [["broken", cls, t, 0] for cls, lst in SGR_BAD.items() for t in lst] + [["broken", "cpr-zero", t, 0] for t in CPR_BAD]:
        if mine():
            R.stream("utf8", [["byte", 97], dsc, ["seq", "[B"]], sched="none")
            ctx.count("enumeration_items:E0c")
    # E0d core, never skipped: one report of every kind / one character of every length, all cuts and cut pairs
    for mode, descs in [
        ("utf8", [["cpr", 12, 345]]),
        ("narrow", [["cpr", 7, 80], ["cpr", 24, 1]]),
        ("utf8", [["x10", 32 + 8 + 1, 100, 60], ["byte", 120]]),
        ("narrow", [["x10", 35, 255, 33]]),
        ("utf8", [["sgr", 0, 5, 6, "m"], ["sgr", 0, 7, 8, "M"]]),
        ("wide", [["sgr", 66, 120, 45, "M"], ["byte", 120]]),
        ("utf8", [["utf8", 0xE9], ["utf8", 0x3042], ["utf8", 0x1F600], ["byte", 97]]),
        ("wide", [["dbcs", 0xA4, 0xA2], ["dbcs", 0xB0, 0xA1], ["byte", 97]]),
        ("narrow", [["byte", 0xE9], ["meta", ["byte", 0xE9]], ["byte", 27]]),
        ("utf8", [["meta", ["byte", 97]], ["meta", ["utf8", 0xE9]], ["byte", 27]]),
    ]:
        if mine():
            R.stream(mode, descs, sched="exhaustive", pairs=True)
            ctx.count("enumeration_items:E0d")
    # E0e core, never skipped: ESC^k (k = 2, 3, 4) in front of one token of every kind, three modes, whole and every
    # single cut x fire / no fire, judged against the model's ESC-prefix rule (absolute)
    kinds = [
        ["byte", 97], ["byte", 13], ["byte", 127],
        ["seq", "[A"], ["seq", "[5~"], ["seq", "OP"], ["seq", "[200~"],
        ["seq", "[1;3A"], ["seq", "Oa"], ["seq", "[1;4A"], ["seq", "[1;8A"], ["seq", "[3;4~"],
        ["x10", 32, 40, 50], ["x10", 35, 41, 51], ["x10", 32 + 32, 42, 52],
        ["sgr", 0, 12, 7, "M"], ["sgr", 0, 12, 7, "m"], ["sgr", 20, 1, 1, "M"],
        ["cpr", 5, 7], ["cpr", 24, 80],
        ["byte", 27],
        ["broken", "prefix-truncated", "[1;", 1], ["broken", "prefix-truncated", "O", 1],
        ["broken", "x10-truncated", "[M ", 1], ["broken", "sgr-truncated", "[<0;1", 1], ["broken", "csi-unknown", "[99z", 0],
    ]
    per_mode = {"utf8": [["utf8", 0xE9], ["utf8", 0x3042], ["utf8", 0x1F600]], "wide": [["dbcs", 0xA4, 0xA2]], "narrow": [["byte", 0xE9]]}
    for mode in MODES:
        for inner in [*kinds, *per_mode[mode]]:
            for depth in (2, 3, 4):
                if not mine():
                    continue
                dsc = inner
                for _ in range(depth):
                    dsc = ["meta", dsc]
                tok = model.realize(dsc, mode)
                descs = [dsc] if tok.end_only else [dsc, ["byte", 122]]
                before = ctx.counters["oracle_b_naming_streams"] + ctx.counters["oracle_d_garbage_streams"]
                R.stream(mode, descs, sched="exhaustive", pairs=False)
                judged = ctx.counters["oracle_b_naming_streams"] + ctx.counters["oracle_d_garbage_streams"] - before
                ctx.count("oracle_b_esc_nested_judged", judged)
                ctx.count(f"esc_depth:{depth}", judged)
                ctx.count("enumeration_items:E0e")
    # E0f core, never skipped: wide mode, (byte 0x80..0xFF) x (second byte) followed by a marker key, whole and cut
    # between / after the two bytes x fire / no fire, judged against the documented double-byte layout.
    # quick: every first byte x the boundary second bytes; thorough: all 128 x 256 pairs
    seconds = [0x00, 0x08, 0x0D, 0x20, 0x3F, 0x40, 0x41, 0x5B, 0x7E, 0x7F, 0x80, 0xA0, 0xA1, 0xFE, 0xFF] if q else range(256)
    for b1 in range(0x80, 0x100):
        for b2 in seconds:
            if not mine():
                continue
            cls = M.wide_pair_class(b1, b2)
            before = ctx.counters["oracle_b_naming_streams"] + ctx.counters["oracle_d_garbage_streams"]
            R.stream("wide", [["wpair", b1, b2], ["byte", 0x71]], sched="exhaustive", pairs=False)
            judged = ctx.counters["oracle_b_naming_streams"] + ctx.counters["oracle_d_garbage_streams"] - before
            ctx.count(f"wide_pairs_judged:{cls}" if judged else f"wide_pairs_unjudged:{cls}")
            ctx.count("enumeration_items:E0f")
    # E1 every named sequence, alone (all cuts and cut pairs x fire patterns) in every mode, and embedded
    for si, seq in enumerate(model.named):
        for mi, mode in enumerate(MODES):
            if mine():
                S(mode, [["seq", seq]], sched="exhaustive", pairs=not q or (si + mi) % 3 == 0)
        if mine():
            S("utf8", [["byte", 97], ["seq", seq], ["seq", seq], ["byte", 98]], sched="exhaustive", pairs=False)
        if mine():
            S("narrow", [["meta", ["seq", seq]], ["byte", 48]], sched="exhaustive", pairs=False)
    ctx.sample({"mode": "utf8", "descs": [["seq", "[1;5A"]], "cuts": [3], "fires": [3]})
    ctx.extra.setdefault("core_wall_s", round(ctx.elapsed(), 1))
    mark("before E7")
    # E7 every byte value alone and in context; E8 ESC + every byte
    for v in range(256):
        for mode in MODES:
            if mine():
                S(mode, [["byte", v]], sched="none")
                follow = ["byte", 48] if v >= 0x80 else ["byte", 98]
                S(mode, [["byte", 97], ["byte", v], follow], sched="exhaustive")
                S(mode, [["meta", ["byte", v]], ["byte", 49]], sched="exhaustive")
    mark("before E2")
    # E2 X10: every button byte x coordinate bytes
    step = 9 if q else 1
    for cb in range(32, 256):
        if not mine():
            continue
        batch = []
        for k, cx in enumerate(range(33 + (cb % step), 256, step)):
            cy = 33 + (cx * 7 + cb * 3) % 223
            batch.append(["x10", cb, cx, cy])
            batch.append(["x10", cb, cy, cx])
            if len(batch) >= 6:
                S("utf8" if k % 3 else "narrow", batch, sched="random", nrand=2)
                batch = []
        if batch:
            S("wide", batch, sched="random", nrand=2)
        S("utf8", [["x10", cb, 40, 50]], sched="exhaustive")
    for cb in range(0, 32):  # below the documented bias: totality only
        if mine():
            S("utf8", [["x10", cb, 5, 200], ["x10", 40, cb, 0]], sched="random", nrand=2)
    ctx.sample({"mode": "narrow", "descs": [["x10", 32 + 16 + 2, 255, 33]], "cuts": [4], "fires": []})
    mark("before E3")
    # E3 SGR: every button code x M/m x coordinate values
    pairs = [(x, y) for x in COORDS for y in COORDS]
    for b in range(256):
        if not mine():
            continue
        sub = pairs[b % 7 :: 7] if q else pairs
        batch = []
        for k, (x, y) in enumerate(sub):
            batch.append(["sgr", b, x, y, "Mm"[k & 1]])
            batch.append(["sgr", b, y, x, "mM"[k & 1]])
            if len(batch) >= 4:
                S(MODES[k % 3], batch, sched="random", nrand=2)
                batch = []
        for fin in "Mm":
            S("utf8", [["sgr", b, 7, 12, fin]], sched="exhaustive", pairs=b < (32 if q else 256))
        # zero coordinates: outside the 1-based protocol, totality / fragmentation only
        S("narrow", [["sgr", b, 0, 0, "M"], ["sgr", b, 0, 5, "m"], ["seq", "[A"]], sched="random", nrand=2)
    mark("before E4")
    # E4 CPR
    vals = [*range(1, 13), *COORDS[4:]] if q else [*range(1, 40), *COORDS[4:]]
    for r in vals:
        if not mine():
            continue
        batch = []
        for c in vals:
            batch.append(["cpr", r, c])
            if len(batch) >= 5:
                S(MODES[c % 3], batch, sched="random", nrand=2)
                batch = []
        if batch:
            S("utf8", batch, sched="random", nrand=2)
        S("utf8", [["cpr", r, 80]], sched="exhaustive")
    mark("before E5")
    # E5 UTF-8 scalars
    stride = 521 if q else 13
    cps = sorted({0x80, 0xFF, 0x7FF, 0x800, 0xFFF, 0x1000, 0xD7FF, 0xE000, 0xFFFD, 0xFFFF, 0x10000, 0x3FFFF, 0x40000, 0xFFFFF, 0x100000, 0x10FFFF, *range(0x80, 0x110000, stride)})
    cps = [c for c in cps if not 0xD800 <= c <= 0xDFFF]
    for i in range(0, len(cps), 6):
        if mine():
            S("utf8", [["utf8", c] for c in cps[i : i + 6]], sched="random", nrand=2)
            if i % 60 == 0:
                S("utf8", [["utf8", cps[i]], ["meta", ["utf8", cps[i + 1 if i + 1 < len(cps) else i]]]], sched="exhaustive")
    mark("before E6")
    # E6 double-byte characters
    dstep = 5 if q else 1
    for lead in range(0xA1, 0xFF):
        if not mine():
            continue
        trails = list(range(0xA1 + lead % dstep, 0xFF, dstep))
        for i in range(0, len(trails), 6):
            S("wide", [["dbcs", lead, t] for t in trails[i : i + 6]], sched="random", nrand=2)
        S("wide", [["byte", 97], ["dbcs", lead, 0xA1 + lead % 94], ["seq", "[A"]], sched="exhaustive")
    mark("before E9")
    # E9 malformed / truncated sequences and invalid UTF-8 in context
    ctxt_before = [[], [["byte", 97]], [["seq", "[B"]], [["x10", 32, 40, 40]]]
    ctxt_after = [[], [["seq", "[A"]], [["byte", 49], ["seq", "OP"]], [["sgr", 0, 3, 4, "M"]]]
    brok = [["broken", cls, s, 0] for cls, lst in SGR_BAD.items() for s in lst] + [["broken", "cpr-zero", s, 0] for s in CPR_BAD]
    for d in brok:
        for bi, before in enumerate(ctxt_before):
            for ai, after in enumerate(ctxt_after):
                if mine():
                    S(MODES[(bi + ai) % 3], [*before, d, *after], sched="auto" if (bi, ai) == (0, 0) else "random", nrand=3)
    for p in model.proper_prefixes:
        if mine():
            S("utf8", [["broken", "prefix-truncated", p, 1]], sched="exhaustive")
            S("narrow", [["byte", 120], ["broken", "prefix-truncated", p, 1]], sched="exhaustive", pairs=False)
    for n in range(3):
        for tail in (["", " ", "#a"][n],):
            if mine():
                S("utf8", [["broken", "x10-truncated", "[M" + tail, 1]], sched="exhaustive")
    for b0 in range(0x80, 0x100):
        if mine():
            S("utf8", [["seq", "[A"], ["u8bad", [b0]], ["seq", "[B"]], sched="exhaustive", pairs=False)
            S("utf8", [["u8bad", [b0, 0x80 | (b0 & 0x3F)]], ["byte", 49]], sched="exhaustive")
            S("wide", [["byte", b0], ["byte", 48 + b0 % 10], ["seq", "[A"]], sched="exhaustive")
            S("wide", [["byte", b0]], sched="none")
    # ---- execute, interleaved
    per = {}
    for it in items:
        per.setdefault(it[0], []).append(it)
    order = []
    for sec, lst in per.items():
        n = len(lst)
        order += [((i + 0.5) / n, sec, i) for i in range(n)]
    order.sort()
    frac = 0.7 if q else 0.6
    for _pos, sec, i in order:
        _sec, mode, descs, k = per[sec][i]
        if not ctx.more(frac):
            ctx.count("enumeration_items_skipped_for_time")
            continue
        ctx.count(f"enumeration_items:{sec}")
        R.stream(mode, descs, **k)
    ctx.extra["enumeration_items_total_this_shard0"] = len(items)


def randoms(ctx, R: Runner):
    rng = ctx.rng
    model = R.env.model
    k = 0
    while ctx.more(1.0):
        k += 1
        mode = MODES[k % 3]
        r = rng.random()
        if r < 0.50:
            descs = gen_stream(rng, mode, model, rng.randint(1, 4) if rng.random() < 0.6 else rng.randint(4, 10))
            ctx.count("random_token_streams")
        elif r < 0.75:
            base = gen_stream(rng, mode, model, rng.randint(1, 5))
            descs = [["raw", mutate(rng, model.stream(base, mode)[0])]]
            ctx.count("random_mutated_streams")
        else:
            descs = [["raw", [rng.choice(SOUP) for _ in range(rng.randint(1, 14) if rng.random() < 0.7 else rng.randint(14, 60))]]]
            ctx.count("random_soup_streams")
        if k <= 3:
            ctx.sample({"mode": mode, "descs": descs})
        n = len(model.stream(descs, mode)[0])
        R.stream(mode, descs, sched="auto", nrand=8, pairs=n <= 9 or rng.random() < 0.3)


def run(ctx):
    env = Env()
    try:
        E = env.escape
        reach.watch(
            E.process_keyqueue if E.process_keyqueue is env.orig_pkq else env.orig_pkq,
            E.KeyqueueTrie.get,
            E.KeyqueueTrie.read_mouse_info,
            E.KeyqueueTrie.read_sgrmouse_info,
            E.KeyqueueTrie.read_cursor_position,
            env.raw.Screen.parse_input,
            env.raw.Screen.get_available_raw_input,
            env.raw.Screen.get_input,
            env.str_util.within_double_byte,
        )
        R = Runner(ctx, env)
        ctx.extra["table_size"] = len(env.model.named)
        ctx.extra["table_proper_prefixes"] = len(env.model.proper_prefixes)
        enumerations(ctx, R)
        ctx.extra.setdefault("enumeration_wall_s", round(ctx.elapsed(), 1))
        randoms(ctx, R)
    finally:
        env.close()
        reach.flush(ctx)


def replay(ctx, wit):
    env = Env()
    try:
        R = Runner(ctx, env)
        R.one(wit["mode"], wit["descs"], wit.get("cuts", ()), wit.get("fires", ()), wit.get("path", "loop"), **{k_: wit[k_] for k_ in ("resizes", "joint", "entries", "rehooks", "rehook_via") if k_ in wit})
        ctx.case((wit["mode"], wit["descs"], wit.get("cuts"), wit.get("fires")))
    finally:
        env.close()
