"""C10 Edit == reference editor: reference-model monitor over key / click histories.

The real widget (Edit / IntEdit / IntegerEdit / FloatEdit) and vmon.models.editor_ref.Editor receive
the same operations.  After every operation the oracle compares text, offset, return value and the
change/postchange signal log; at observation points it renders the widget focused and compares the
canvas cursor with the cell of the character at the offset.  Display rows for up/down/home/end/click
are taken from the layout reported by a *fresh* Edit built from the model state (so stale caches in
the widget under test cannot leak into the oracle) and are interpreted by the model's own code.
"""

from __future__ import annotations

import re
import traceback
import warnings
from decimal import Decimal

from wcwidth import wcwidth

from vmon import reach
from vmon.models import editor_ref as R

PROPERTY = "C10"
LEVEL = "exploration"
SHARDS = {"quick": 8, "thorough": 16}
BUDGET = {"quick": 22.0, "thorough": 380.0}
REQUIRE = {
    "ops_applied": 5000,
    "oracle:text_pos_equal": 3000,
    "oracle:pos_on_boundary": 5000,
    "oracle:cursor_cell": 2500,
    "oracle:cursor_cell_content": 1500,
    "oracle:click_on_char_cell": 300,
    "oracle:signals_on_modification": 800,
    "oracle:signals_none_on_noop": 2000,
    "oracle:pos_valid_inside_handler": 1000,
    "oracle:unused_key_returned": 250,
    "oracle:numeric_alphabet": 300,
    "oracle:numeric_value": 250,
    "oracle:updown_judged": 100,
    "oracle:homeend_judged": 200,
    "class:IntEdit": 5,
    "class:IntegerEdit": 5,
    "class:FloatEdit": 5,
    "mode:utf8": 8,
    "mode:wide": 8,
    "mode:narrow": 8,
    "mode:str": 100,
    "view_shifted_observations": 500,
    "form:FloatEdit:kw": 2,
    "form:FloatEdit:dep_kw": 2,
    "form:FloatEdit:dep_pos": 2,
    "form:FloatEdit:mixed": 2,
    "form:FloatEdit:defaults": 2,
    "form:IntegerEdit:kw": 2,
    "form:IntegerEdit:pos_base": 2,
    "form:IntegerEdit:defaults": 2,
    "form:IntEdit:pos": 2,
    "form:IntEdit:kw": 2,
    "form:IntEdit:defaults": 2,
    "numeric_constructed_through_deprecated_option": 5,
    "directed:46b965d": 60,
    "directed:46b965d-history": 300,
    "op:set_encoding-after-construction": 400,
    "directed:c084bec": 40,
    "directed:resize-back": 300,
    "resize_back_to_the_width_of_a_stored_preference": 200,
    "directed:ba58766": 500,
    "directed:e0fc36b": 30,
    "directed:9a21b78": 100,
    "directed:786c2fa": 25,
    "enc:iso8859-1": 8,
    "enc:iso8859-15": 8,
    "enc:koi8-r": 8,
    "enc:cp1252": 8,
    "sweep_sessions": 40,
    "random_sessions": 80,
}
RULE = (
    "a case = one session descriptor (class, encoding utf-8 / euc-jp / ascii / iso8859-1 / iso8859-15 / koi8-r / cp1252 "
    "(directed cases also euc-kr, gbk, big5), str|bytes, caption, text, width 1..20, "
    "wrap space/any/clip, align, multiline, allow_tab, mask, initial offset, observation period, op list); "
    "(0) directed: 1159 fixed descriptors covering every case named by the fixed: C10 findings (typed characters the "
    "encoding has / lacks into bytes text under every encoding, handler-visible offset around multi-byte neighbours, "
    "half wide characters in 1..3 column views, zero-width-only lines and words, FloatEdit defaults x separator x "
    "constructor form, sign / non-ASCII look-alike keys in the numeric editors), all run on every run; "
    "(a) sweep (time-bounded uniform sample of ~200k states): curated (caption,text) x str|bytes x 3 encodings x "
    "width 1..12 x wrap x align x every offset, each of the used keys / a narrow and a "
    "wide printable / a click on every cell applied from that state (state restored with set_edit_text/set_edit_pos "
    "between probes); (b) random 5..40-op histories of printables, left/right/up/down/home/end, backspace, delete, "
    "enter, tab, unused keys, clicks (after a focused or unfocused render), other mouse buttons, unfocused renders "
    "and resizes; numeric variants with their option ranges, built through every documented constructor form "
    "(new keywords, deprecated preserveSignificance/decimalSeparator keywords and positionals, positional base, "
    "defaults) and judged against the effective configuration, and near-alphabet keys; distinct = distinct "
    "descriptors; non-trivial = at least one op judged"
)
ASSUMES = [
    "display rows (row -> offsets, columns) are those reported by a fresh Edit holding the same caption/text/offset "
    "(get_line_translation after get_cursor_coords for the focused view); C03 judges that layout; rows whose segment "
    "widths disagree with wcwidth are not judged",
    "up/down target = the position on the adjacent display row whose cell contains the preferred column, else the "
    "nearest one (ties: any); a zero-width character has no cell and is drawn at the column of the position that "
    "follows it, so it is accepted as well as that position unless the column lies inside the cell of a "
    "positive-width character (then only that character); on a row showing zero-width characters only every "
    "offset of the row is accepted; offsets falling into the caption map to edit offset 0; home/end = first/last position "
    "of the display row and make the preferred column leftmost/rightmost (documented in get_pref_col)",
    "preferred column after a click: the clicked column or the landing column (either accepted); after a resize: "
    "the current column; after resizing BACK to the width a preference was made at, that preference or the current "
    "column (the widget stores one (preference, width) pair and the statement does not say which one 'keeping the "
    "preferred column' means there)",
    "a used key that cannot act (left at 0, up on the first row, backspace at 0 ...) leaves the state unchanged; "
    "its return value is not judged (statement only fixes it for keys the editor does not use)",
    "'tab' with allow_tab inserts 1..8 spaces (documented range; exact count not judged)",
    "printable keys are single characters; typing one into a bytes Edit inserts its encoding under the active "
    "encoding, or the codec's replacement ('?') when that encoding lacks the character (urwid's documented 'replace' "
    "convention for text it cannot encode; measured on the unchanged tree)",
    "numeric variants: reference editor + documented filter + documented leading-zero removal (while offset > 0); "
    "defaults are plain non-negative decimal / base-N literals",
    "mask is one unit long (one character for str, one byte for bytes)",
    "cursor-cell clause needs a displayable layout (not [[]]) and the offset present in the reported rows; a "
    "double-width character at the last column is compared by position only",
]

ENC_MODE = {
    "utf-8": "utf8",
    "euc-jp": "wide",
    "ascii": "narrow",
    # 8-bit encodings (narrow mode): typed non-ASCII characters must go into bytes text in THIS encoding
    "iso8859-1": "narrow",
    "iso8859-15": "narrow",
    "koi8-r": "narrow",
    "cp1252": "narrow",
    # further double-byte encodings (only used by the directed cases)
    "euc-kr": "wide",
    "gbk": "wide",
    "big5": "wide",
}
RANDOM_ENCS = ["utf-8", "utf-8", "euc-jp", "euc-jp", "ascii", "iso8859-1", "iso8859-15", "koi8-r", "cp1252"]
WRAPS = ("space", "any", "clip")
ALIGNS = ("left", "center", "right")
UNUSED_KEYS = ("f5", "ctrl x", "page up", "page down", "meta a", "shift f1", "esc", "insert", "ctrl n", "shift tab", "ctrl left", "f12")
NAV = ("left", "right", "up", "down", "home", "end")

_NARROW = "abcdefgh xyzAB 0123.,-"
_ALPHA_RAW = {
    "utf-8": {"narrow": _NARROW, "latin": "éüß", "wide": "漢字あ한", "comb": "\u0301\u0308", "emoji": "😀"},
    "euc-jp": {"narrow": _NARROW, "wide": "漢字あア"},
    "ascii": {"narrow": _NARROW},
    "iso8859-1": {"narrow": _NARROW, "latin": "éüß"},
    "iso8859-15": {"narrow": _NARROW, "latin": "éß€"},
    "koi8-r": {"narrow": _NARROW, "latin": "Яжё"},
    "cp1252": {"narrow": _NARROW, "latin": "\u00e9\u00df\u20ac"},
    "euc-kr": {"narrow": _NARROW, "wide": "한"},
    "gbk": {"narrow": _NARROW, "wide": "漢字"},
    "big5": {"narrow": _NARROW, "wide": "漢字"},
}


def _encodable(ch, enc):
    try:
        b = ch.encode(enc)
    except UnicodeEncodeError:
        return False
    if enc == "utf-8":
        return True
    return len(b) == max(wcwidth(ch), 0)


ALPHA = {enc: {k: "".join(c for c in v if _encodable(c, enc)) for k, v in d.items()} for enc, d in _ALPHA_RAW.items()}
NUM_ODD_KEYS = ["ı", "ſ", "ﬆ", "５", "²", "٣", "-", "-", "-", ".", ",", " ", "+", "e", "E", "x", "g", "G", "z", "Z", "a", "F", "f", "7", "8", "9", "0", "0", "1", "2"]


# ------------------------------------------------------------------ generators


def gen_text(rng, enc, maxlen, newlines=True):
    al = ALPHA[enc]
    style = rng.random()
    n = rng.randint(0, maxlen)
    out = []
    classes = [k for k in al if al[k]]
    for _ in range(n):
        r = rng.random()
        if style < 0.35:
            k = "narrow"
        elif style < 0.55 and "wide" in classes:
            k = "wide" if r < 0.7 else "narrow"
        else:
            k = rng.choice(classes)
        if k == "comb" and not out and rng.random() < 0.8:
            k = "narrow"
        ch = rng.choice(al[k])
        if newlines and rng.random() < 0.07:
            ch = "\n"
        elif rng.random() < 0.12:
            ch = " "
        out.append(ch)
    return "".join(out)


def gen_key(rng, enc):
    al = ALPHA[enc]
    k = rng.choice([k for k in al if al[k]])
    if rng.random() < 0.5:
        k = "narrow"
    return rng.choice(al[k])


SIGN_PLAY = [["char", "-"], ["char", "-"], ["key", "home"], ["key", "left"], ["key", "right"], ["key", "end"], ["char", "0"], ["char", "7"],
             ["char", "."], ["char", ","], ["key", "backspace"], ["key", "delete"]]  # fmt: skip


def _lacks(ch, enc):
    try:
        ch.encode(enc)
    except UnicodeEncodeError:
        return True
    return False


# characters the encoding cannot express: typed into bytes text they must arrive as the codec replacement
FOREIGN = {enc: [c for c in "漢😀éЯ" if _lacks(c, enc)] for enc in ENC_MODE}


def gen_ops(rng, enc, width, n, numeric=False, foreign=False):
    ops = []
    sign_play = numeric and rng.random() < 0.35  # short alphabet around the sign / separator / zeros
    for _ in range(n):
        r = rng.random()
        if sign_play and r < 0.85:
            ops.append(list(rng.choice(SIGN_PLAY)))
            continue
        if r < 0.33:
            ch = rng.choice(NUM_ODD_KEYS) if numeric else gen_key(rng, enc)
            if foreign and FOREIGN[enc] and rng.random() < 0.08:
                ch = rng.choice(FOREIGN[enc])
            if numeric and rng.random() < 0.5:
                ch = rng.choice("0123456789")
            ops.append(["char", ch])
        elif r < 0.47:
            ops.append(["key", rng.choice(["left", "right"])])
        elif r < 0.62:
            ops.append(["key", rng.choice(["up", "down"])])
        elif r < 0.70:
            ops.append(["key", rng.choice(["home", "end"])])
        elif r < 0.80:
            ops.append(["key", rng.choice(["backspace", "delete"])])
        elif r < 0.84:
            ops.append(["key", "enter"])
        elif r < 0.87:
            ops.append(["key", "tab"])
        elif r < 0.90:
            ops.append(["key", rng.choice(UNUSED_KEYS)])
        elif r < 0.965:
            ops.append(["click", rng.randrange(width), rng.choice([0, 0, 0, 1, 1, 2, 3, 5]), 1, rng.random() < 0.75])
        elif r < 0.975:
            ops.append(["click", rng.randrange(width), rng.randint(0, 2), rng.choice([2, 3, 4, 5]), True])
        elif r < 0.985:
            ops.append(["render", rng.random() < 0.4])
        elif r < 0.99:
            ops.append(["resize", rng.randint(1, 20)])
        else:
            # a row move, a width change near the current width, another row move: the preferred column
            # remembered for the old width must not be used for the new one
            ops.append(["key", rng.choice(["up", "down", "end", "home"])])
            ops.append(["key", rng.choice(["up", "down"])])
            ops.append(["resize", max(1, min(20, width + rng.choice([-3, -2, -1, 1, 2, 3, 6])))])
            ops.append(["key", rng.choice(["up", "down"])])
    return ops


def gen_width(rng):
    r = rng.random()
    if r < 0.25:
        return rng.randint(1, 3)
    if r < 0.7:
        return rng.randint(4, 10)
    return rng.randint(11, 20)


def gen_plain(rng):
    enc = rng.choice(RANDOM_ENCS)
    width = gen_width(rng)
    text = gen_text(rng, enc, rng.choice([3, 8, 16, 30]))
    caption = gen_text(rng, enc, rng.choice([0, 0, 2, 5, 9]), newlines=rng.random() < 0.3)
    nchars = len(text)
    mask = None
    if rng.random() < 0.12:
        mask = "*" if (enc != "utf-8" or rng.random() < 0.7) else "＊"
    is_bytes = rng.random() < 0.4
    if is_bytes and mask == "＊":
        mask = "*"
    return {
        "cls": "Edit",
        "enc": enc,
        "bytes": is_bytes,
        "caption": caption,
        "cap_attr": rng.random() < 0.15,
        "text": text,
        "width": width,
        "wrap": rng.choice(WRAPS),
        "align": rng.choice(ALIGNS),
        "multiline": rng.random() < 0.5,
        "allow_tab": rng.random() < 0.4,
        "mask": mask,
        "pos": None if rng.random() < 0.5 else rng.randint(0, nchars),
        "obs": rng.choice([1, 1, 3, 1000]),
        "ops": gen_ops(rng, enc, width, rng.randint(5, 40), foreign=is_bytes),
    }


def gen_numeric(rng):
    cls = rng.choice(["IntEdit", "IntegerEdit", "FloatEdit"])
    enc = rng.choice(RANDOM_ENCS)
    width = gen_width(rng)
    d = {
        "cls": cls,
        "enc": enc,
        "bytes": False,
        "caption": gen_text(rng, enc, rng.choice([0, 0, 3, 6]), newlines=False),
        "cap_attr": False,
        "text": "",
        "width": width,
        "wrap": rng.choice(WRAPS) if rng.random() < 0.4 else "space",
        "align": rng.choice(ALIGNS) if rng.random() < 0.4 else "left",
        "multiline": False,
        "allow_tab": False,
        "mask": None,
        "pos": None,
        "obs": rng.choice([1, 3, 1000]),
    }
    if cls == "IntEdit":
        d["default"] = rng.choice([None, 0, 7, 42, 5002, 100200, "007", "12"])
    elif cls == "IntegerEdit":
        base = rng.choice([2, 8, 10, 10, 16, 36])
        d["base"] = base
        d["neg"] = rng.random() < 0.6
        digs = "0123456789abcdefghijklmnopqrstuvwxyzABCDEF"
        digs = "".join(c for c in digs if int(c, 36) < base)
        dflt = "".join(rng.choice(digs) for _ in range(rng.randint(0, 6)))
        d["default"] = rng.choice([None, dflt, dflt, 0, 15, 4096]) if base >= 10 else rng.choice([None, dflt, dflt, 0, 1, 101])
    else:
        d["neg"] = rng.random() < 0.6
        d["sep"] = rng.choice([".", ".", ","])
        d["preserve"] = rng.random() < 0.6
        d["default"] = rng.choice([None, "", "3.1415", "1.065434", "0.5", "10", 12, "100.00", "7."])
    # constructor entry point (the effective configuration above must mean the same through each of them)
    if cls == "IntEdit":
        d["form"] = rng.choice(["pos", "kw", "defaults"])
        if d["form"] == "defaults":
            d["caption"], d["default"] = "", None
    elif cls == "IntegerEdit":
        d["form"] = rng.choice(["kw", "kw", "pos_base", "defaults"])
        if d["form"] == "defaults":
            d["base"], d["neg"] = 10, False
            if isinstance(d["default"], str):
                d["default"] = "".join(c for c in d["default"] if c in "0123456789")
    else:
        d["form"] = rng.choice(["kw", "dep_kw", "dep_pos", "mixed", "defaults"])
        if d["form"] == "defaults":
            d["sep"], d["preserve"] = ".", True
    d["ops"] = gen_ops(rng, enc, width, rng.randint(5, 40), numeric=True)
    return d


# ------------------------------------------------------------------ sinks


class Sink:
    """collects violations and counters of one session (cheap; used for shrinking too)"""

    def __init__(self):
        self.viols = []  # (sig, msg)
        self.counts = {}

    def count(self, k, n=1):
        self.counts[k] = self.counts.get(k, 0) + n

    def viol(self, sig, msg):
        self.viols.append((sig.replace(" ", "_"), msg))


def urwid_frame(exc):
    """'innermost<caller' qualnames of the two innermost urwid frames (names the raising mechanism)"""
    names = []
    tb = exc.__traceback__
    while tb is not None:
        code = tb.tb_frame.f_code
        if "/urwid/" in code.co_filename:
            names.append(code.co_qualname)
        tb = tb.tb_next
    if not names:
        return "?"
    return "<".join(reversed(names[-2:]))


# ------------------------------------------------------------------ one session


class Abort(Exception):
    pass


class Session:
    def __init__(self, desc, sink):
        import urwid

        self.u = urwid
        self.desc = desc
        self.sink = sink
        self.enc = desc["enc"]
        self.mode_enc = ENC_MODE[self.enc]
        urwid.set_encoding(self.enc)
        self.cls = desc["cls"]
        self.is_bytes = bool(desc.get("bytes"))
        self.cs = R.Charset(self.is_bytes, self.mode_enc, self.enc)
        self.mode = self.cs.mode
        self.size = (desc["width"],)
        self.keep = []
        self.siglog = []
        self.judged = 0
        self.flag_stale = False
        self.enc_switched = False
        self.memo = self.memo2 = None
        self.numeric = None
        self.sigbase = f"C10|{self.cls}"
        self.opname = "init"
        self._build()

    # -- construction
    def conv(self, s):
        return s.encode(self.enc) if self.is_bytes else s

    def _build(self):
        urwid, d = self.u, self.desc
        cap = self.conv(d["caption"])
        self.caption = cap
        self.caplen = len(cap)
        capm = ("attr", cap) if d.get("cap_attr") and cap else cap
        self.mask = self.conv(d["mask"]) if d.get("mask") else None
        cls = self.cls
        if cls == "Edit":
            text = self.conv(d["text"])
            pos = None
            if d.get("pos") is not None:
                pos = len(self.conv(d["text"][: d["pos"]]))
            self.w = urwid.Edit(capm, text, multiline=d["multiline"], align=d["align"], wrap=d["wrap"], allow_tab=d["allow_tab"], edit_pos=pos, mask=self.mask)
        else:
            from urwid import numedit

            dflt = d.get("default")
            form = d.get("form", "kw")
            self.sink.count(f"form:{cls}:{form}")
            with warnings.catch_warnings(record=True) as wlog:
                warnings.simplefilter("always")
                if cls == "IntEdit":
                    if form == "defaults":
                        self.w = urwid.IntEdit()
                    elif form == "kw":
                        self.w = urwid.IntEdit(caption=capm, default=dflt)
                    else:
                        self.w = urwid.IntEdit(capm, dflt)
                    self.numeric = {"alphabet": set("0123456789"), "negative": False, "trim": True}
                elif cls == "IntegerEdit":
                    if form == "defaults":
                        self.w = numedit.IntegerEdit(capm, dflt)
                    elif form == "pos_base":
                        self.w = numedit.IntegerEdit(capm, dflt, d["base"], allow_negative=d["neg"])
                    else:
                        self.w = numedit.IntegerEdit(capm, dflt, base=d["base"], allow_negative=d["neg"])
                    al = "0123456789ABCDEFGHIJKLMNOPQRSTUVWXYZ"[: d["base"]]
                    self.numeric = {"alphabet": set(al) | set(al.lower()), "negative": d["neg"], "trim": d["base"] == 10}
                else:
                    # the effective configuration is (sep, preserve, neg) whatever the entry point
                    if form == "defaults":
                        self.w = numedit.FloatEdit(capm, dflt, allow_negative=d["neg"])
                    elif form == "dep_kw":
                        self.w = numedit.FloatEdit(capm, dflt, preserveSignificance=d["preserve"], decimalSeparator=d["sep"], allow_negative=d["neg"])
                    elif form == "dep_pos":
                        self.w = numedit.FloatEdit(capm, dflt, d["preserve"], d["sep"], allow_negative=d["neg"])
                    elif form == "mixed":
                        self.w = numedit.FloatEdit(capm, dflt, decimalSeparator=d["sep"], preserve_significance=d["preserve"], allow_negative=d["neg"])
                    else:
                        self.w = numedit.FloatEdit(capm, dflt, preserve_significance=d["preserve"], decimal_separator=d["sep"], allow_negative=d["neg"])
                    self.numeric = {"alphabet": set("0123456789" + d["sep"]), "negative": d["neg"], "trim": True}
            ndep = sum(1 for x in wlog if issubclass(x.category, DeprecationWarning))
            if ndep:
                self.sink.count("numeric_constructed_through_deprecated_option", 1)
            if d["align"] != "left":
                self.w.align = d["align"]
            if d["wrap"] != "space":
                self.w.set_wrap_mode(d["wrap"])
        w = self.w
        self.init_text = w.edit_text
        self.model = R.Editor(w.edit_text, w.edit_pos, self.cs, self.caplen, d["multiline"], d["allow_tab"], self.numeric)
        self.pref_stash = None
        urwid.connect_signal(w, "change", self._on_change)
        urwid.connect_signal(w, "postchange", self._on_postchange)
        self.check_state("init")

    def _on_change(self, w, new):
        self.siglog.append(("change", new, w.edit_text, w.edit_pos))

    def _on_postchange(self, w, old):
        self.siglog.append(("postchange", old, w.edit_text, w.edit_pos))

    # -- reporting
    def viol(self, kind, msg, op=None, with_mode=True, generic=False):
        """generic=True: the mechanism lives in code shared by the whole Edit family and does not depend on the text
        type, so class and mode are left out of the signature (one defect = one signature)"""
        if generic:
            self.sink.viol(f"C10|Edit-family|{op or self.opname}|{kind}", msg)
        else:
            self.sink.viol(f"{self.sigbase}|{op or self.opname}|{kind}" + (f"|mode={self.mode}" if with_mode else ""), msg)

    def guard(self, what, fn, *a):
        try:
            return True, fn(*a)
        except Exception as e:  # noqa: BLE001
            self.sink.viol(f"C10|Edit-family|raise:{type(e).__name__}@{urwid_frame(e)}", f"{what}: {type(e).__name__}: {e}\n{traceback.format_exc(limit=8)}")
            return False, e

    # -- model inputs
    def disp_text(self):
        m = self.model
        shown = self.mask * len(m.text) if self.mask is not None else m.text
        return self.caption + shown

    def fresh(self, focus):
        """layout reported by a fresh Edit with the model's state; returns (trans, rows|None)"""
        d, m = self.desc, self.model
        key = (bool(focus), m.text, m.pos, self.size, self.enc)
        if self.memo and self.memo[0] == key:
            return self.memo[1]
        if self.memo2 and self.memo2[0] == key:
            return self.memo2[1]
        res = self._fresh(focus)
        self.memo2 = self.memo
        self.memo = (key, res)
        return res

    def _fresh(self, focus):
        d, m = self.desc, self.model
        try:
            twin = self.u.Edit(self.caption, m.text, multiline=d["multiline"], align=d["align"], wrap=d["wrap"], edit_pos=m.pos, mask=self.mask)
            if focus:
                twin.get_cursor_coords(self.size)
            trans = twin.get_line_translation(self.size[0])
        except Exception:  # noqa: BLE001
            self.sink.count("fresh_widget_raised")
            return None, None
        if trans == [[]]:
            self.sink.count("layout_undisplayable")
            return trans, None
        rows, ok = R.build_rows(trans, self.disp_text(), self.cs)
        if not ok:
            self.sink.count("layout_width_disagrees_with_wcwidth")
            return trans, None
        return trans, rows

    # -- invariants on the widget state
    def check_state(self, opname, expect_text=None):
        """range -> numeric alphabet -> (text equals model) -> character boundary; aborts the session on failure"""
        w, sink = self.w, self.sink
        t, p = w.edit_text, w.edit_pos
        sink.count("oracle:pos_in_range")
        if not isinstance(p, int) or not 0 <= p <= len(t):
            self.viol("pos-out-of-range", f"edit_pos={p!r} len={len(t)} text={t!r}")
            raise Abort
        if self.numeric is not None:
            sink.count("oracle:numeric_alphabet")
            if not self.check_numeric(t):
                raise Abort
        if expect_text is not None and not any(t == e for e in expect_text):
            return False
        sink.count("oracle:pos_on_boundary")
        if p not in self.cs.boundaries(t):
            if self.mask is not None and opname in ("up", "down", "home", "end", "click"):
                # one mechanism: the masked display text has one unit per byte and rows are navigated by display unit
                self.viol("pos-inside-multibyte-character|masked-bytes-text", f"{opname}: edit_pos={p} text={t!r}", op="display-row-navigation")
            else:
                self.viol("pos-inside-multibyte-character" + ("|masked" if self.mask is not None else ""), f"edit_pos={p} text={t!r}")
            raise Abort
        return True

    def check_numeric(self, t) -> bool:
        nu = self.numeric
        for i, ch in enumerate(t):
            if ch in nu["alphabet"]:
                continue
            if ch == "-":
                if not nu["negative"]:
                    self.viol("alphabet|minus-held-but-negatives-not-allowed", f"text={t!r}")
                    return False
                if t.count("-") > 1:
                    self.viol("alphabet|more-than-one-minus", f"text={t!r}")
                    return False
                if i != 0:
                    self.viol("alphabet|minus-not-leading", f"text={t!r}")
                    return False
                continue
            if not ch.isascii():
                k = "non-ascii-char-held"
            elif ch in ".,":
                k = "other-decimal-separator-held"
            else:
                k = "ascii-char-outside-alphabet"
            self.viol(f"alphabet|{k}", f"text={t!r} char={ch!r}")
            return False
        self.check_value(t)
        return True

    def check_value(self, t):
        cls, w = self.cls, self.w
        body = t[1:] if t[:1] == "-" else t
        if cls == "FloatEdit":
            sep = self.desc["sep"]
            if not re.fullmatch(r"\d+(%s\d*)?|%s\d+" % (re.escape(sep), re.escape(sep)), body):
                self.sink.count("numeric_value_not_wellformed")
                return
            exact = Decimal(t.replace(sep, "."))
        else:
            if not body:
                self.sink.count("numeric_value_not_wellformed")
                return
            exact = Decimal(int(t, self.desc.get("base", 10)))
        self.sink.count("oracle:numeric_value")
        try:
            v = w.value()
        except Exception as e:  # noqa: BLE001
            self.viol(f"value()-raises:{type(e).__name__}", f"text={t!r}: {e}", op="value")
            return
        if cls == "FloatEdit" and self.desc["preserve"] and isinstance(self.desc.get("default"), str) and self.desc["default"]:
            ex = Decimal(self.desc["default"]).as_tuple().exponent
            ulp = Decimal(1).scaleb(ex)
            if v.as_tuple().exponent != ex or abs(v - exact) > ulp / 2:
                self.viol("value()-not-quantized-to-default-significance", f"text={t!r} value={v} default={self.desc['default']!r}", op="value")
        elif v != exact:
            self.viol("value()-differs-from-text", f"text={t!r} value={v!r} expected={exact!r}", op="value")

    # -- signals
    def check_signals(self, steps):
        sink, log = self.sink, self.siglog
        exp = []
        for i in range(1, len(steps)):
            exp.append(("change", steps[i], steps[i - 1]))
            exp.append(("postchange", steps[i - 1], steps[i]))
        if not exp:
            sink.count("oracle:signals_none_on_noop")
            if log:
                self.viol(f"signal-on-unmodified-text:{log[0][0]}", f"log={log!r}")
            return
        sink.count("oracle:signals_on_modification")
        got = [(n, a, t) for n, a, t, _p in log]
        if got != exp:
            names_g = [g[0] for g in got]
            names_e = [e[0] for e in exp]
            if names_g != names_e:
                k = "signal-count-or-order:" + ("none" if not got else ("fewer" if len(got) < len(exp) else ("more" if len(got) > len(exp) else "order")))
            else:
                k = "signal"
                for g, e in zip(got, exp):
                    if g != e:
                        if g[1] != e[1]:
                            k = f"{g[0]}-argument-wrong"
                        else:
                            k = f"{g[0]}-emitted-{'after' if g[0] == 'change' else 'before'}-text-changed"
                        break
            self.viol(k, f"expected {exp!r} got {got!r}")
        for n, _a, t, p in log:
            sink.count("oracle:pos_valid_inside_handler")
            if not 0 <= p <= len(t):
                self.viol(f"pos-out-of-range-inside-{n}-handler", f"pos={p} text={t!r}")
                break
            if p not in self.cs.boundaries(t):
                self.viol(f"pos-inside-multibyte-character-inside-{n}-handler", f"pos={p} text={t!r}")
                break

    # -- compare with the model after an op
    def judge(self, ocs, ret, opdesc):
        w, sink, m = self.w, self.sink, self.model
        self.check_state(self.opname, None if ocs is None else [oc.text for oc in ocs])
        t, p = w.edit_text, w.edit_pos
        if ocs is None:
            sink.count("op_unjudged_no_display_rows")
            if t != m.text:
                self.viol("text-changed-by-navigation", f"{opdesc}: {m.text!r} -> {t!r}")
                raise Abort
            m.resync(t, p, prefs_known=self.opname not in ("up", "down"))
            if self.opname in ("home", "end"):
                # documented (get_pref_col): home/end make the preferred column leftmost/rightmost wherever they land
                m.prefs = frozenset([R.LEFT if self.opname == "home" else R.RIGHT])
            return
        self.judged += 1
        sink.count("oracle:text_pos_equal")
        match = [oc for oc in ocs if oc.text == t and oc.pos == p]
        if not match:
            if not any(oc.text == t for oc in ocs):
                kind = "text-mismatch"
                if self.opname == "char":
                    kind += "|key=" + ("ascii" if self.lastkey.isascii() else "non-ascii")
                    if self.enc_switched:
                        kind += "|after-set_encoding-since-construction"
            else:
                kind = "pos-mismatch"
                exp = {oc.pos for oc in ocs if oc.text == t}
                if self.opname in ("up", "down", "home", "end", "click"):
                    if p == m.pos and all(e != m.pos for e in exp):
                        kind += "|did-not-move"
                    elif all(oc.note in ("noop", "click-outside-rows", "other-button") for oc in ocs):
                        kind += "|moved-but-should-not"
                    else:
                        kind += "|wrong-target"
                    if self.opname == "click" and self.flag_stale:
                        # one mechanism whatever the direction of the error
                        kind = "pos-mismatch|widget-view-flag-stale-after-cached-render"
                    else:
                        kind += f"|view-shifted={self.view_shifted()}"
            self.viol(
                kind,
                f"{opdesc} from text={m.text!r} pos={m.pos} prefs={m.prefs and set(m.prefs)}: widget text={t!r} pos={p} ret={ret!r}; model accepts {ocs!r}",
                generic=kind.endswith("stale-after-cached-render"),
            )
            raise Abort
        if self.numeric is not None and self.opname == "char" and match[0].note == "unhandled":
            # the text is back to what it was, but did it hold the sign in a non-leading place on the way?
            bad = [a for n, a, _t, _p in self.siglog if n == "change" and "-" in a[1:]]
            if bad:
                self.viol("alphabet|minus-not-leading|transient(zero-typed-before-minus-then-trimmed)", f"{opdesc}: signalled texts {bad!r}; log={self.siglog!r}")
                m.commit(match[0])
                return
        good = [oc for oc in match if ret in oc.rets]
        if not good:
            oc = match[0]
            if oc.note == "unhandled":
                kind = "unused-key-not-returned"
            elif oc.rets == (None,):
                kind = "handled-key-returned"
            else:
                kind = "return-value"
            self.viol(kind, f"{opdesc}: returned {ret!r}, acceptable {match[0].rets!r}")
            good = match
        oc = good[0]
        if oc.note == "unhandled":
            sink.count("oracle:unused_key_returned")
        elif oc.note.startswith(("up", "down")):
            sink.count("oracle:updown_judged")
        elif oc.note in ("home", "end"):
            sink.count("oracle:homeend_judged")
        elif oc.note == "noop":
            sink.count("oracle:noop_key_state_unchanged")
        self.check_signals(oc.steps)
        m.commit(oc)
        if len(good) > 1:
            m.merge_prefs(good)

    def view_shifted(self):
        a, _ = self.fresh(True)
        b, _ = self.fresh(False)
        return a != b

    # -- operations
    def step(self, op):
        sink, w = self.sink, self.w
        kind = op[0]
        sink.count("ops_applied")
        self.siglog.clear()
        if kind == "char" or kind == "key":
            key = op[1]
            self.lastkey = key
            self.opname = "char" if kind == "char" else (key if key in R.USED_KEYS else "unused-key")
            sink.count(f"op:{self.opname}")
            rows = None
            if kind == "key" and key in ("up", "down", "home", "end"):
                _t, rows = self.fresh(True)
            ocs = self.model.outcomes((kind, key), rows)
            ok, ret = self.guard(f"keypress:{self.opname}", w.keypress, self.size, key)
            if not ok:
                raise Abort
            self.judge(ocs, ret, f"keypress({self.size}, {key!r})")
        elif kind == "click":
            _k, col, row, button, focus = op
            self.opname = "click" if button == 1 else "other-button"
            sink.count(f"op:{self.opname}")
            ok, canv = self.guard(f"render:focus={bool(focus)}", w.render, self.size, bool(focus))
            if not ok:
                raise Abort
            self.hold(canv)
            trans_f, rows = self.fresh(bool(focus))
            self.flag_stale = False
            if button == 1 and trans_f is not None:
                # diagnosis only: does the widget interpret clicks on the view it has just been asked to draw?
                ok, trans_w = self.guard("get_line_translation", w.get_line_translation, self.size[0])
                if ok and trans_w != trans_f and trans_w == self.fresh(not focus)[0]:
                    self.flag_stale = True
                    sink.count("diag:click_while_widget_view_flag_stale_after_cached_render")
            if button == 1 and rows is not None and 0 <= row < len(rows):
                own = R.cell_owner(rows[row], col)
                if own is not None and own >= self.caplen:
                    sink.count("oracle:click_on_char_cell")
            ocs = self.model.outcomes(("click", col, row, button), rows)
            ok, ret = self.guard(f"mouse_event:{self.opname}", w.mouse_event, self.size, "mouse press", button, col, row, True)
            if not ok:
                raise Abort
            self.judge(ocs, ret, f"render({self.size}, {bool(focus)}); mouse_event({self.size}, 'mouse press', {button}, {col}, {row}, True)")
        elif kind == "render":
            self.opname = "render"
            if op[1]:
                self.observe()
            else:
                sink.count("op:render-unfocused")
                ok, canv = self.guard("render:focus=False", w.render, self.size, False)
                if not ok:
                    raise Abort
                self.hold(canv)
                if canv.cursor is not None:
                    self.viol("unfocused-render-has-cursor", f"cursor={canv.cursor}")
                self.check_unchanged("render")
        elif kind == "resize":
            self.opname = "resize"
            if (op[1],) != self.size:
                # the preferred column belongs to a width: at another width the current column counts.  The widget keeps
                # ONE (preference, width) pair, so when the width comes back to the one the preference was made at (and
                # possibly nothing overwrote the pair meanwhile) "keeping the preferred column" may also mean that one:
                # both readings are accepted then.
                old_prefs = self.model.prefs
                if old_prefs is None or old_prefs != frozenset([None]):
                    self.pref_stash = (self.size, old_prefs)
                self.size = (op[1],)
                stash = getattr(self, "pref_stash", None)
                if stash is not None and stash[0] == self.size:
                    sink.count("resize_back_to_the_width_of_a_stored_preference")
                    self.model.prefs = None if stash[1] is None else frozenset([None]) | stash[1]
                else:
                    self.model.prefs = frozenset([None])
        elif kind == "setenc":
            # the application switches the active encoding while the widget lives (text must be ASCII at this point)
            self.opname = "setenc"
            sink.count("op:set_encoding-after-construction")
            enc = op[1]
            self.u.set_encoding(enc)
            self.enc = enc
            self.mode_enc = ENC_MODE[enc]
            self.cs = R.Charset(self.is_bytes, self.mode_enc, enc)
            self.mode = self.cs.mode
            self.model.cs = self.cs
            self.enc_switched = True
            self.memo = self.memo2 = None
            self.keep.clear()
            self.u.CanvasCache.clear()
            w._invalidate()  # what an application does after set_encoding: redraw everything
            self.check_unchanged("set_encoding")
        elif kind == "set":
            self.opname = "set"
            off = len(self.conv(self.desc["text"][: op[1]])) if self.cls == "Edit" else min(op[1], len(self.init_text))
            w.set_edit_text(self.init_text)
            w.set_edit_pos(off)
            self.model.resync(w.edit_text, w.edit_pos)
            self.check_state("set")
        else:
            raise AssertionError(op)

    def hold(self, canv):
        self.keep.append(canv)
        if len(self.keep) > 3:
            del self.keep[0]

    def check_unchanged(self, what):
        w, m = self.w, self.model
        if w.edit_text != m.text or w.edit_pos != m.pos:
            self.viol("state-changed-by-observation", f"{what}: text {m.text!r}->{w.edit_text!r} pos {m.pos}->{w.edit_pos}")
            raise Abort

    def observe(self):
        """focused render; cursor clause"""
        sink, w, m = self.sink, self.w, self.model
        self.opname = "render"
        sink.count("op:render-focused")
        self.siglog.clear()
        ok, canv = self.guard("render:focus=True", w.render, self.size, True)
        if not ok:
            raise Abort
        self.hold(canv)
        self.check_unchanged("render")
        if self.siglog:
            self.viol("signal-on-unmodified-text:render", f"log={self.siglog!r}")
        maxcol = self.size[0]
        cur = canv.cursor
        if cur is None:
            self.viol("focused-render-without-cursor", f"text={m.text!r} pos={m.pos} size={self.size}")
            return
        trans_f, rows = self.fresh(True)
        if trans_f is None:
            return
        ok, trans_w = self.guard("get_line_translation", w.get_line_translation, maxcol)
        if ok and trans_w != trans_f:
            trans_u, _r = self.fresh(False)
            if trans_w == trans_u:
                # the focused canvas came from CanvasCache, so Edit.render did not run and the widget still
                # reports the unshifted view: not a clause of the statement by itself (a click would expose it)
                sink.count("diag:widget_reports_unshifted_view_after_cached_focused_render")
            else:
                self.viol("reported-layout-stale", f"widget {trans_w!r} fresh {trans_f!r} text={m.text!r} pos={m.pos}")
        sink.count("oracle:cursor_in_canvas")
        if not (0 <= cur[0] < maxcol and 0 <= cur[1] < canv.rows()):
            self.viol("cursor-outside-canvas", f"cursor={cur} canvas={canv.cols()}x{canv.rows()} text={m.text!r} pos={m.pos}")
            return
        if rows is None:
            sink.count("cursor_cell_unjudged_undisplayable")
            return
        fp = R.find_pos(rows, self.caplen + m.pos)
        if fp is None:
            sink.count("cursor_cell_unjudged_offset_not_in_rows")
            return
        x, y, ent = fp
        sink.count("oracle:cursor_cell")
        _tu, rows_u = self.fresh(False)
        if rows_u is not None and rows_u != rows:
            sink.count("view_shifted_observations")
        if cur != (x, y):
            self.viol(
                "cursor-not-at-cell-of-character-at-pos", f"cursor={cur} expected {(x, y)} text={m.text!r} pos={m.pos} size={self.size} layout={trans_f!r}"
            )
            return
        _x, _off, cw, marker = ent
        if marker or cw == 0:
            sink.count("cursor_on_end_marker_or_zero_width")
            return
        if x + cw > maxcol:
            sink.count("cursor_on_clipped_wide_char_position_only")
            return
        disp = self.disp_text()
        unit = next(iter(self.cs.units(disp, ent[1])))[1]
        want = unit if self.is_bytes else unit.encode(self.enc, "replace")
        sink.count("oracle:cursor_cell_content")
        if not self.cell_shows(canv, x, y, want):
            ok2 = False
            w._invalidate()
            ok, canv2 = self.guard("render:focus=True", w.render, self.size, True)
            if ok:
                self.hold(canv2)
                ok2 = canv2.cursor == (x, y) and self.cell_shows(canv2, x, y, want)
            self.viol(
                "cursor-cell-shows-other-character" + ("|correct-after-invalidate(stale-cached-canvas)" if ok2 else ""),
                f"cursor={cur} cell row={canv.text[y]!r} expected unit {want!r} text={m.text!r} pos={m.pos} size={self.size}",
                generic=ok2,
            )

    def cell_shows(self, canv, x, y, want):
        for cx, u, cw in R.canvas_cells(canv.text[y], self.mode_enc):
            if cx == x and cw > 0:
                return u == want
            if cx > x:
                break
        return False

    def run(self):
        sink = self.sink
        obs = self.desc.get("obs", 1)
        try:
            if obs <= 3:
                self.observe()
            for i, op in enumerate(self.desc["ops"]):
                self.step(op)
                if op[0] in ("char", "key", "click") and (i + 1) % obs == 0:
                    self.observe()
        except Abort:
            sink.count("sessions_aborted_after_violation")
        finally:
            self.u.disconnect_signal(self.w, "change", self._on_change)
            self.u.disconnect_signal(self.w, "postchange", self._on_postchange)
        return self.judged


def run_session(desc, sink):
    """build + run; construction failures are violations too"""
    try:
        s = Session(desc, sink)
    except Abort:
        return 0
    except Exception as e:  # noqa: BLE001
        sink.viol(f"C10|{desc['cls']}|construct|raise:{type(e).__name__}@{urwid_frame(e)}|mode={'bytes' if desc.get('bytes') else 'str'}", f"{type(e).__name__}: {e}\n{traceback.format_exc(limit=8)}")
        return 0
    return s.run()


# ------------------------------------------------------------------ shrinking


def reproduces(desc, sig):
    s = Sink()
    try:
        run_session(desc, s)
    except Exception:  # noqa: BLE001
        return False
    return any(v[0] == sig for v in s.viols)


def shrink(desc, sig, budget=400):
    """greedy: drop ops, then characters of text / caption, then options, while the same signature reproduces"""
    best = dict(desc)
    tries = 0

    def attempt(cand):
        nonlocal best, tries
        tries += 1
        if tries > budget:
            return False
        if reproduces(cand, sig):
            best = cand
            return True
        return False

    changed = True
    while changed and tries <= budget:
        changed = False
        ops = best["ops"]
        i = len(ops) - 1
        while i >= 0 and tries <= budget:
            cand = dict(best, ops=best["ops"][:i] + best["ops"][i + 1 :])
            if attempt(cand):
                changed = True
            i -= 1
        for field in ("text", "caption"):
            if best["cls"] != "Edit" and field == "text":
                continue
            i = len(best[field]) - 1
            while i >= 0 and tries <= budget:
                s = best[field]
                cand = dict(best, **{field: s[:i] + s[i + 1 :]})
                if field == "text" and cand.get("pos") is not None:
                    cand["pos"] = min(cand["pos"], len(cand["text"]))
                if attempt(cand):
                    changed = True
                i -= 1
        for field, val in (("mask", None), ("cap_attr", False), ("align", "left"), ("multiline", False), ("allow_tab", False), ("obs", 1), ("obs", 1000), ("bytes", False)):
            if best.get(field) != val and tries <= budget:
                if attempt(dict(best, **{field: val})):
                    changed = True
    return best


# ------------------------------------------------------------------ sweep (depth-1 core)

SWEEP_TEXTS = {
    "utf-8": ["", "a", "abc", "ab cd", "hello world foo", "漢", "a漢b", "漢字", "ab\ncd", "a\n", "\n", "éx", "x 漢字 y", "aaaa bbbb", "abcdefghij", "あa\nいうb"],
    "euc-jp": ["", "abc", "ab cd", "漢", "a漢b", "漢字あ", "ab\n漢", "x 漢字 y", "abcdefghij"],
    "ascii": ["", "a", "ab cd", "hello world foo", "ab\ncd", "\n\n", "abcdefghij"],
    "iso8859-1": ["", "ab", "a\u00e9b \u00dfx", "\u00e9\n\u00fc"],
    "koi8-r": ["ab", "a\u042fb \u0436x"],
    "cp1252": ["ab", "\u20ac5 a\u00e9"],
}
SWEEP_CAPS = {
    "utf-8": ["", "C", "Cap: ", "漢:", "two\nl"],
    "euc-jp": ["", "C", "漢:"],
    "ascii": ["", "C", "Cap: ", "two\nl"],
    "iso8859-1": ["", "> ", "\u00e9:"],
    "koi8-r": ["", "> "],
    "cp1252": ["", "\u20ac "],
}


def sweep_configs():
    for enc in SWEEP_TEXTS:
        for is_bytes in (False, True):
            for cap in SWEEP_CAPS[enc]:
                for text in SWEEP_TEXTS[enc]:
                    for wrap in WRAPS:
                        for align in ALIGNS:
                            for width in range(1, 13):
                                yield enc, is_bytes, cap, text, wrap, align, width


def sweep_desc(cfg, pos, flags):
    enc, is_bytes, cap, text, wrap, align, width = cfg
    wide = ALPHA[enc].get("wide", "")
    probes = [["key", k] for k in NAV] + [["key", "backspace"], ["key", "delete"], ["key", "enter"], ["key", "tab"], ["key", "f5"], ["char", "z"]]
    if wide:
        probes.append(["char", wide[0]])
    for ch in ALPHA[enc].get("latin", "")[:2]:
        probes.append(["char", ch])
    if is_bytes and FOREIGN[enc]:
        probes.append(["char", FOREIGN[enc][0]])
    nrows = min(4, text.count("\n") + cap.count("\n") + (len(text) + len(cap)) // max(1, width // 2) + 2)
    for row in range(nrows):
        for col in range(width):
            probes.append(["click", col, row, 1, True])
    ops = []
    for p in probes:
        ops.append(p)
        ops.append(["set", pos])
    return {
        "cls": "Edit",
        "enc": enc,
        "bytes": is_bytes,
        "caption": cap,
        "cap_attr": False,
        "text": text,
        "width": width,
        "wrap": wrap,
        "align": align,
        "multiline": bool(flags & 1),
        "allow_tab": bool(flags & 2),
        "mask": None,
        "pos": pos,
        "obs": 1,
        "ops": ops,
    }


# ------------------------------------------------------------------ directed regression cases


def _plain(enc, is_bytes, caption, text, width, ops, pos=None, wrap="space", align="left", multiline=False, mask=None, obs=1):
    return {"cls": "Edit", "enc": enc, "bytes": is_bytes, "caption": caption, "cap_attr": False, "text": text, "width": width,
            "wrap": wrap, "align": align, "multiline": multiline, "allow_tab": False, "mask": mask, "pos": pos, "obs": obs, "ops": ops}  # fmt: skip


def _num(cls, ops, width=12, **kw):
    d = {"cls": cls, "enc": "utf-8", "bytes": False, "caption": "", "cap_attr": False, "text": "", "width": width, "wrap": "space",
         "align": "left", "multiline": False, "allow_tab": False, "mask": None, "pos": None, "obs": 1, "default": None, "ops": ops}  # fmt: skip
    d.update(kw)
    return d


def K(*names):
    return [["char", n] if len(n) == 1 else ["key", n] for n in names]


def directed_descs():
    """every case named by a `fixed: property=C10` line / its commit message, run on every shard-partition of every run;
    yields (family, descriptor)"""
    # 46b965d typed characters go into bytes text in the ACTIVE encoding: every wide and every 8-bit encoding,
    # characters the encoding has (1 or 2 bytes) and characters it lacks (codec replacement), then editing around them
    for enc in ENC_MODE:
        al = ALPHA[enc]
        chars = list(al.get("wide", "")) + list(al.get("latin", "")) + FOREIGN[enc][:2]
        for ch in chars:
            for width in (7, 3):
                ops = K(ch, "left", "right", ch, "backspace", "home", "delete", "end", "up", "down")
                yield "46b965d", _plain(enc, True, "> ", "ab", width, ops, pos=1)
                yield "46b965d", _plain(enc, True, "", "", width, ops, wrap="clip")
    # 46b965d (history form): the encoding changes between construction and key presses, and between key presses;
    # the typed character must arrive in the encoding active WHEN IT IS TYPED (text is ASCII at every switch)
    encs = [e for e in ENC_MODE]
    for a in encs:
        for b in encs:
            if a == b:
                continue
            ca = (ALPHA[a].get("wide", "") + ALPHA[a].get("latin", ""))[:1] or "x"
            nb = ALPHA[b].get("wide", "") + ALPHA[b].get("latin", "")
            cb = nb[:1] or (FOREIGN[b][:1] or ["y"])[0]
            cb2 = nb[1:2] or cb
            for is_bytes in (True, False):
                if not is_bytes and not nb:
                    cb = cb2 = "y"  # str text must stay displayable in the new encoding
                yield "46b965d-history", _plain(a, is_bytes, "> ", "ab", 9, [["setenc", b]] + K(cb, "left", "right", cb2, "backspace", "home", "end", "left"), pos=1)
                yield "46b965d-history", _plain(a, is_bytes, "", "", 6, K(ca, "backspace") + [["setenc", b]] + K(cb, "a", cb2, "left", "right", "backspace", "backspace", "backspace") + [["setenc", a]] + K(ca, "left", "right", "a"), wrap="clip")
    # c084bec offset seen by change/postchange during backspace (bytes text, multi-byte neighbours), delete too
    for enc, text in (("utf-8", "あaいb"), ("utf-8", "b😀é"), ("euc-jp", " 漢"), ("euc-jp", "あaいb"), ("gbk", "a漢b"), ("iso8859-1", "aéb")):
        for pos in range(len(text) + 1):
            yield "c084bec", _plain(enc, True, "", text, 9, K("backspace", "backspace", "delete"), pos=pos)
            yield "c084bec", _plain(enc, False, "", text, 9, K("backspace", "delete"), pos=pos)
    # ba58766 only half of a wide character left in the (shifted / clipped) view
    for enc in ("utf-8", "euc-jp"):
        for is_bytes in (False, True):
            for cap, text in (("C", "漢"), ("漢", ""), ("", "漢"), ("", "a漢"), ("", "漢a"), ("あ", "\n"), ("", "漢字")):
                for wrap in WRAPS:
                    for align in ALIGNS:
                        for width in (1, 2, 3):
                            yield "ba58766", _plain(enc, is_bytes, cap, text, width, K("left", "right", "home", "end", "up", "down"), wrap=wrap, align=align, multiline=True)
    # e0fc36b lines / wrapped words made of zero-width characters only
    for is_bytes in (False, True):
        for wrap in WRAPS:
            for cap, text, width in (("", "", 5), ("\u0301 ", "aaaaaaaaa", 9), ("", "\u0301 a", 1), ("", "\u0301", 5), ("", "a\n\u0308\nb", 4), ("", "\u200d", 3)):
                ops = K("\u0308", "left", "right", "up", "down", "home", "end", "backspace", "a", "\u0301", "enter", "\u0301") + [["click", 0, 0, 1, True], ["click", 0, 1, 1, True]]
                yield "e0fc36b", _plain("utf-8", is_bytes, cap, text, width, ops, wrap=wrap, multiline=True)
    # 9a21b78 FloatEdit default shown with the configured separator, through every constructor form
    for form in ("kw", "dep_kw", "dep_pos", "mixed"):
        for sep in (",", "."):
            for dflt in ("0.5", "3.1415", "100.00", 12, "7.", "", None):
                for preserve in (True, False):
                    yield "9a21b78", _num("FloatEdit", K(".", ",", "1", "home", ",", ".", "end", "backspace"), form=form, sep=sep, preserve=preserve, neg=False, default=dflt)
    # 786c2fa sign stays leading; ASCII alphabet only
    for cls, extra in (("IntegerEdit", {"base": 10}), ("IntegerEdit", {"base": 16}), ("IntegerEdit", {"base": 36}), ("FloatEdit", {"sep": ".", "preserve": True})):
        for ops in (K("-", "left", "7"), K("-", "home", "0"), K("5", "home", "-", "home", "7"), K("-", "5", "home", "right", "left", "3", "0"), K("-", "home", "-"), K("-", "5", "home", "delete", "0")):
            yield "786c2fa", _num(cls, ops, form="kw", neg=True, **extra)
    for base in (19, 29, 36):
        yield "786c2fa", _num("IntegerEdit", K("ı", "ſ", "ﬆ", "ﬅ", "z", "Z", "²", "５"), form="kw", neg=False, base=base, default=15)
    yield "786c2fa", _num("IntEdit", K("²", "５", "٣", "7"), form="pos", default=4)
    yield "786c2fa", _num("FloatEdit", K("²", "５", "٣", "7", "."), form="kw", sep=".", preserve=True, neg=False)
    # the preferred column across resizes: a preference made at one width, renders / keys at another width, back again
    for text, w1 in (("abc def ghi", 4), (".5.", 1), ("ab\ncdef\ng", 5), ("abcdefghij", 3)):
        for setter in (K("end"), K("home"), K("end", "left"), [["click", 1, 1, 1, True]]):
            for w2 in (w1 + 3, w1 + 9, max(1, w1 - 2)):
                if w2 == w1:
                    continue
                for mid in ([], K("left"), K("up"), K("right", "down")):
                    for tail in (K("down", "up"), K("up", "down", "down")):
                        ops = K("end") + setter + K("up") + [["resize", w2]] + mid + [["resize", w1]] + tail
                        yield "resize-back", _plain("utf-8", False, "", text, w1, ops, multiline=True)


# ------------------------------------------------------------------ driver


KNOWN: dict = {}


def execute(ctx, desc, seen_sigs):
    sink = Sink()
    judged = run_session(desc, sink)
    for k, v in sink.counts.items():
        ctx.count(k, v)
    ctx.count("sessions")
    ctx.count(f"class:{desc['cls']}")
    mode = ENC_MODE[desc["enc"]] if desc.get("bytes") else "str"
    ctx.count(f"mode:{mode}")
    ctx.count(f"enc:{desc['enc']}")
    ctx.count(f"wrap:{desc['wrap']}")
    ctx.case(desc, nontrivial=judged > 0)
    done = set()
    for sig, msg in sink.viols:
        if sig in done:
            continue
        done.add(sig)
        n = seen_sigs.get(sig, 0)
        seen_sigs[sig] = n + 1
        wit = desc
        # shrink the first witness of an unlisted signature (known findings already carry a minimal witness)
        if n < 2 and sig not in KNOWN and not ctx.replaying and ctx.time_left() > -15:
            wit = shrink(desc, sig, budget=250)
            if wit is not desc:
                s2 = Sink()
                run_session(wit, s2)
                msg = next((m for s, m in s2.viols if s == sig), msg)
        ctx.violation(sig, msg, wit)
    return sink


def run(ctx):
    import urwid
    from urwid import numedit, str_util, text_layout
    from urwid.widget import edit as E

    saved_enc = urwid.util.get_encoding()
    reach.watch(
        E.Edit.keypress,
        E.Edit.insert_text,
        E.Edit.insert_text_result,
        E.Edit.set_edit_text,
        E.Edit.set_edit_pos,
        E.Edit.move_cursor_to_coords,
        E.Edit.mouse_event,
        E.Edit.get_line_translation,
        E.Edit.position_coords,
        E.Edit.get_cursor_coords,
        E.Edit.render,
        E.IntEdit.keypress,
        E.IntEdit.valid_char,
        numedit.NumEdit.keypress,
        numedit.NumEdit.valid_char,
        text_layout.calc_coords,
        text_layout.calc_pos,
        text_layout.calc_line_pos,
        text_layout.shift_line,
        text_layout.trim_line,
        str_util.move_next_char,
        str_util.move_prev_char,
    )
    seen = {}
    rng = ctx.rng
    from vmon import core

    KNOWN.clear()
    KNOWN.update(core.load_findings(PROPERTY))
    try:
        # (0) directed regression cases for every fixed finding (all of them on every run, partitioned over shards)
        for i, (family, desc) in enumerate(directed_descs()):
            if ctx.mine(i):
                execute(ctx, desc, seen)
                ctx.count("directed_sessions")
                ctx.count(f"directed:{family}")
        # (a) depth-1 sweep: states sampled uniformly over the configurations (so a time-bounded run covers every
        # encoding / text type / wrap / align evenly) until half the budget is used
        configs = list(sweep_configs())
        srng = ctx.subrng("sweep")  # per-shard stream: shards sample the state space independently
        sweep_done = 0
        cap = ctx.pick(4000, 40000)
        while ctx.more(0.5) and sweep_done < cap:
            cfg = srng.choice(configs)
            pos = srng.randint(0, len(cfg[3]))
            desc = sweep_desc(cfg, pos, srng.randrange(4))
            execute(ctx, desc, seen)
            sweep_done += 1
            ctx.count("sweep_sessions")
            if sweep_done == 1:
                ctx.sample({k: v for k, v in desc.items() if k != "ops"} | {"ops": desc["ops"][:6] + ["..."]})
        ctx.extra["sweep_states_total"] = sum(len(c[3]) + 1 for c in configs)
        # (b) random histories
        k = 0
        while ctx.more(1.0):
            k += 1
            desc = gen_numeric(rng) if rng.random() < 0.22 else gen_plain(rng)
            execute(ctx, desc, seen)
            ctx.count("random_sessions")
            if k <= 2:
                ctx.sample(desc)
    finally:
        urwid.set_encoding(saved_enc)
    reach.flush(ctx)


def replay(ctx, wit):
    import urwid

    saved_enc = urwid.util.get_encoding()
    try:
        execute(ctx, wit, {})
    finally:
        urwid.set_encoding(saved_enc)
