"""C08 container focus: invariant walk + offline judgement of spy-leaf logs over op histories.

A case is {"tree": recipe, "ops": [...], "cmap": bool}.  The tree is rebuilt from the recipe
(spy leaves from vmon.monitors.c08_spies, real urwid containers); every op is applied to the real
tree and to a plain-Python shadow of "what the edits put where"; after EVERY op every container in
the tree is walked and each clause of the statement is evaluated (one counter per clause).
"""

from __future__ import annotations

import random
import traceback
import warnings

from vmon import reach
from vmon.gen.c08_trees import CHAR_KEYS, MAX_SID, NAV_KEYS, Gen

PROPERTY = "C08"
LEVEL = "exploration"
SHARDS = {"quick": 8, "thorough": 16}
BUDGET = {"quick": 25.0, "thorough": 420.0}
REQUIRE = {  # about 1/20 of what one quick run observes on an idle machine (the workload is time-bounded, so volume drops under load)
    "histories": 150,
    "ops_applied": 4000,
    "clause:focus_valid_child": 20000,
    "clause:empty_no_focus": 2000,
    "clause:contents_match_edits": 20000,
    "clause:invalid_assign_rejected": 200,
    "clause:valid_assign_taken": 200,
    "clause:key_offer_on_path": 2500,
    "clause:key_return_value": 1000,
    "clause:key_handled_none": 35,
    "clause:key_unmapped_unchanged": 125,
    "clause:arrow_moved_selectable": 75,
    "clause:selectable_after_mutation": 500,
    "clause:render_focus_canvas": 1250,
    "clause:render_focus_calls": 1250,
    "clause:path_restored": 75,
    "clause:path_api_agrees": 4000,
    "clause:set_focus_path_valid": 125,
    "clause:set_focus_path_invalid": 50,
    "leaves_drawn_focused": 1000,
    "mouse_presses_that_moved_focus": 100,
    "keys_that_moved_focus": 100,
    "edit_focus_at:last|pop()": 20,
    "edit_focus_at:first|pop()": 15,
    "edit_focus_at:middle|pop()": 9,
    "edit_focus_at:only|pop()": 17,
    "edit_focus_at:last|pop(i):-1": 6,
    "edit_focus_at:last|pop(i):last": 7,
    "edit_focus_at:last|del[i]:-1": 9,
    "edit_focus_at:last|remove(item):last": 8,
    "edit_focus_at:last|reverse()": 17,
    "edit_focus_at:first|reverse()": 14,
    "edit_focus_at:last|append": 8,
    "edit_focus_at:last|extend": 8,
    "edit_focus_at:last|iadd": 9,
    "edit_focus_at:last|iadd_attr": 9,
    "edit_focus_at:last|[:]=items": 15,
    "edit_focus_at:middle|del[i]": 5,
    "decor_unselectable_widgets_built": 300,
    "decor_unselectable:disable:leaf": 100,
    "decor_unselectable:force_unsel:leaf": 50,
    "decor_unselectable:wwrap_unsel:leaf": 50,
    "decor_selectable_widgets_built": 50,
    "directed_form_histories": 20,
    "arrow_entered_nested_container": 60,
    "arrow_entered_nested_with_decor_unsel_on_entry_row": 25,
    "arrow_entered_decor_entry_row:pile:down": 8,
    "arrow_entered_decor_entry_row:pile:up": 4,
    "arrow_entered_decor_entry_row:cols:left": 2,
    "arrow_entered_decor_entry_row:cols:right": 3,
    "translating_leaves_built": 500,
    "xlate_offers": 60,
    "xlate:arrow->unmapped": 15,
    "xlate:other-command->arrow": 10,
    "xlate_parent:pile": 10,
    "xlate_parent:cols": 8,
    "xlate_parent:grid": 8,
    "xlate_parent:list": 6,
    "xlate_parent:frame": 1,
    "clause:key_translated_to_unmapped_unchanged": 15,
    "clause:child_translated_arrow_acted_on": 12,
    "xlate_arrow_expect:move": 3,
    "custom_cmap_histories": 50,
    "cmap_route:global": 8,
    "cmap_route:copy": 5,
    "cmap_route:copy_of_copy": 8,
    "cmap_route:global_then_copy": 8,
    "keys_sent_that_the_users_map_unbound": 30,
    "keys_sent_that_the_users_map_rebound": 10,
    "invalid_pos:float-integral-in-range": 15,
    "invalid_pos:fraction-integral": 6,
    "invalid_pos:complex-integral": 6,
    "invalid_pos:decimal-integral": 6,
    "invalid_pos:huge-int": 10,
    "invalid_pos:tuple": 5,
    "clause:indexlike_assign_consistent": 15,
    "clause:set_focus_path_indexlike": 5,
    "set_focus_path_invalid_with_exotic_element": 4,
    "assign_via:set_focus": 15,
    "assign_via:walker": 12,
    "assign_walker:slw:invalid": 8,
    "assign_walker:sflw:invalid": 8,
    "assign_walker:plain:invalid": 4,
    "directed:frame-empty-part": 4,
    "directed:pile-unselectable-any-key": 4,
    "directed:cache-lost-dependency": 4,
    "directed:grid-focus-on-empty-cell": 4,
    "directed:overlay-top-replaced": 4,
    "directed:grid-selectable-after-edit": 4,
    "iter_edit:gen:setslice": 10,
    "iter_edit:iter:setslice": 8,
    "iter_edit:map:setslice": 8,
    "iter_edit:reversed:setslice": 8,
    "iter_edit:gen:assign": 8,
    "iter_edit:gen:extend": 8,
    "iter_edit:gen:iadd": 6,
    "setslice_vs_focus:before-focus:one-shot:grow": 4,
    "setslice_vs_focus:contains-focus:one-shot:grow": 5,
    "setslice_vs_focus:after-focus:one-shot:grow": 4,
    "directed:listbox-emptied-after-set-focus": 6,
    "directed:slice-assign-from-iterator": 6,
    "kind:pile": 6000,
    "kind:cols": 5000,
    "kind:grid": 4500,
    "kind:frame": 2000,
    "kind:overlay": 1250,
    "kind:list": 2000,
    "reach:widget.pile.Pile.keypress": 750,
    "reach:widget.columns.Columns.keypress": 700,
    "reach:widget.grid_flow.GridFlow.keypress": 300,
    "reach:widget.frame.Frame.keypress": 250,
    "reach:widget.overlay.Overlay.keypress": 150,
    "reach:widget.listbox.ListBox.keypress": 225,
    "reach:widget.pile.Pile.mouse_event": 175,
    "reach:widget.columns.Columns.mouse_event": 125,
    "reach:widget.frame.Frame.mouse_event": 50,
    "reach:widget.listbox.ListBox.mouse_event": 50,
    "reach:widget.container.WidgetContainerMixin.set_focus_path": 250,
    "reach:widget.grid_flow.GridFlow._set_focus_from_display_widget": 100,
}
RULE = (
    "seeded recipes of Pile/Columns/GridFlow/Frame/Overlay/ListBox nestings (depth <= 4, box or flow sized, optional "
    "AttrMap/Padding/Filler/BoxAdapter decorations, 0..8 children, selectable/unselectable spy leaves with per-leaf "
    "handled-key sets and key-translation tables (given k return k' != k), leaves and containers whose selectability differs from their base widget's (WidgetDisable, AttrMap around "
    "it, an AttrMap subclass and a WidgetWrap overriding selectable()), 15% directed [selectable, nested group with such a leaf on "
    "its first/last row, selectable] forms walked with the arrow keys of their axis) "
    "x op histories (20 quick / 40 thorough non-render ops) of navigation keys, characters, "
    "button-1 presses at random cells, valid/invalid focus_position and set_focus_path, contents insert/append/+=/"
    "del/pop()/pop(i)/remove/reverse/item and slice assignment/[:]=/clear/contents=/contents+= (half of them right after putting the focus on the first, last or middle child), Frame part replace/remove, Overlay part replace, "
    "get_focus_path save/restore, renders at 4 sizes; 30% of histories under a custom command map (bindings deleted / cleared / rebound, built through CommandMap.copy() routes); a case = (tree recipe, op list); distinct = distinct such pairs; "
    "non-trivial = at least one op applied to a tree with >= 1 container"
)
ASSUMES = [
    "the 'child at a position' is what the edit history put there (plain-list shadow), not what urwid's contents getter says",
    "ListBox is excluded from 'arrow keys move focus only onto selectable children': the manual documents that a scrolling ListBox picks unselectable widgets as focus",
    "a key offered to a widget that is on the focus path at the moment of the offer but was not before the key is accepted only when the paths diverge at a ListBox (documented deferred focus completion)",
    "keys are sent to the root only while root.selectable() is true, with the size of the last render (as MainLoop does); the root is always box-sized",
    "a float/str/None position counts as an invalid position (set_focus_path docstring: 'incompatible position types ... will raise an IndexError'); so do numbers that merely EQUAL an index (1.0, Fraction(1), complex(1,0), Decimal(1)), tuples and huge ints",
    "values Python itself accepts as a list index (bool, int subclass, object with __index__) may be rejected with IndexError or accepted; if accepted the focus must equal that index and be valid (measured: bool and int subclasses are accepted, __index__ objects rejected); for Overlay any value == 1 is treated the same way",
    "walker.set_focus(x) on an EMPTY SimpleFocusListWalker is silently ignored: documented in MonitoredFocusList.focus",
    "Frame body is never removed (documented as required); Frame focus_part is never constructed naming a missing part",
    "histories in which urwid emits a WidgetWarning are cut at that op and the op is not judged (library-defined input domain)",
    "leaf selectability is constant; a parent's selectable() is judged only right after ITS OWN contents were edited",
    "custom command maps: the model's key -> command table is DEFAULTS plus the set/del/clear_command operations performed (never read back from urwid); the real map is built by one of four routes (edit the shared map; copy then edit; copy, edit, copy again; edit the shared map then copy) and installed as Widget._command_map (and, in 40%, as an instance attribute of every container)",
    "a leaf may return a different non-None key than it was given: containers must act on the returned key; for a key translated INTO an arrow the reference is 'the nearest Pile (up/down) / Columns (left/right) above the leaf with a selectable sibling in that direction moves to the nearest such sibling and returns None' (no expectation through GridFlow / ListBox)",
    "an exception escaping render/keypress/mouse_event/a valid edit is by-catch, not a C08 verdict (the statement is about focus state): it is counted (bycatch:*), listed under bycatch_crashes_not_judged and ends the history; but after a valid edit that raised, the shadow is re-read from contents and every clause is evaluated once more on the state left behind (tag after:edit-raised)",
    "the last rendered root canvas is kept alive between ops (as a display does), so CanvasCache is effective and a focus change that is not followed by invalidation shows up in the next canvas",
    "'rendered with focus' is read from the finished canvas (per-leaf focus glyph) and from the leaves' render(focus=True) calls; both are compared with the focus path walked by hand after the render",
]

SIZES = [(20, 10), (31, 7), (13, 16), (24, 5)]
ARROWS = {"up": "up", "down": "down", "left": "left", "right": "right"}
DEFAULT_CMAP = {
    "tab": "next", "ctrl n": "next", "shift tab": "prev", "ctrl p": "prev", "ctrl l": "redraw", "esc": "menu",
    "up": "up", "down": "down", "left": "left", "right": "right", "page up": "pgup", "page down": "pgdn",
    "home": "maxleft", "end": "maxright", " ": "activate", "enter": "activate",
}  # fmt: skip
EXTRA_CMAP = {"j": "down", "k": "up", "h": "left", "l": "right"}
KIND_NAME = {"pile": "Pile", "cols": "Columns", "grid": "GridFlow", "frame": "Frame", "overlay": "Overlay", "list": "ListBox", "leaf": "leaf"}
LISTLIKE = ("pile", "cols", "grid", "list")
DECOR_UNSEL_WRAPS = ("disable", "disable_attrmap", "force_unsel", "wwrap_unsel")
TAGCLASS = {"build": "build", "render": "render", "key": "input", "mouse": "input", "focus-set": "assign", "path-set": "assign", "mutate": "edit", "mutate-raised": "edit-raised"}


# ====================================================================== live tree + shadow


class Node:
    __slots__ = ("base", "ch", "cid", "kind", "mode", "parts", "rec", "sid", "w")

    def __init__(self, rec):
        self.rec = rec
        self.kind = rec["k"]
        self.mode = rec["mode"]
        self.cid = rec.get("cid")
        self.sid = rec.get("sid")
        self.ch: list[Node] = []
        self.parts: dict = {}
        self.w = None
        self.base = None

    def children(self):
        if self.kind in LISTLIKE:
            return list(self.ch)
        if self.kind == "frame":
            return [self.parts[p] for p in ("header", "body", "footer") if self.parts.get(p) is not None]
        if self.kind == "overlay":
            return [self.parts[0], self.parts[1]]
        return []

    def __repr__(self):
        return f"<{self.kind} {self.cid if self.sid is None else self.sid}>"


def pile_opt(opt):
    return ("pack", None) if opt[0] == "pack" else (opt[0], opt[1])


def cols_opt(opt):
    return (opt[0], opt[1], False)


def dim(x):
    return tuple(x) if isinstance(x, list) else x


class World:
    """builds real widgets from recipes and remembers which Node every widget belongs to"""

    def __init__(self, log, hooks):
        import urwid

        self.u = urwid
        self.log = log
        self.hooks = hooks  # object with .offer(node)
        self.by_wid: dict[int, Node] = {}
        self.keep: list = []
        self.cmap_obj = None

    def _reg(self, node, *ws):
        for w in ws:
            self.by_wid[id(w)] = node
            self.keep.append(w)

    def build(self, rec) -> Node:
        from vmon.monitors.c08_spies import BoxSpy, FlowSpy, ForceSelAttrMap, SelWrap

        u = self.u
        n = Node(rec)
        k = n.kind
        wrap = rec.get("wrap")
        native = n.mode
        if wrap == "filler":
            native = "flow"
        elif isinstance(wrap, list):
            native = "box"
        if k == "leaf":
            if native == "flow":
                base = FlowSpy(rec["sid"], rec["sel"], rec["keys"], self.log, rec["rows"], rec.get("xlate"))
            else:
                base = BoxSpy(rec["sid"], rec["sel"], rec["keys"], self.log, rec.get("xlate"))
            if rec.get("xlate"):
                self.hooks.c("translating_leaves_built")
        elif k == "pile":
            n.ch = [self.build(c) for c, _ in rec["ch"]]
            items = []
            for c, (_, opt) in zip(n.ch, rec["ch"]):
                if opt[0] == "pack":
                    items.append(("pack", c.w))
                elif opt[0] == "weight":
                    items.append(("weight", opt[1], c.w))
                else:
                    items.append((opt[1], c.w))
            base = u.Pile(items, focus_item=rec["focus"])
        elif k == "cols":
            n.ch = [self.build(c) for c, _ in rec["ch"]]
            items = [(("weight", opt[1], c.w) if opt[0] == "weight" else (opt[1], c.w)) for c, (_, opt) in zip(n.ch, rec["ch"])]
            base = u.Columns(items, dividechars=rec["div"], focus_column=rec["focus"])
        elif k == "grid":
            n.ch = [self.build(c) for c, _ in rec["ch"]]
            base = u.GridFlow([c.w for c in n.ch], rec["cw"], rec["hs"], rec["vs"], rec["align"], focus=rec["focus"])
        elif k == "list":
            n.ch = [self.build(c) for c, _ in rec["ch"]]
            ws = [c.w for c in n.ch]
            if rec["walker"] == "sflw":
                body = u.SimpleFocusListWalker(ws)
            elif rec["walker"] == "slw":
                body = u.SimpleListWalker(ws)
            else:
                body = ws
            base = u.ListBox(body)
            if rec["focus"] is not None and ws:
                base.body.set_focus(rec["focus"])
        elif k == "frame":
            for p in ("header", "body", "footer"):
                n.parts[p] = self.build(rec[p]) if rec[p] is not None else None
            g = lambda p: n.parts[p].w if n.parts[p] is not None else None  # noqa: E731
            base = u.Frame(g("body"), header=g("header"), footer=g("footer"), focus_part=rec["fp"])
        elif k == "overlay":
            n.parts[0] = self.build(rec["bottom"])
            n.parts[1] = self.build(rec["top"])
            base = u.Overlay(n.parts[1].w, n.parts[0].w, rec["align"], dim(rec["w"]), rec["valign"], dim(rec["h"]))
        else:
            raise ValueError(k)
        n.base = base
        w = base
        if wrap == "attrmap":
            w = u.AttrMap(base, None)
        elif wrap == "padding":
            w = u.Padding(base, left=1)
        elif wrap == "disable":
            w = u.WidgetDisable(base)
        elif wrap == "disable_attrmap":
            w = u.AttrMap(u.WidgetDisable(base), None)
        elif wrap in ("force_sel", "force_unsel"):
            w = ForceSelAttrMap(base, wrap == "force_sel")
        elif wrap in ("wwrap_sel", "wwrap_unsel"):
            w = SelWrap(base, wrap == "wwrap_sel")
        elif wrap == "filler":
            w = u.Filler(base, "top")
        elif isinstance(wrap, list):
            w = u.BoxAdapter(base, wrap[1])
        n.w = w
        if wrap in DECOR_UNSEL_WRAPS and base.selectable():
            self.hooks.c("decor_unselectable_widgets_built")
            self.hooks.c(f"decor_unselectable:{wrap}:{k}")
        elif wrap in ("force_sel", "wwrap_sel") and not base.selectable():
            self.hooks.c("decor_selectable_widgets_built")
        self._reg(n, base, w)
        if k != "leaf":
            if self.cmap_obj is not None:
                base._command_map = self.cmap_obj  # noqa: SLF001  (instance-attribute flavour, same map object)
            self._instrument(n)
        return n

    def _instrument(self, n):
        base = n.base
        hooks = self.hooks
        orig_k = base.keypress

        def keypress(size, key, _o=orig_k, _n=n):
            hooks.offer(_n)
            res = _o(size, key)
            hooks.log.events.append(("ckey", _n.cid, _n.kind, key, res))
            return res

        base.keypress = keypress


def all_nodes(root):
    out = []
    st = [root]
    while st:
        n = st.pop()
        out.append(n)
        st.extend(n.children())
    return out


# ====================================================================== session: ops + oracle


class Crash(Exception):
    pass


def urwid_frame(exc) -> str:
    """innermost urwid function in the traceback (mechanism, not line numbers)"""
    name = "?"
    for fs in traceback.extract_tb(exc.__traceback__):
        if "/urwid/" in fs.filename:
            name = f"{fs.filename.rsplit('/', 1)[-1][:-3]}.{fs.name}"
    return name


class IndexObj:
    """numpy-like scalar: not an int, but usable as a list index through __index__"""

    def __init__(self, n):
        self.n = n

    def __index__(self):
        return self.n

    def __repr__(self):
        return f"IndexObj({self.n})"


class IntSub(int):
    """a genuine int (subclass)"""


ITER_KINDS = ("list", "tuple", "gen", "iter", "map", "reversed")


def mkiter(kind, items):
    """the right-hand side of an edit as a user may write it; all but list/tuple are one-shot and have no len()"""
    if kind == "tuple":
        return tuple(items)
    if kind == "gen":
        return (x for x in items)
    if kind == "iter":
        return iter(items)
    if kind == "map":
        return map(lambda x: x, items)
    if kind == "reversed":
        return reversed(items[::-1])
    return list(items)


def decode_pos(p):
    """JSON op value -> Python position; ["$kind", n] encodes values JSON cannot carry"""
    if isinstance(p, list) and len(p) == 2 and isinstance(p[0], str) and p[0].startswith("$"):
        import decimal
        import fractions

        k, n = p
        return {
            "$float": lambda: float(n),
            "$fraction": lambda: fractions.Fraction(n),
            "$complex": lambda: complex(n, 0),
            "$decimal": lambda: decimal.Decimal(n),
            "$bool": lambda: bool(n),
            "$index": lambda: IndexObj(n),
            "$intsub": lambda: IntSub(n),
            "$huge": lambda: n * 2**70,
            "$tuple": lambda: (n,),
        }[k]()
    return p


def postype(kind, pos, n_children):
    import decimal
    import fractions

    if isinstance(pos, bool):
        return "bool"
    if isinstance(pos, IntSub):
        return "int-subclass"
    if isinstance(pos, IndexObj):
        return "index-object"
    if isinstance(pos, fractions.Fraction):
        return "fraction-integral"
    if isinstance(pos, decimal.Decimal):
        return "decimal-integral"
    if isinstance(pos, complex):
        return "complex-integral"
    if isinstance(pos, tuple):
        return "tuple"
    if isinstance(pos, int) and abs(pos) >= 2**64:
        return "huge-int"
    if isinstance(pos, float) and pos == int(pos) and kind != "frame":
        return "float-integral-in-range" if (0 <= pos < n_children or (kind == "overlay" and pos == 1)) else "float-integral-out-of-range"
    if isinstance(pos, int):
        if kind == "overlay":
            return f"overlay-{pos}" if pos in (0, 2) else "int-out-of-range"
        if n_children == 0:
            return "int-on-empty"
        return "int<0" if pos < 0 else "int>=len"
    if isinstance(pos, float):
        return "float-in-range" if 0 <= pos < n_children else "float-out-of-range"
    if pos is None:
        return "None"
    if isinstance(pos, str):
        if kind == "frame":
            return "missing-part" if pos in ("header", "footer") else "str-unknown-part"
        return "str"
    return type(pos).__name__


class NullCtx:
    """counter sink used while shrinking / replaying sub-runs"""

    def count(self, *_a, **_k):
        pass


class Session:
    def __init__(self, ctx, case, cmap_obj=None):
        from vmon.monitors.c08_spies import SpyLog

        self.ctx = ctx
        self.case = case
        self.log = SpyLog()
        self.world = World(self.log, self)
        self.viol: list[tuple[str, str]] = []
        self.seen_sigs: set[str] = set()
        self.persisted: set = set()
        self.bycatch: list = []
        self.stop = None
        self.edit_exc = None
        self.pending_target = None
        self.fresh_canvas = None
        self.screen_canvas = None
        self.size = SIZES[0]
        self.saved = None
        self.in_key = False
        self.before_chain: list = []
        self.deferred_ok = 0
        self.nops = 0
        self.cut = None
        spec = cmap_spec(case)
        self.cmd = model_cmap(spec)
        self.world.cmap_obj = cmap_obj if (spec and spec.get("inst")) else None
        try:
            self.root = self.guard("build", self.world.build, case["tree"])
        except Crash:
            self.root = None
            self.cut = "crash"

    # ------------------------------------------------------------ reporting
    def v(self, sig, msg):
        if self.edit_exc:
            msg = f"{msg}  [state left behind by a valid edit that raised: {self.edit_exc}]"
        if sig not in self.seen_sigs:
            self.seen_sigs.add(sig)
            self.viol.append((sig, msg))

    def pv(self, base, cid, tag, msg):
        """a state clause: report once per (clause, container) per history, tagged with the op class that first exposed it"""
        if (base, cid) in self.persisted:
            return
        self.persisted.add((base, cid))
        self.v(f"{base}|after:{TAGCLASS[tag]}", msg)

    def c(self, name, n=1):
        self.ctx.count(name, n)

    # ------------------------------------------------------------ model helpers
    def find(self, cid):
        for n in all_nodes(self.root):
            if n.cid == cid and n.kind != "leaf":
                return n
        return None

    def parent_of(self, node):
        for n in all_nodes(self.root):
            if any(c is node for c in n.children()):
                return n
        return None

    def under_list(self):
        out = set()
        st = [(self.root, False)]
        while st:
            n, inside = st.pop()
            inside = inside or n.kind == "list"
            if inside and n.kind != "leaf":
                out.add(n.cid)
            st.extend((c, inside) for c in n.children())
        return out

    def chain(self):
        out = [self.root]
        n = self.root
        by = self.world.by_wid
        while n.kind != "leaf":
            try:
                f = n.base.focus
            except Exception:  # noqa: BLE001
                break
            if f is None:
                break
            c = by.get(id(f))
            if c is None:
                break
            out.append(c)
            n = c
            if len(out) > 50:
                break
        return out

    def snapshot(self):
        """(cid -> (position-or-marker, id(focus widget))) over every container in the tree"""
        snap = {}
        for n in all_nodes(self.root):
            if n.kind == "leaf":
                continue
            try:
                p = n.base.focus_position
            except IndexError:
                p = "<IndexError>"
            except Exception as e:  # noqa: BLE001
                p = f"<{type(e).__name__}>"
            try:
                f = n.base.focus
            except Exception as e:  # noqa: BLE001
                f = f"<{type(e).__name__}>"
            snap[n.cid] = (p, f if isinstance(f, str) else (id(f) if f is not None else None), f)
        return snap

    @staticmethod
    def snap_eq(a, b):
        return {k: v[:2] for k, v in a.items()} == {k: v[:2] for k, v in b.items()}

    def model_valid_pos(self, n, pos):
        if n.kind in LISTLIKE:
            return isinstance(pos, int) and 0 <= pos < len(n.ch)
        if n.kind == "frame":
            return isinstance(pos, str) and pos in ("header", "body", "footer") and n.parts.get(pos) is not None
        if n.kind == "overlay":
            return isinstance(pos, int) and pos == 1
        return False

    def assign_expectation(self, n, pos):
        """'valid' (must be taken) | 'invalid' (must raise IndexError, nothing changes) | 'either' (Python itself treats the
        value as an index - bool, int subclass, __index__ object - or, for Overlay, the value equals the only position 1:
        it may be rejected with IndexError or accepted, and if accepted the focus must be valid and equal to it)"""
        if type(pos) is int or isinstance(pos, str) or pos is None:
            return "valid" if self.model_valid_pos(n, pos) else "invalid"
        if n.kind == "frame":
            return "invalid"
        if isinstance(pos, (bool, IntSub, IndexObj)):
            i = pos.__index__()
            if n.kind == "overlay":
                return "either" if i == 1 and not isinstance(pos, IndexObj) else "invalid"
            return "either" if 0 <= i < len(n.ch) else "invalid"
        if n.kind == "overlay":
            try:
                return "either" if pos == 1 else "invalid"
            except Exception:  # noqa: BLE001
                return "invalid"
        return "invalid"

    def model_child(self, n, pos):
        if n.kind in LISTLIKE:
            return n.ch[pos]
        return n.parts[pos]

    # ------------------------------------------------------------ the invariant walk
    def real_children(self, n):
        b = n.base
        if n.kind == "list":
            return list(b.body)
        return [w for w, _o in b.contents]

    def check_contents(self, n, tag):
        """clause: contents are what the edits put there (identity per position)"""
        K = KIND_NAME[n.kind]
        b = n.base
        by = self.world.by_wid
        self.c("clause:contents_match_edits")
        if n.kind in LISTLIKE:
            real = self.real_children(n)
            model = [c.w for c in n.ch]
            if len(real) != len(model) or any(r is not m for r, m in zip(real, model)):
                self.v(
                    f"C08|{K}|contents-differ-from-edits|after:{TAGCLASS[tag]}",
                    f"{K} cid={n.cid}: contents {[by.get(id(r)) for r in real]} but the edits left {n.ch}",
                )
                n.ch = [by[id(r)] for r in real if id(r) in by]
                return False
            return True
        ok = True
        if n.kind == "frame":
            for p in ("header", "body", "footer"):
                m = n.parts.get(p)
                attr = getattr(b, p)
                if (m.w if m is not None else None) is not attr:
                    self.v(f"C08|Frame|contents-differ-from-edits|part:{p}|after:{TAGCLASS[tag]}", f"Frame cid={n.cid}: .{p} is {by.get(id(attr))} but the edits left {m}")
                    n.parts[p] = by.get(id(attr)) if attr is not None else None
                    ok = False
            return ok
        # overlay
        for i in (0, 1):
            try:
                got = b.contents[i][0]
            except Exception as e:  # noqa: BLE001
                self.pv(f"C08|Overlay|contents[{i}]-raises:{type(e).__name__}", n.cid, tag, f"Overlay cid={n.cid}: contents[{i}] raised {e}")
                ok = False
                continue
            if got is not n.parts[i].w:
                self.v(
                    f"C08|Overlay|contents-differ-from-edits|index:{i}|after:{TAGCLASS[tag]}",
                    f"Overlay cid={n.cid}: contents[{i}][0] is {by.get(id(got))} but the edits left {n.parts[i]}",
                )
                if id(got) in by:
                    n.parts[i] = by[id(got)]
                ok = False
        return ok

    def check_focus(self, n, tag, contents_ok):
        K = KIND_NAME[n.kind]
        b = n.base
        cid = n.cid
        if n.kind in LISTLIKE and not n.ch:
            self.c("clause:empty_no_focus")
            try:
                f = b.focus
            except Exception as e:  # noqa: BLE001
                self.pv(f"C08|{K}|empty|focus-raises:{type(e).__name__}", cid, tag, f"empty {K} cid={cid}: .focus raised {e}")
                f = None
            if f is not None:
                self.pv(f"C08|{K}|empty|focus-not-None", cid, tag, f"empty {K} cid={cid}: .focus is {f!r}")
            try:
                p = b.focus_position
                self.pv(f"C08|{K}|empty|focus_position-readable", cid, tag, f"empty {K} cid={cid}: .focus_position returned {p!r}")
            except IndexError:
                pass
            except Exception as e:  # noqa: BLE001
                self.pv(f"C08|{K}|empty|focus_position-raises:{type(e).__name__}", cid, tag, f"empty {K} cid={cid}: {e}")
            return
        self.c("clause:focus_valid_child")
        try:
            pos = b.focus_position
        except Exception as e:  # noqa: BLE001
            self.pv(
                f"C08|{K}|non-empty|focus_position-raises:{type(e).__name__}",
                cid,
                tag,
                f"{K} cid={cid} with {len(n.children())} children: reading focus_position raised {type(e).__name__}: {e}",
            )
            return
        if not self.model_valid_pos(n, pos):
            self.pv(
                f"C08|{K}|non-empty|focus_position-invalid:{postype(n.kind, pos, len(n.children()))}",
                cid,
                tag,
                f"{K} cid={cid}: focus_position={pos!r} is not a valid position (children: {n.children()})",
            )
            return
        try:
            f = b.focus
        except Exception as e:  # noqa: BLE001
            self.pv(f"C08|{K}|non-empty|focus-raises:{type(e).__name__}", cid, tag, f"{K} cid={cid}: .focus raised {e}")
            return
        m = self.model_child(n, pos)
        try:
            child = b.contents[pos][0]
        except Exception as e:  # noqa: BLE001
            shape = "empty-container" if m.kind != "leaf" and not m.children() else KIND_NAME[m.kind]
            self.pv(
                f"C08|{K}|non-empty|contents[focus_position]-raises:{type(e).__name__}|child:{shape}",
                cid,
                tag,
                f"{K} cid={cid}: focus_position={pos!r} (child {m}) but contents[{pos!r}] raised {type(e).__name__}: {e}",
            )
            return
        if child is not f:
            self.pv(f"C08|{K}|non-empty|focus-is-not-contents[focus_position]", cid, tag, f"{K} cid={cid}: focus_position={pos!r}, focus={f!r}, contents[pos][0]={child!r}")
        elif contents_ok and f is not m.w:
            self.pv(f"C08|{K}|non-empty|focus-is-not-the-child-put-at-position", cid, tag, f"{K} cid={cid}: focus_position={pos!r}, focus={f!r}, edits put {m} there")

    def check_path_api(self, tag):
        """get_focus_path / get_focus_widgets agree with walking .focus / .focus_position by hand"""
        self.c("clause:path_api_agrees")
        ch = self.chain()
        mine = []
        for n in ch:
            if n.kind == "leaf":
                break
            try:
                mine.append(n.base.focus_position)
            except Exception:  # noqa: BLE001
                break
        rb = self.root.base
        try:
            got = rb.get_focus_path()
        except Exception as e:  # noqa: BLE001
            self.v(f"C08|api|get_focus_path-raises:{type(e).__name__}|after:{TAGCLASS[tag]}", f"{e}")
            return
        if list(got) != mine:
            self.v(f"C08|api|get_focus_path-differs-from-walk|after:{TAGCLASS[tag]}", f"get_focus_path()={got!r} but walking focus_position gives {mine!r}")
        try:
            ws = rb.get_focus_widgets()
        except Exception as e:  # noqa: BLE001
            self.v(f"C08|api|get_focus_widgets-raises:{type(e).__name__}|after:{TAGCLASS[tag]}", f"{e}")
            return
        exp = [n.w for n in ch[1:]]
        if len(ws) < len(exp) or any(a is not b for a, b in zip(ws, exp)):
            self.v(f"C08|api|get_focus_widgets-differs-from-walk|after:{TAGCLASS[tag]}", f"get_focus_widgets()={ws!r} but walking .focus gives {exp!r}")

    def check_all(self, tag):
        for n in all_nodes(self.root):
            if n.kind == "leaf":
                continue
            self.c(f"kind:{n.kind}")
            ok = self.check_contents(n, tag)
            self.check_focus(n, tag, ok)
        self.check_path_api(tag)

    # ------------------------------------------------------------ key offers (called from spies / container wrappers)
    def offer(self, node):
        if not self.in_key:
            return
        self.c("clause:key_offer_on_path")
        now = self.chain()
        what = KIND_NAME[node.kind]
        if not any(x is node for x in now):
            par = self.parent_of(node)
            self.v(
                f"C08|keypress|offered-off-focus-path|to:{what}|parent:{KIND_NAME[par.kind] if par else 'detached'}",
                f"key {self.cur_key!r} offered to {node} which is not on the focus path {now}",
            )
            return
        if not any(x is node for x in self.before_chain):
            i = 0
            while i < len(now) and i < len(self.before_chain) and now[i] is self.before_chain[i]:
                i += 1
            div = now[i - 1] if i else None
            if any(x.kind == "list" for x in now[:i]):
                # a ListBox above the divergence completed a deferred focus change (set_focus_pending /
                # change_focus -> move_cursor_to_coords into its item) before passing the key down
                self.c("key_offer_listbox_deferred_focus")
            else:
                self.v(
                    f"C08|keypress|offered-to-widget-focused-during-the-key|to:{what}|moved-by:{KIND_NAME[div.kind] if div else '?'}",
                    f"key {self.cur_key!r} offered to {node}; path before the key {self.before_chain}, at the offer {now}",
                )

    def leaf_offer(self, spy):
        n = self.world.by_wid.get(id(spy))
        if n is not None:
            self.offer(n)

    # ------------------------------------------------------------ ops
    def guard(self, opclass, fn, *a):
        """an exception escaping a valid operation is by-catch (the statement is about focus state, not about
        crashes): it is counted, kept for the evidence file, and ends the history"""
        try:
            return fn(*a)
        except Exception as e:  # noqa: BLE001
            sig = f"crash|{opclass}|{type(e).__name__}|in:{urwid_frame(e)}"
            self.c("bycatch_crashes")
            self.c(f"bycatch:{sig}")
            self.bycatch.append((sig, f"{type(e).__name__}: {e}"))
            tbn = [fs.name for fs in traceback.extract_tb(e.__traceback__)]
            k = max((i for i, nm in enumerate(tbn) if nm == "_set_focus_complete"), default=None)
            # only when _set_focus_complete itself, or the walker position call it makes (set_focus / get_focus / the
            # MonitoredFocusList.focus setter), raises - not geometry errors further down (shift_focus, child rendering)
            if k is not None and all(nm in ("set_focus", "get_focus", "focus") for nm in tbn[k + 1 :]):
                # the ListBox failed while finishing a focus assignment made earlier (set_focus is deferred until the
                # next render / keypress / mouse_event): the focus machinery, not geometry
                emptied = any(n.kind == "list" and not n.ch for n in all_nodes(self.root))
                self.v(
                    f"C08|ListBox|deferred-focus-completion-raised|{opclass}|{type(e).__name__}|in:{urwid_frame(e)}|{'a-listbox-is-empty' if emptied else 'no-listbox-empty'}",
                    f"{opclass} raised {type(e).__name__}: {e} while a ListBox completed a pending set_focus()",
                )
            raise Crash from e

    def cache_diagnosis(self, leaf):
        """label only (never the verdict): why can a cached canvas still show an old focus?  If a widget between
        the root and the leaf has no CanvasCache entry while the root canvas is cached, the cache has lost the
        dependency edge along which _invalidate() would have propagated; otherwise nobody invalidated."""
        from urwid.canvas import CanvasCache

        chain = []
        n = leaf
        while n is not None:
            chain.append(n)
            n = self.parent_of(n)
        known = CanvasCache._widgets  # noqa: SLF001
        if self.root.w not in known:
            return "root-not-cached"
        for n in chain[1:]:
            if n.base not in known or n.w not in known:
                return "CanvasCache-lost-dependency"
        return "not-invalidated"

    def op_render(self, si):
        from vmon.monitors.c08_spies import canvas_leaves

        self.size = SIZES[si % len(SIZES)]
        self.log.clear()
        canv = self.guard("render", self.root.w.render, self.size, True)
        self.fresh_canvas = canv
        self.screen_canvas = canv  # the display keeps the last canvas alive; CanvasCache entries live as long as it does
        ch = self.chain()
        onpath = {ch[-1].sid} if ch[-1].kind == "leaf" else set()
        _seen, focused = self.guard("canvas-content", canvas_leaves, canv)
        self.c("clause:render_focus_canvas")
        self.c("leaves_drawn", len(_seen))
        self.c("leaves_drawn_focused", len(focused))
        rendered_now = {e[1] for e in self.log.events if e[0] == "render"}
        for sid in sorted(focused - onpath):
            n = next((x for x in all_nodes(self.root) if x.sid == sid), None)
            par = self.parent_of(n) if n else None
            how = "fresh-render"
            if sid not in rendered_now:
                how = "stale-cache:" + self.cache_diagnosis(n)
            if how.endswith("lost-dependency"):
                sig = f"C08|render|canvas-shows-focus-off-path|{how}"
            else:
                sig = f"C08|render|canvas-shows-focus-off-path|parent:{KIND_NAME[par.kind] if par else 'detached'}|{how}"
            self.v(sig, f"leaf {sid} is drawn with its focus glyph at size {self.size} but the focus path is {ch} ({how})")
        self.c("clause:render_focus_calls")
        for e in self.log.events:
            if e[0] == "render":
                self.c("leaf_render_calls")
                if e[2]:
                    self.c("leaf_render_calls_focus")
                    if e[1] not in onpath:
                        n = next((x for x in all_nodes(self.root) if x.sid == e[1]), None)
                        par = self.parent_of(n) if n else None
                        self.v(
                            f"C08|render|render(focus=True)-off-path|parent:{KIND_NAME[par.kind] if par else 'detached'}",
                            f"leaf {e[1]} got render(size={e[3]}, focus=True) but the focus path is {ch}",
                        )
        self.check_all("render")

    def expected_arrow_mover(self, chain, cmd):
        """reference for Pile/Columns arrow handling: walking up from the focus leaf, the first Pile (up/down) or Columns
        (left/right) with a selectable sibling in that direction moves to the NEAREST such sibling.  GridFlow / ListBox on
        the way: no expectation."""
        for i in range(len(chain) - 2, -1, -1):
            A, C = chain[i], chain[i + 1]
            if A.kind in ("grid", "list"):
                return "unknown", None, None
            if (A.kind == "pile" and cmd in ("up", "down")) or (A.kind == "cols" and cmd in ("left", "right")):
                idx = next((k for k, x in enumerate(A.ch) if x is C), None)
                if idx is None:
                    return "unknown", None, None
                rng_ = range(idx - 1, -1, -1) if cmd in ("up", "left") else range(idx + 1, len(A.ch))
                for j in rng_:
                    try:
                        if A.ch[j].w.selectable():
                            return "move", A, j
                    except Exception:  # noqa: BLE001
                        return "unknown", None, None
        return "none", None, None

    def op_key(self, key):
        rw = self.root.w
        if not self.guard("selectable", rw.selectable):
            self.c("key_skipped_root_unselectable")
            return
        self.before_chain = self.chain()
        before = self.snapshot()
        self.log.clear()
        self.cur_key = key
        self.in_key = True
        try:
            res = self.guard("keypress", rw.keypress, self.size, key)
        finally:
            self.in_key = False
        self.c("keys_sent")
        if key in DEFAULT_CMAP and key not in self.cmd:
            self.c("keys_sent_that_the_users_map_unbound")
        elif key in self.cmd and self.cmd[key] != DEFAULT_CMAP.get(key):
            self.c("keys_sent_that_the_users_map_rebound")
        after = self.snapshot()
        evs = [e for e in self.log.events if e[0] == "key"]
        self.c("leaf_key_events", len(evs))
        handled = any(e[3] for e in evs)
        # the key the containers must act on is the key the focus child RETURNED (a leaf may translate 'tab' -> 'right')
        eff = key
        xl = None
        if evs and not handled:
            first = evs[0]
            if first[2] != key:
                self.v("C08|keypress|leaf-was-offered-a-different-key", f"root.keypress({key!r}) but leaf {first[1]} was offered {first[2]!r}")
            if len(evs) == 1 and first[5] != first[2]:
                xl = (first[2], first[5])
                eff = first[5]
                leafn = self.before_chain[-1] if self.before_chain[-1].sid == first[1] else None
                par = self.parent_of(leafn) if leafn is not None else None

                def kc(k):
                    c = self.cmd.get(k)
                    return "arrow" if c in ARROWS else ("unmapped" if c is None else "other-command")

                self.c("xlate_offers")
                self.c(f"xlate:{kc(key)}->{kc(eff)}")
                self.c(f"xlate_parent:{par.kind if par else '?'}")
        tag = "|after-child-translated-key" if xl else ""
        self.c("clause:key_return_value")
        if res is not None and res != eff:
            self.v(f"C08|keypress|returned-a-different-key|{self.cmd.get(key, 'unmapped')}{tag}", f"keypress({key!r}) returned {res!r}" + (f" (focus leaf returned {eff!r})" if xl else ""))
        if handled:
            self.c("clause:key_handled_none")
            if res is not None:
                who = [e[1] for e in evs if e[3]]
                par = self.parent_of(next(x for x in all_nodes(self.root) if x.sid == who[0]))
                self.v(f"C08|keypress|handled-key-came-back|parent:{KIND_NAME[par.kind] if par else '?'}", f"leaf {who} handled {key!r} but root.keypress returned {res!r}")
        elif eff not in self.cmd:
            self.c("clause:key_unmapped_unchanged")
            if xl:
                self.c("clause:key_translated_to_unmapped_unchanged")
            what = f"{key!r}" + (f" (returned by the focus leaf as {eff!r})" if xl else "")
            if res != eff:
                # the deepest container whose keypress changed the key (events are appended on return: first = deepest)
                by = next((KIND_NAME[e[2]] for e in self.log.events if e[0] == "ckey" and e[4] != eff), "?")
                self.v(f"C08|keypress|unhandled-unmapped-key-swallowed|by:{by}{tag}", f"nobody handles {what} and it is not bound to a command, but keypress returned {res!r}; path {self.before_chain}")
            # a ListBox may complete a deferred focus change (initial "first selectable", set_focus_pending) on any key
            # and position the cursor inside its item via move_cursor_to_coords: ListBoxes and their descendants are exempt
            ul = self.under_list()
            b2 = {k: v[:1] for k, v in before.items() if k not in ul}
            a2 = {k: v[:1] for k, v in after.items() if k not in ul}
            if {k: v for k, v in before.items() if k in ul and v[:2] != after.get(k, (None, None))[:2]}:
                self.c("key_listbox_deferred_focus_moved")
            if b2 != a2:
                kinds = sorted({KIND_NAME[n.kind] for n in all_nodes(self.root) if n.kind != "leaf" and b2.get(n.cid) != a2.get(n.cid)})
                self.v(f"C08|keypress|unhandled-unmapped-key-moved-focus|of:{'+'.join(kinds)}{tag}", f"{what}: focus positions {b2} -> {a2}")
        elif xl and self.cmd.get(eff) in ARROWS and self.before_chain[-1].sid == evs[0][1]:
            # the child turned the key INTO an arrow: the nearest Pile (up/down) / Columns (left/right) above it that has a
            # selectable sibling in that direction must take it (reference: nearest selectable sibling); nobody else may
            ecmd = self.cmd[eff]
            verdict, A, j = self.expected_arrow_mover(self.before_chain, ecmd)
            if verdict != "unknown":
                self.c("clause:child_translated_arrow_acted_on")
                self.c(f"xlate_arrow_expect:{verdict}")
            if verdict == "move":
                got = after.get(A.cid, (None,))[0]
                if got != j or res is not None:
                    self.v(
                        f"C08|keypress|arrow-returned-by-child-not-acted-on|{KIND_NAME[A.kind]}|{ecmd}",
                        f"{key!r}: focus leaf returned {eff!r}; {KIND_NAME[A.kind]} cid={A.cid} should move its focus {before[A.cid][0]!r} -> {j} and return None, "
                        f"but its focus is {got!r} and root.keypress returned {res!r}",
                    )
            elif verdict == "none" and res != eff:
                self.v(f"C08|keypress|arrow-returned-by-child-swallowed|{ecmd}", f"{key!r}: focus leaf returned {eff!r}, no Pile/Columns above it has a selectable sibling that way, yet keypress returned {res!r}")
        cmd = self.cmd.get(key)
        if cmd not in ARROWS and self.cmd.get(eff) in ARROWS:
            cmd = self.cmd.get(eff)
        if cmd in ARROWS and not handled:
            self.c("arrow_keys_judged")
        if cmd in ARROWS:
            for n in all_nodes(self.root):
                if n.kind in ("leaf", "list") or n.cid not in before or n.cid not in after:
                    continue
                b4, af = before[n.cid], after[n.cid]
                if b4[1] == af[1] or af[1] is None or isinstance(af[2], str):
                    continue
                self.c("clause:arrow_moved_selectable")
                self.c(f"arrow_moved:{n.kind}")
                neww = af[2]
                if not neww.selectable():
                    try:
                        nosel = "" if any(c.w.selectable() for c in n.children()) else "|container-has-no-selectable-child"
                    except Exception:  # noqa: BLE001
                        nosel = ""
                    self.v(
                        f"C08|keypress|arrow-moved-focus-onto-unselectable|{KIND_NAME[n.kind]}|{cmd}{nosel}",
                        f"{key!r}: {KIND_NAME[n.kind]} cid={n.cid} focus {b4[0]!r} -> {af[0]!r} = {self.world.by_wid.get(id(neww))} which is not selectable",
                    )
        if cmd in ARROWS:
            # coverage: which nested containers did this arrow key enter, and what sits on the row it entered through?
            for n in self.chain()[1:]:
                if n.kind in LISTLIKE and n.ch and not any(x is n for x in self.before_chain):
                    self.c("arrow_entered_nested_container")
                    entry = n.ch[0] if cmd in ("down", "right") else n.ch[-1]
                    if entry.rec.get("wrap") in DECOR_UNSEL_WRAPS:
                        try:
                            decor = entry.base.selectable() and not entry.w.selectable()
                        except Exception:  # noqa: BLE001
                            decor = False
                        if decor:
                            self.c("arrow_entered_nested_with_decor_unsel_on_entry_row")
                            self.c(f"arrow_entered_decor_entry_row:{n.kind}:{cmd}")
        if not self.snap_eq(before, after):
            self.c("keys_that_moved_focus")
        self.check_all("key")

    def op_mouse(self, col, row):
        cols, rows = self.size
        col %= cols
        row %= rows
        self.log.clear()
        before = self.snapshot()
        target = None
        fresh = self.fresh_canvas
        if fresh is not None:
            from vmon.monitors.c08_spies import canvas_cell

            try:
                target = canvas_cell(fresh, col, row)
            except Exception:  # noqa: BLE001
                target = None
        self.guard("mouse_event", self.root.w.mouse_event, self.size, "mouse press", 1, col, row, True)
        self.c("mouse_presses")
        if target is not None:
            # observation only (not a clause of the statement): a press on a cell that shows a leaf
            self.c("mouse_press_on_leaf_cell")
            got = any(e[0] == "mouse" and e[1] == target[0] for e in self.log.events)
            self.c("mouse_press_on_leaf_cell_delivered" if got else "mouse_press_on_leaf_cell_not_delivered")
            leaf = next((x for x in all_nodes(self.root) if x.sid == target[0]), None)
            if leaf is not None and leaf.w.selectable():
                self.c("mouse_press_on_selectable_leaf")
                if any(x is leaf for x in self.chain()):
                    self.c("mouse_press_on_selectable_leaf_now_focused")
        self.c("leaf_mouse_events", sum(1 for e in self.log.events if e[0] == "mouse"))
        if not self.snap_eq(before, self.snapshot()):
            self.c("mouse_presses_that_moved_focus")
        self.check_all("mouse")

    def op_focus(self, cid, pos, via="prop"):
        n = self.find(cid)
        if n is None:
            self.c("op_skipped_detached")
            return
        pos = decode_pos(pos)
        K = KIND_NAME[n.kind]
        if n.kind != "list":
            via = "prop"
        expect = self.assign_expectation(n, pos)
        empty_walker = via == "walker" and not n.ch
        before = self.snapshot()
        exc = None
        try:
            if via == "prop":
                n.base.focus_position = pos
            elif via == "set_focus":
                n.base.set_focus(pos)
            else:  # the walker's own API
                n.base.body.set_focus(pos)
        except Exception as e:  # noqa: BLE001
            exc = e
        after = self.snapshot()
        route = "" if via == "prop" else f"|via:{via}"
        what = {"prop": "focus_position=", "set_focus": "set_focus", "walker": "body.set_focus"}[via]
        self.c(f"assign_via:{via}")
        if n.kind == "list":
            self.c(f"assign_walker:{n.rec['walker']}:{expect}")
        if empty_walker:
            # MonitoredFocusList.focus docstring: "...except when the list is empty and the index passed is ignored"
            self.c("walker_set_focus_on_empty_list")
            if not self.snap_eq(before, after):
                self.v(f"C08|{K}|body.set_focus-on-empty|changed-focus-state", f"{K} cid={n.cid}: {before[n.cid][:1]} -> {after[n.cid][:1]}")
        elif expect == "valid":
            self.c("clause:valid_assign_taken")
            if exc is not None:
                self.v(f"C08|{K}|focus_position=valid|raise:{type(exc).__name__}{route}", f"{K} cid={n.cid} children {n.children()}: {what}{pos!r} raised {type(exc).__name__}: {exc}")
            elif after[n.cid][0] != pos:
                self.v(f"C08|{K}|focus_position=valid|not-taken{route}", f"{K} cid={n.cid}: assigned {pos!r}, reads back {after[n.cid][0]!r}")
        elif expect == "either":
            pt = postype(n.kind, pos, len(n.children()))
            self.c("clause:indexlike_assign_consistent")
            self.c(f"indexlike_pos:{pt}:{'rejected' if exc is not None else 'accepted'}")
            if exc is not None:
                if not isinstance(exc, IndexError):
                    self.v(f"C08|{K}|focus_position=indexlike:{pt}|raise:{type(exc).__name__}{route}", f"{K} cid={n.cid}: {what}{pos!r} raised {type(exc).__name__}: {exc}")
                if not self.snap_eq(before, after):
                    self.v(f"C08|{K}|focus_position=indexlike:{pt}|rejected-but-changed-focus-state{route}", f"{K} cid={n.cid}: {what}{pos!r}: {before[n.cid][:1]} -> {after[n.cid][:1]}")
            else:
                got = after[n.cid][0]
                want = 1 if n.kind == "overlay" else pos.__index__()
                try:
                    same = got == want
                except Exception:  # noqa: BLE001
                    same = False
                if not same:
                    self.v(f"C08|{K}|focus_position=indexlike:{pt}|accepted-but-focus-differs{route}", f"{K} cid={n.cid}: {what}{pos!r} accepted, focus_position reads back {got!r}")
                # the invariant walk below judges that the accepted value left a valid focus
        else:
            pt = postype(n.kind, pos, len(n.children()))
            self.c("clause:invalid_assign_rejected")
            self.c(f"invalid_pos:{pt}")
            if exc is None:
                self.v(f"C08|{K}|focus_position=invalid:{pt}|accepted{route}", f"{K} cid={n.cid} children {n.children()}: {what}{pos!r} was accepted; reads back {after[n.cid][0]!r}")
                self.check_all("focus-set")
                self.stop = "state-corrupted-by-reported-violation"
                return
            elif not isinstance(exc, IndexError):
                self.v(f"C08|{K}|focus_position=invalid:{pt}|raise:{type(exc).__name__}{route}", f"{K} cid={n.cid} children {n.children()}: {what}{pos!r} raised {type(exc).__name__}: {exc}")
            if not self.snap_eq(before, after):
                self.v(f"C08|{K}|focus_position=invalid:{pt}|changed-focus-state{route}", f"{K} cid={n.cid}: {what}{pos!r}: {before[n.cid][:1]} -> {after[n.cid][:1]}")
        self.check_all("focus-set")

    def model_path_valid(self, path):
        return self.path_expectation(path) == "valid"

    def path_expectation(self, path):
        """'valid' | 'invalid' | 'either'.  set_focus_path skips the assignment when `p == w.focus_position`, so an element
        that is not a position but compares equal to the current one (1.0 == 1) may pass silently: 'either'."""
        n = self.root
        overall = "valid"
        for p in path:
            if n is None or n.kind == "leaf":
                return "invalid"
            e = self.assign_expectation(n, p)
            if e == "invalid":
                try:
                    cur = n.base.focus_position
                    same = (type(p) is not int and not isinstance(p, str) and p is not None) and p == cur
                except Exception:  # noqa: BLE001
                    return "invalid"
                if not same:
                    return "invalid"
                overall = "either"
                p = cur
                if not self.model_valid_pos(n, p):
                    return "invalid"
            elif e == "either":
                overall = "either"
                p = 1 if n.kind == "overlay" else p.__index__()
            n = self.model_child(n, p)
        return overall

    def op_path(self, path):
        path = [decode_pos(p) for p in path]
        expect = self.path_expectation(path)
        valid = expect == "valid"
        rb = self.root.base
        exc = None
        try:
            rb.set_focus_path(path)
        except Exception as e:  # noqa: BLE001
            exc = e
        if expect == "either":
            self.c("clause:set_focus_path_indexlike")
            if exc is not None and not isinstance(exc, IndexError):
                self.v(f"C08|api|set_focus_path(indexlike)|raise:{type(exc).__name__}|in:{urwid_frame(exc)}", f"set_focus_path({path!r}) raised {type(exc).__name__}: {exc}")
        elif valid:
            self.c("clause:set_focus_path_valid")
            if exc is not None:
                self.v(f"C08|api|set_focus_path(valid)|raise:{type(exc).__name__}|in:{urwid_frame(exc)}", f"set_focus_path({path!r}) raised {type(exc).__name__}: {exc}")
            else:
                got = rb.get_focus_path()
                if list(got[: len(path)]) != list(path):
                    self.v("C08|api|set_focus_path(valid)|not-taken", f"set_focus_path({path!r}) then get_focus_path()={got!r}")
        else:
            self.c("clause:set_focus_path_invalid")
            kinds = sorted({postype("pile", p, 99) for p in path if not (type(p) is int or isinstance(p, str) or p is None)})
            tag = f"|with:{'+'.join(kinds)}" if kinds else ""
            if kinds:
                self.c("set_focus_path_invalid_with_exotic_element")
            if exc is None:
                self.v(f"C08|api|set_focus_path(invalid)|accepted{tag}", f"set_focus_path({path!r}) was accepted; get_focus_path()={rb.get_focus_path()!r}")
            elif not isinstance(exc, IndexError):
                self.v(f"C08|api|set_focus_path(invalid)|raise:{type(exc).__name__}|in:{urwid_frame(exc)}", f"set_focus_path({path!r}) raised {type(exc).__name__}: {exc}")
        self.check_all("path-set")

    def op_save(self):
        self.saved = list(self.guard("get_focus_path", self.root.base.get_focus_path))
        self.c("paths_saved")

    def op_restore(self):
        if self.saved is None:
            self.c("restore_skipped_no_saved_path")
            return
        rb = self.root.base
        self.c("clause:path_restored")
        if self.saved != list(rb.get_focus_path()):
            self.c("restore_after_focus_moved")
        try:
            rb.set_focus_path(self.saved)
        except Exception as e:  # noqa: BLE001
            self.v(f"C08|api|restore-focus-path|raise:{type(e).__name__}|in:{urwid_frame(e)}", f"set_focus_path({self.saved!r}) (read earlier, navigation only since) raised {type(e).__name__}: {e}")
            self.check_all("path-set")
            return
        got = list(rb.get_focus_path())
        if got != self.saved:
            self.v("C08|api|restore-focus-path|differs", f"set_focus_path({self.saved!r}) then get_focus_path()={got!r}")
        self.check_all("path-set")

    # ------------------------------------------------------------ contents mutations
    def mk_item(self, n, child, opt):
        if n.kind == "list":
            return child.w
        if n.kind == "pile":
            return (child.w, pile_opt(opt))
        if n.kind == "cols":
            return (child.w, cols_opt(opt))
        return (child.w, ("given", n.rec["cw"]))

    def selectable_clause(self, n, opname):
        self.c("clause:selectable_after_mutation")
        exp = any(c.w.selectable() for c in n.ch)
        try:
            got = n.base.selectable()
        except Exception as e:  # noqa: BLE001
            self.v(f"C08|{KIND_NAME[n.kind]}|selectable-after-contents-edit|raise:{type(e).__name__}", f"{KIND_NAME[n.kind]} cid={n.cid} after {opname}: selectable() raised {e}")
            return
        if bool(got) != exp:
            self.v(
                f"C08|{KIND_NAME[n.kind]}|selectable-after-contents-edit|says:{bool(got)}|children-say:{exp}",
                f"{KIND_NAME[n.kind]} cid={n.cid} after {opname}: selectable()={got!r} but children {[(c, c.w.selectable()) for c in n.ch]}",
            )

    def after_mutation(self, n, opname):
        self.saved = None
        self.c("mutations")
        self.c(f"mut:{n.kind}:{opname}")
        if n.kind in ("pile", "cols", "grid"):
            self.selectable_clause(n, opname)
        self.check_all("mutate")

    # an exception escaping a VALID edit: the crash itself is by-catch, but the state it leaves behind is judged
    def resync(self, n):
        by = self.world.by_wid
        b = n.base
        try:
            if n.kind in LISTLIKE:
                n.ch = [by[id(w)] for w in self.real_children(n) if id(w) in by]
            elif n.kind == "frame":
                for p in ("header", "body", "footer"):
                    w = getattr(b, p)
                    n.parts[p] = by.get(id(w)) if w is not None else None
            else:
                for i in (0, 1):
                    w = b.contents[i][0]
                    if id(w) in by:
                        n.parts[i] = by[id(w)]
        except Exception:  # noqa: BLE001
            pass

    def mguard(self, n, opname, fn, *a):
        try:
            return fn(*a)
        except Exception as e:  # noqa: BLE001
            sig = f"crash|mutate|{type(e).__name__}|in:{urwid_frame(e)}"
            self.c("bycatch_crashes")
            self.c(f"bycatch:{sig}")
            self.bycatch.append((sig, f"{type(e).__name__}: {e}"))
            self.c("edits_that_raised")
            self.c(f"edit_raised:{n.kind}:{opname}")
            self.saved = None
            self.edit_exc = f"{opname} raised {type(e).__name__}: {e}"
            self.resync(n)  # the shadow follows what the half-done edit really left in contents
            if n.kind in ("pile", "cols", "grid"):
                self.selectable_clause(n, opname + "(raised)")
            self.check_all("mutate-raised")
            raise Crash from e

    def focus_where(self, n):
        L = len(n.ch)
        if L == 0:
            return "empty"
        try:
            p = n.base.focus_position
        except Exception:  # noqa: BLE001
            return "unreadable"
        if L == 1:
            return "only"
        if p == 0:
            return "first"
        if p == L - 1:
            return "last"
        return "middle"

    def op_listmut(self, op):
        kind, cid = op[0], op[1]
        n = self.find(cid)
        if n is None or n.kind not in LISTLIKE:
            self.c("op_skipped_detached")
            return
        b = n.base
        rl = b.body if n.kind == "list" else b.contents
        L = len(n.ch)
        where = self.focus_where(n)
        build = lambda r: self.guard("build", self.world.build, r)  # noqa: E731

        def items(specs):
            nodes = [build(r) for r, _o in specs]
            return nodes, [self.mk_item(n, c, o) for c, (_r, o) in zip(nodes, specs)]

        def done(opname):
            return self.after_mutation(n, opname)

        def mg(opname, fn, *a):
            self.c(f"edit_focus_at:{where}|{opname}")  # counted at the attempt
            return self.mguard(n, opname, fn, *a)

        def iadd_attr(its):
            if n.kind == "list":
                bd = b.body
                bd += its
                b.body = bd
            else:
                c = b.contents
                c += its
                b.contents = c

        if kind == "ins":
            _, _, idx, spec, how = op[:5]
            it = op[5] if len(op) > 5 else "list"
            nodes, its = items([spec])
            if how in ("iadd", "extend") and it != "list":
                self.c(f"iter_edit:{it}:{how}")
                its = mkiter(it, its)
            if how == "insert":
                mg(how, rl.insert, idx, its[0])
                n.ch.insert(idx, nodes[0])
            elif how == "append":
                mg(how, rl.append, its[0])
                n.ch.append(nodes[0])
            elif how == "iadd":
                mg(how, rl.__iadd__, its)
                n.ch.extend(nodes)
            elif how == "iadd_attr":
                mg(how, iadd_attr, its)
                n.ch.extend(nodes)
            else:
                mg("extend", rl.extend, its)
                n.ch.extend(nodes)
            return done(how)
        if kind == "del":
            _, _, idx, how = op
            if not -L <= idx < L:
                self.c("op_skipped_index")
                return None
            last = idx in (-1, L - 1)
            label = {"del": "del[i]", "pop": "pop(i)", "pop()": "pop()", "remove": "remove(item)"}[how]
            if how != "pop()":
                label += ":last" if last else (":neg" if idx < 0 else "")
                if idx == -1:
                    label = label.replace(":last", ":-1")
            if how == "del":
                mg(label, rl.__delitem__, idx)
            elif how == "pop":
                mg(label, rl.pop, idx)
            elif how == "pop()":
                idx = -1
                mg(label, rl.pop)
            else:
                mg(label, rl.remove, rl[idx])
            del n.ch[idx]
            return done(label)
        if kind == "setitem":
            _, _, idx, spec = op
            if not -L <= idx < L:
                self.c("op_skipped_index")
                return None
            nodes, its = items([spec])
            mg("setitem", rl.__setitem__, idx, its[0])
            n.ch[idx] = nodes[0]
            return done("setitem")
        if kind == "slice":
            _, _, a, b2, specs, how = op[:6]
            it = op[6] if len(op) > 6 else "list"
            if how == "del":
                mg("delslice", rl.__delitem__, slice(a, b2))
                del n.ch[a:b2]
                return done("delslice")
            nodes, its = items(specs)
            label = "setslice" if it == "list" else f"setslice<{it}>"
            try:
                fp = b.focus_position
                rel = "before-focus" if b2 <= fp and a < len(n.ch) else ("after-focus" if a > fp else "contains-focus")
            except Exception:  # noqa: BLE001
                rel = "empty"
            self.c(f"iter_edit:{it}:setslice")
            self.c(f"setslice_vs_focus:{rel}:{'one-shot' if it not in ('list', 'tuple') else 'sized'}:{'grow' if len(its) > len(n.ch[a:b2]) else 'same-or-shrink'}")
            mg(label, rl.__setitem__, slice(a, b2), mkiter(it, its))
            n.ch[a:b2] = nodes
            return done(label)
        if kind == "clear":
            how = op[2]
            if how == "clear":
                mg("clear()", rl.clear)
            elif how == "delall":
                mg("del[:]", rl.__delitem__, slice(None))
            elif how == "assign" or n.kind == "list":
                mg("[:]=[]", rl.__setitem__, slice(None), [])
            else:
                mg("contents=[]", setattr, b, "contents", [])
            n.ch = []
            return done("clear:" + how)
        if kind == "assign":
            nodes, its = items(op[2])
            how = op[3] if len(op) > 3 else "setter"
            it = op[4] if len(op) > 4 else "list"
            sfx = "" if it == "list" else f"<{it}>"
            self.c(f"iter_edit:{it}:assign")
            if n.kind == "list" or how == "slice":
                mg("[:]=items" + sfx, rl.__setitem__, slice(None), mkiter(it, its))
            else:
                mg("contents=items" + sfx, setattr, b, "contents", mkiter(it, its))
            n.ch = nodes
            return done(("[:]=items" if (n.kind == "list" or how == "slice") else "contents=items") + sfx)
        if kind == "reverse":
            mg("reverse()", rl.reverse)
            n.ch.reverse()
            return done("reverse()")
        raise ValueError(op)

    def op_frame(self, cid, part, rec, how):
        n = self.find(cid)
        if n is None or n.kind != "frame":
            self.c("op_skipped_detached")
            return
        b = n.base
        if rec is None:
            if part == "body" or n.parts.get(part) is None:
                self.c("op_skipped_index")
                return
            if how == "del":
                self.mguard(n, "frame-del", b.contents.__delitem__, part)
            else:
                self.mguard(n, "frame-attr=None", setattr, b, part, None)
            n.parts[part] = None
            return self.after_mutation(n, f"remove-{part}")
        child = self.guard("build", self.world.build, rec)
        if how == "contents":
            self.mguard(n, "frame-contents[part]=", b.contents.__setitem__, part, (child.w, None))
        else:
            self.mguard(n, "frame-attr=", setattr, b, part, child.w)
        n.parts[part] = child
        return self.after_mutation(n, f"replace-{part}")

    def op_overlay(self, cid, which, rec, how):
        n = self.find(cid)
        if n is None or n.kind != "overlay":
            self.c("op_skipped_detached")
            return
        b = n.base
        child = self.guard("build", self.world.build, rec)
        if how == "item":
            opts = b.contents[which][1]
            self.mguard(n, "overlay-contents[i]=", b.contents.__setitem__, which, (child.w, opts))
            n.parts[which] = child
        else:
            cur = [b.contents[0], b.contents[1]]
            cur[which] = (child.w, cur[which][1])
            self.mguard(n, "overlay-contents=", setattr, b, "contents", cur)
            n.parts[which] = child
        return self.after_mutation(n, f"replace-{'top' if which else 'bottom'}")

    # ------------------------------------------------------------ dispatcher
    def apply(self, op):
        k = op[0]
        self.nops += 1
        self.c("ops_applied")
        self.c(f"op:{k}")
        if k != "mouse":
            self.fresh_canvas = None
        if k == "render":
            self.op_render(op[1])
        elif k == "key":
            self.op_key(op[1])
        elif k == "mouse":
            self.op_mouse(op[1], op[2])
        elif k == "focus":
            self.op_focus(op[1], op[2], op[3] if len(op) > 3 else "prop")
        elif k == "path":
            self.op_path(op[1])
        elif k == "save":
            self.op_save()
        elif k == "restore":
            self.op_restore()
        elif k in ("ins", "del", "setitem", "slice", "clear", "assign", "reverse"):
            self.op_listmut(op)
        elif k == "frame":
            self.op_frame(op[1], op[2], op[3], op[4])
        elif k == "overlay":
            self.op_overlay(op[1], op[2], op[3], op[4])
        else:
            raise ValueError(op)

    def step(self, op) -> bool:
        """apply one op under the warning filter; False = history must stop here"""
        u = self.world.u
        nv = len(self.viol)
        with warnings.catch_warnings(record=True) as wl:
            warnings.simplefilter("ignore")
            warnings.simplefilter("always", u.widget.WidgetWarning)
            try:
                self.apply(op)
                crashed = False
            except Crash:
                crashed = True
        if any(issubclass(w.category, u.widget.WidgetWarning) for w in wl):
            # the library says this tree/size is outside its supported domain: do not judge this op
            for sig, _ in self.viol[nv:]:
                self.seen_sigs.discard(sig)
            del self.viol[nv:]
            self.c("history_cut_by_widget_warning")
            self.cut = "warning:" + wl[0].category.__name__
            return False
        if crashed:
            self.cut = "crash"
            return False
        if self.stop:
            self.cut = self.stop
            return False
        return True


# ====================================================================== running one case


URWID_CMD = {
    "up": "cursor up", "down": "cursor down", "left": "cursor left", "right": "cursor right", "pgup": "cursor page up",
    "pgdn": "cursor page down", "maxleft": "cursor max left", "maxright": "cursor max right", "next": "next selectable",
    "prev": "prev selectable", "activate": "activate", "redraw": "redraw screen", "menu": "menu",
}  # fmt: skip
LEGACY_CMAP = {"route": "global", "split": 0, "inst": False, "ops": [["set", k, c] for k, c in EXTRA_CMAP.items()]}


def cmap_spec(case):
    c = case.get("cmap")
    if not c:
        return None
    return LEGACY_CMAP if c is True else c


def model_cmap(spec):
    """the key -> command table the USER asked for: defaults, then the operations performed (delete means deleted);
    never read back from urwid"""
    t = dict(DEFAULT_CMAP)
    for op in (spec or {}).get("ops", []):
        if op[0] == "set":
            t[op[1]] = op[2]
        elif op[0] == "del":
            t.pop(op[1], None)
        elif op[0] == "clear":
            for k in [k for k, v in t.items() if v == op[1]]:
                del t[k]
    return t


def install_cmap(u, spec):
    """perform the same operations on real CommandMap objects by the route named in the spec; returns the map the
    containers must use (None = the shared global map)"""
    if not spec:
        return None
    t = dict(DEFAULT_CMAP)  # only to skip deletes of keys that are not there (KeyError is documented dict behaviour)

    def apply(m, ops):
        for op in ops:
            if op[0] == "set":
                m[op[1]] = URWID_CMD[op[2]]
                t[op[1]] = op[2]
            elif op[0] == "del":
                if op[1] in t:
                    del m[op[1]]
                    del t[op[1]]
            else:
                m.clear_command(URWID_CMD[op[1]])
                for k in [k for k, v in t.items() if v == op[1]]:
                    del t[k]

    ops, k, route = spec["ops"], spec.get("split", 0), spec["route"]
    g = u.command_map
    if route == "global":
        apply(g, ops)
        return None
    if route == "copy":
        m = g.copy()
        apply(m, ops)
    elif route == "copy_of_copy":
        m1 = g.copy()
        apply(m1, ops[:k])
        m = m1.copy()
        apply(m, ops[k:])
        if spec.get("thrice"):
            m = m.copy()
    else:  # "global_then_copy": the shared map is edited first, the widgets get a private copy of it
        apply(g, ops[:k])
        m = g.copy()
        apply(m, ops[k:])
    u.Widget._command_map = m  # noqa: SLF001  (what a `class MyPile(Pile): _command_map = m` does, for every class)
    return m


def gen_cmap(rng):
    r = rng
    if r.random() < 0.25:
        return dict(LEGACY_CMAP, ops=[list(o) for o in LEGACY_CMAP["ops"]])
    ops = []
    for _ in range(r.randint(1, 4)):
        x = r.random()
        if x < 0.45:
            ops.append(["del", r.choice(["down", "up", "left", "right", "down", "up", "page down", "home", "tab", "enter"])])
        elif x < 0.60:
            ops.append(["clear", r.choice(["up", "down", "left", "right", "pgup", "maxright"])])
        else:
            ops.append(["set", r.choice(["j", "k", "h", "l", "x", "down", "up", "f5"]), r.choice(["up", "down", "left", "right", "pgdn", "maxleft"])])
    return {
        "route": r.choice(["global", "copy", "copy_of_copy", "copy_of_copy", "global_then_copy", "global_then_copy"]),
        "split": r.randint(0, len(ops)) if r.random() < 0.3 else len(ops),
        "thrice": r.random() < 0.3,
        "inst": r.random() < 0.4,
        "ops": ops,
    }


class Env:
    """save / restore urwid global state around a case"""

    def __enter__(self):
        import urwid

        self.u = urwid
        self.target = urwid.util.get_encoding()
        urwid.set_encoding("utf-8")
        return self

    def __exit__(self, *exc):
        u = self.u
        u.command_map.restore_defaults()
        u.Widget._command_map = u.command_map  # noqa: SLF001
        u.CanvasCache.clear()
        if self.target:
            try:
                u.set_encoding(self.target)
            except Exception:  # noqa: BLE001
                pass
        return False


def run_case(ctx, case, stop_after=None):
    """execute a case; returns the Session (violations in .viol)"""
    with Env() as env:
        cm = install_cmap(env.u, cmap_spec(case))
        s = Session(ctx, case, cm)
        if s.root is None:
            return s
        s.log.on_key = s.leaf_offer
        with warnings.catch_warnings():
            warnings.simplefilter("ignore")
            try:
                s.check_all("build")
            except Crash:
                return s
        for i, op in enumerate(case["ops"]):
            if not s.step(op):
                break
            if stop_after is not None and i + 1 >= stop_after:
                break
        return s


# ====================================================================== op generation (online, from the shadow model)

def _exotic(r, n):
    """a value that is numerically the in-range index n but is not an int"""
    return r.choice([["$float", n], ["$float", n], ["$fraction", n], ["$complex", n], ["$decimal", n]])


def _indexlike(r, n):
    return r.choice([["$bool", n % 2], ["$index", n], ["$intsub", n]])


INVALID_POS = {
    "listlike": lambda r, L: r.choice(
        [L, L + 3, -1, -L - 1, None, "x", (L - 1) + 0.5 if L else 0.5, 0.5, "body", ["$huge", 1], ["$huge", -1], ["$tuple", 0]]
        + ([_exotic(r, r.randrange(L)) for _ in range(8)] + [_indexlike(r, r.randrange(L)) for _ in range(3)] if L else [["$float", 0], ["$bool", 0]])
    ),
    "frame": lambda r, L: r.choice(["top", 0, None, "Header", 1.5, ["$float", 1], ["$bool", 1], ["$tuple", 0]]),
    "overlay": lambda r, L: r.choice([0, 2, -1, "x", None, ["$float", 1], ["$float", 0], ["$bool", 1], ["$bool", 0], ["$fraction", 1], ["$complex", 1], ["$decimal", 1], ["$index", 1], ["$intsub", 1]]),
}


def gen_new_child(gen, n):
    """a [recipe, opt] that is valid inside container n"""
    depth = 1 if gen.rng.random() < 0.25 else 0
    native = n.mode
    wrap = n.rec.get("wrap")
    if wrap == "filler":
        native = "flow"
    elif isinstance(wrap, list):
        native = "box"
    return gen.item_for(n.kind, native, depth)


def gen_op(rng, gen, s: Session):
    nodes = all_nodes(s.root)
    conts = [n for n in nodes if n.kind != "leaf"]
    x = rng.random()
    if s.pending_target is not None:
        x = 0.99
    elif rng.random() < 0.12:
        # the focus leaf translates some keys: send one of them so that its parents see the translated key
        try:
            tip = s.chain()[-1]
        except Exception:  # noqa: BLE001
            tip = None
        xt = tip.rec.get("xlate") if tip is not None and tip.kind == "leaf" else None
        if xt and s.root.w.selectable():
            return ["key", rng.choice(sorted(xt))]
    if s.pending_target is None and gen.navbias and rng.random() < 0.5:
        # directed "form" trees: walk in and out of the nested group along its axis
        return ["key", rng.choice(gen.navbias * 4 + ["home", "end"])]
    if x < 0.38 and rng.random() < 0.8:
        try:
            if not s.root.w.selectable():  # MainLoop would not deliver the key: spend the op on something else
                x = rng.uniform(0.38, 1.0)
        except Exception:  # noqa: BLE001
            pass
    if x < 0.30:
        return ["key", rng.choice(NAV_KEYS)]
    if x < 0.38:
        return ["key", rng.choice(CHAR_KEYS)]
    if x < 0.48:
        return ["mouse", rng.randrange(40), rng.randrange(20)]
    if x < 0.56:  # valid focus assignment
        n = rng.choice(conts)
        if n.kind in LISTLIKE:
            if not n.ch:
                return ["focus", n.cid, 0]
            if n.kind == "list" and rng.random() < 0.3:
                return ["focus", n.cid, rng.randrange(len(n.ch)), rng.choice(["set_focus", "walker"])]
            return ["focus", n.cid, rng.randrange(len(n.ch))]
        if n.kind == "frame":
            return ["focus", n.cid, rng.choice([p for p in ("header", "body", "footer") if n.parts.get(p) is not None])]
        return ["focus", n.cid, 1]
    if x < 0.62:  # invalid focus assignment
        n = rng.choice(conts)
        lists = [c for c in conts if c.kind == "list" and c.ch]
        if lists and rng.random() < 0.35:
            n = rng.choice(lists)
        if n.kind in LISTLIKE:
            op = ["focus", n.cid, INVALID_POS["listlike"](rng, len(n.ch))]
            if n.kind == "list":
                op.append(rng.choice(["prop", "prop", "set_focus", "walker"]))
            return op
        if n.kind == "frame":
            missing = [p for p in ("header", "footer") if n.parts.get(p) is None]
            if missing and rng.random() < 0.5:
                return ["focus", n.cid, rng.choice(missing)]
            return ["focus", n.cid, INVALID_POS["frame"](rng, 0)]
        return ["focus", n.cid, INVALID_POS["overlay"](rng, 0)]
    if x < 0.68:  # set_focus_path
        path = []
        n = s.root
        while n.kind != "leaf" and n.children() and rng.random() < 0.85:
            if n.kind in LISTLIKE:
                p = rng.randrange(len(n.ch))
            elif n.kind == "frame":
                p = rng.choice([q for q in ("header", "body", "footer") if n.parts.get(q) is not None])
            else:
                p = 1
            path.append(p)
            n = s.model_child(n, p)
        if rng.random() < 0.33:  # corrupt it
            c = rng.random()
            if c < 0.4 or not path:
                path.append(rng.choice([0, 7, "body"]))
                if s.model_path_valid(path):
                    path.append(99)
            else:
                i = rng.randrange(len(path))
                if isinstance(path[i], int) and rng.random() < 0.5:
                    path[i] = rng.choice([_exotic(rng, path[i]), _exotic(rng, path[i]), _indexlike(rng, path[i])])
                else:
                    path[i] = rng.choice([99, -1, "nope", None])
        return ["path", path]
    if x < 0.78:
        if s.saved is None or (x < 0.70 and rng.random() < 0.5):
            return ["save"]
        return ["restore"]
    # ---- contents mutations
    n = None
    if s.pending_target is not None:  # second half of "put the focus on first/last/middle, then edit"
        n = s.find(s.pending_target)
        s.pending_target = None
        if n is not None and n.kind not in LISTLIKE:
            n = None
        edge = n is not None
    else:
        edge = False
    if n is None:
        n = rng.choice(conts)
    can_grow = gen.room(8)
    if n.kind in LISTLIKE:
        L = len(n.ch)
        if not edge and L and rng.random() < 0.45:
            s.pending_target = n.cid
            return ["focus", n.cid, rng.choice([0, L - 1, L - 1, L // 2])]
        y = rng.random()
        if edge and L and y < 0.75:
            # the list-mutating calls a user makes at the ends of `contents` / of a walker
            f = s.focus_where(n)
            try:
                fp = n.base.focus_position
            except Exception:  # noqa: BLE001
                fp = 0
            z = rng.random()
            if z < 0.16:
                return ["del", n.cid, -1, "pop()"]
            if z < 0.30:
                return ["del", n.cid, rng.choice([-1, -1, L - 1, 0, fp if isinstance(fp, int) and -L <= fp < L else 0]), "pop"]
            if z < 0.42:
                return ["del", n.cid, rng.choice([-1, -1, L - 1, 0]), "del"]
            if z < 0.54:
                return ["del", n.cid, rng.choice([-1, L - 1, 0, fp if isinstance(fp, int) and -L <= fp < L else 0]), "remove"]
            if z < 0.66:
                return ["reverse", n.cid]
            if z < 0.82 and can_grow:
                return ["ins", n.cid, rng.choice([0, L, -1]), gen_new_child(gen, n), rng.choice(["append", "extend", "iadd", "iadd_attr", "insert"]), rng.choice(["list", "list", "tuple", "gen", "gen", "iter", "map", "reversed"])]
            if z < 0.92 and can_grow:
                return ["assign", n.cid, [gen_new_child(gen, n) for _ in range(rng.randint(1, 3))], rng.choice(["slice", "setter"]), rng.choice(["list", "list", "tuple", "gen", "gen", "iter", "map", "reversed"])]
            if z < 0.97 and can_grow and isinstance(fp, int):
                # slice assignment placed relative to the focus: before it / containing it / after it, growing the list
                where = rng.choice(["before", "contains", "after"])
                if where == "before" and fp > 0:
                    a = rng.randrange(0, fp)
                    b = rng.randint(a, fp)
                elif where == "after" and fp < L - 1:
                    a = rng.randint(fp + 1, L)
                    b = rng.randint(a, L)
                else:
                    a = rng.randint(0, fp)
                    b = rng.randint(fp + 1, L)
                return ["slice", n.cid, a, b, [gen_new_child(gen, n) for _ in range(rng.randint(1, 3))], "set", rng.choice(["list", "list", "tuple", "gen", "gen", "iter", "map", "reversed"])]
            del f
            return ["slice", n.cid, rng.choice([0, L - 1]), L, [], "del"]
        if (y < 0.36 or L == 0) and can_grow:
            how = rng.choice(["insert", "insert", "append", "extend", "iadd", "iadd_attr"])
            return ["ins", n.cid, rng.randint(-1, L + 1), gen_new_child(gen, n), how, rng.choice(["list", "list", "tuple", "gen", "gen", "iter", "map", "reversed"])]
        if y < 0.60 and L:
            return ["del", n.cid, rng.randrange(-L, L), rng.choice(["del", "del", "pop", "pop()", "remove"])]
        if y < 0.68 and L and can_grow:
            return ["setitem", n.cid, rng.randrange(-L, L), gen_new_child(gen, n)]
        if y < 0.73 and L:
            return ["reverse", n.cid]
        if y < 0.85:
            a = rng.randint(0, L)
            b = rng.randint(a, L)
            if rng.random() < 0.5 or not can_grow:
                return ["slice", n.cid, a, b, [], "del"]
            return ["slice", n.cid, a, b, [gen_new_child(gen, n) for _ in range(rng.randint(0, 3))], "set", rng.choice(["list", "list", "tuple", "gen", "gen", "iter", "map", "reversed"])]
        if y < 0.93 or not can_grow:
            return ["clear", n.cid, rng.choice(["clear", "delall", "assign", "prop"])]
        return ["assign", n.cid, [gen_new_child(gen, n) for _ in range(rng.randint(1, 3))], rng.choice(["slice", "setter"]), rng.choice(["list", "list", "tuple", "gen", "gen", "iter", "map", "reversed"])]
    if n.kind == "frame":
        part = rng.choice(["header", "footer", "body", "header", "footer"])
        if part != "body" and (rng.random() < 0.45 or not can_grow):
            return ["frame", n.cid, part, None, rng.choice(["del", "attr"])]
        if not can_grow:
            return ["key", "down"]
        rec = gen.node("box" if part == "body" else "flow", 1 if rng.random() < 0.4 else 0)
        return ["frame", n.cid, part, rec, rng.choice(["contents", "attr"])]
    # overlay
    if not can_grow:
        return ["key", "up"]
    which = rng.choice([0, 1, 1])
    d = 1 if rng.random() < 0.4 else 0
    if which == 0:
        rec = gen.node("box", d)
    else:
        rec = gen.node("flow" if n.rec["h"] == "pack" else "box", d)
    return ["overlay", n.cid, which, rec, rng.choice(["item", "item", "assign"])]


def gen_history(ctx, rng, nops):
    """generate tree + ops online while executing them; returns (case, session)"""
    gen = Gen(rng, max_depth=4, cap=rng.choice([12, 25, 40, 60]))
    case = {"tree": gen.root(), "ops": [], "cmap": gen_cmap(rng) if rng.random() < 0.3 else False}
    if gen.navbias:
        ctx.count("directed_form_histories")
    if getattr(gen, "directed", None):
        ctx.count(f"directed:{gen.directed}")
    gen.cap = MAX_SID
    with Env() as env:
        cm = install_cmap(env.u, cmap_spec(case))
        if case["cmap"]:
            ctx.count("custom_cmap_histories")
            ctx.count(f"cmap_route:{case['cmap']['route']}")
        s = Session(ctx, case, cm)
        if s.root is None:
            return case, s
        s.log.on_key = s.leaf_offer
        with warnings.catch_warnings():
            warnings.simplefilter("ignore")
            try:
                s.check_all("build")
            except Crash:
                return case, s
        ops = case["ops"]
        first = ["render", rng.randrange(len(SIZES))]
        if rng.random() < 0.8 and not getattr(gen, "script", None):
            ops.append(first)
            if not s.step(first):
                return case, s
        done = 0
        for op in getattr(gen, "script", None) or []:
            ops.append(op)
            done += 1
            if not s.step(op):
                return case, s
        while done < nops:
            op = gen_op(rng, gen, s)
            ops.append(op)
            done += 1
            if not s.step(op):
                break
            if rng.random() < 0.45:
                r = ["render", rng.randrange(len(SIZES)) if rng.random() < 0.3 else SIZES.index(s.size)]
                ops.append(r)
                if not s.step(r):
                    break
        return case, s


# ====================================================================== shrinking

SHRINK_RUNS = 220


def _reproduces(case, sig):
    try:
        s = run_case(NullCtx(), case)
    except Exception:  # noqa: BLE001
        return False
    return any(g == sig for g, _ in s.viol)


def _tree_variants(tree):
    """smaller trees: drop one child of a list-like container / drop header or footer / drop a decoration"""
    import copy

    def walk(node, path):
        yield node, path
        k = node["k"]
        if k in LISTLIKE:
            for i, (c, _) in enumerate(node["ch"]):
                yield from walk(c, [*path, ("ch", i)])
        elif k == "frame":
            for p in ("header", "body", "footer"):
                if node[p] is not None:
                    yield from walk(node[p], [*path, (p,)])
        elif k == "overlay":
            yield from walk(node["bottom"], [*path, ("bottom",)])
            yield from walk(node["top"], [*path, ("top",)])

    def get(t, path):
        for st in path:
            t = t["ch"][st[1]][0] if st[0] == "ch" else t[st[0]]
        return t

    for node, path in list(walk(tree, [])):
        k = node["k"]
        if k in LISTLIKE:
            for i in range(len(node["ch"]) - 1, -1, -1):
                t = copy.deepcopy(tree)
                tgt = get(t, path)
                del tgt["ch"][i]
                f = tgt.get("focus")
                if f is not None:
                    tgt["focus"] = None if not tgt["ch"] else min(f, len(tgt["ch"]) - 1)
                yield t
        elif k == "frame":
            for p in ("header", "footer"):
                if node[p] is not None and node["fp"] != p:
                    t = copy.deepcopy(tree)
                    get(t, path)[p] = None
                    yield t
        if node.get("wrap") in ("attrmap", "padding", "disable_attrmap"):
            t = copy.deepcopy(tree)
            del get(t, path)["wrap"]
            yield t
        if k == "leaf" and node.get("xlate"):
            t = copy.deepcopy(tree)
            del get(t, path)["xlate"]
            yield t
        if k == "leaf" and (node["keys"] or node["rows"] > 1):
            t = copy.deepcopy(tree)
            tgt = get(t, path)
            tgt["keys"] = []
            tgt["rows"] = 1
            yield t
    # hoist: replace the root by one of its container children when that child is box sized
    for node, path in list(walk(tree, [])):
        if path and len(path) == 1 and node["k"] != "leaf" and node["mode"] == "box":
            yield copy.deepcopy(node)


def shrink(case, sig):
    """greedy: drop ops (from the end), then prune the tree, while the same signature reproduces"""
    budget = [SHRINK_RUNS]

    def ok(c):
        if budget[0] <= 0:
            return False
        budget[0] -= 1
        return _reproduces(c, sig)

    best = {"tree": case["tree"], "ops": list(case["ops"]), "cmap": case.get("cmap", False)}
    # cut after the first op at which the signature appears
    s = None
    for n in range(0, len(best["ops"]) + 1):
        c = dict(best, ops=best["ops"][:n])
        if n == len(best["ops"]) or n % 4 == 0:
            if ok(c):
                best = c
                break
    changed = True
    while changed and budget[0] > 0:
        changed = False
        i = len(best["ops"]) - 1
        while i >= 0 and budget[0] > 0:
            c = dict(best, ops=best["ops"][:i] + best["ops"][i + 1 :])
            if ok(c):
                best = c
                changed = True
            i -= 1
        progress = True
        while progress and budget[0] > 0:
            progress = False
            for t in _tree_variants(best["tree"]):
                if budget[0] <= 0:
                    break
                c = dict(best, tree=t)
                if ok(c):
                    best = c
                    progress = True
                    changed = True
                    break
    if best.get("cmap") and budget[0] > 0:
        c = dict(best, cmap=False)
        if ok(c):
            best = c
    del s
    return best


# ====================================================================== entry points


KNOWN: dict = {}


def report(ctx, case, sess, shrunk_sigs):
    for sig, msg in sess.viol:
        w = case
        if sig in KNOWN:
            # already classified: keep the cost of shrinking for new signatures
            shrunk_sigs.add(sig)
            ctx.violation(sig, msg, dict(case, ops=case["ops"][: sess.nops]))
            continue
        if sig not in shrunk_sigs:
            shrunk_sigs.add(sig)
            try:
                w = shrink(case, sig)
            except Exception:  # noqa: BLE001
                w = case
            ctx.count("witnesses_shrunk")
        else:
            # cheap cut: keep only the ops executed so far
            w = dict(case, ops=case["ops"][: sess.nops])
            if len(w["ops"]) > 12:
                ctx.count("violation_repeats_not_reshrunk")
                continue
        ctx.violation(sig, msg, w)


def run(ctx):
    import urwid

    W = urwid.widget
    reach.watch(
        urwid.Pile.keypress,
        urwid.Pile.mouse_event,
        urwid.Pile._contents_modified,
        urwid.Columns.keypress,
        urwid.Columns.mouse_event,
        urwid.Columns._contents_modified,
        urwid.GridFlow.keypress,
        urwid.GridFlow._set_focus_from_display_widget,
        urwid.GridFlow.generate_display_widget,
        urwid.Frame.keypress,
        urwid.Frame.mouse_event,
        urwid.Overlay.keypress,
        urwid.Overlay.mouse_event,
        urwid.Overlay._contents__setitem__,
        urwid.ListBox.keypress,
        urwid.ListBox.mouse_event,
        urwid.ListBox.change_focus,
        W.container.WidgetContainerMixin.get_focus_path,
        W.container.WidgetContainerMixin.set_focus_path,
        W.container.WidgetContainerMixin.get_focus_widgets,
        W.monitored_list.MonitoredFocusList._adjust_focus_on_contents_modified,
    )
    for K in (urwid.Pile, urwid.Columns, urwid.GridFlow, urwid.Frame, urwid.Overlay):
        reach.watch(K.focus_position.fset)
    from vmon.core import load_findings

    KNOWN.update(load_findings(PROPERTY))
    rng = ctx.rng
    nops = ctx.pick(20, 40)
    shrunk: set[str] = set()
    k = 0
    while ctx.more(0.97):
        k += 1
        case, sess = gen_history(ctx, rng, nops)
        ctx.count("histories")
        if sess.cut:
            ctx.count(f"history_cut:{sess.cut}")
        ctx.case((case["tree"], case["ops"]), nontrivial=sess.nops > 0)
        if k <= 2 and ctx.shard == 0:
            ctx.sample({"tree": case["tree"], "ops": case["ops"][:8], "cmap": case["cmap"]})
        for sig, msg in sess.bycatch:
            bc = ctx.extra.setdefault("bycatch_crashes_not_judged", {})
            if sig not in bc and len(bc) < 12:
                bc[sig] = {"msg": msg[:200], "ops": len(case["ops"])}
        if sess.viol:
            report(ctx, case, sess, shrunk)
    reach.flush(ctx)


def replay(ctx, wit):
    if "tree" not in wit:
        ctx.inconc("witness-is-a-duplicate-note-without-a-case")
        return None
    s = run_case(ctx, wit)
    ctx.case((wit["tree"], wit["ops"]))
    for sig, msg in s.viol:
        ctx.violation(sig, msg, wit)
    return s
