"""Cheap reach counters: how often each anchored mechanism function was entered.

Uses sys.monitoring local PY_START events on the given code objects only, so the
rest of the program runs uninstrumented.  Zero for a deciding mechanism => the
check must report inconclusive rather than held.
"""

from __future__ import annotations

import sys
from collections import Counter

_TOOL = 4
_counts: Counter = Counter()
_names: dict = {}
_on = False


def _cb(code, offset):
    _counts[_names.get(code, code.co_qualname)] += 1


def watch(*funcs) -> None:
    global _on
    mon = sys.monitoring
    if not _on:
        mon.use_tool_id(_TOOL, "vmon-reach")
        mon.register_callback(_TOOL, mon.events.PY_START, _cb)
        _on = True
    for f in funcs:
        f = getattr(f, "__func__", f)
        f = getattr(f, "fget", f) or f
        while hasattr(f, "__wrapped__"):
            f = f.__wrapped__
        code = getattr(f, "__code__", None)
        if code is None:
            continue
        _names[code] = f"{f.__module__.replace('urwid.', '')}.{code.co_qualname}"
        _counts.setdefault(_names[code], 0)
        mon.set_local_events(_TOOL, code, mon.events.PY_START)


def counts() -> dict:
    return dict(_counts)


def flush(ctx) -> None:
    for k, v in _counts.items():
        ctx.counters[f"reach:{k}"] += v
    for k in _counts:
        _counts[k] = 0
