"""C09 spy leaves: real urwid.Widget subclasses that make geometry readable from the canvas.

Every spy fills its whole canvas with a glyph unique to the instance, records the size it was
rendered at, and logs every mouse_event / move_cursor_to_coords call with its arguments into a
shared list (`log`).  Variants: flow / box / fixed, selectable or not, with or without the cursor
protocol (get_cursor_coords / move_cursor_to_coords / get_pref_col) -- "without" means the
attributes do not exist, because containers test with hasattr().

Real leaves (Edit / SelectableIcon / Button / CheckBox) are wrapped by thin subclasses that only log
and call super().
"""

from __future__ import annotations

import urwid

# ----------------------------------------------------------------------------- glyph pool
# width-1 characters that no bundled widget draws as decoration ('X', '<', '>', '[', ']', '(', ')',
# '#', ' ', box drawing, block elements are excluded)
GLYPHS = (
    "abcdefghijklmnopqrstuvwyz"
    "ABCDEFGHIJKLMNOPQRSTUVWYZ"
    "0123456789"
    "αβγδεζηθικλμνξοπρστυφχψω"
    "бвгджзиклмнптфцчшщъыьэюя"
)
assert len(set(GLYPHS)) == len(GLYPHS)

ACCEPT_KINDS = ("all", "none", "even_rows", "odd_rows", "checker", "left_half", "not_row0")


def accepts(kind: str, x: int, y: int, cols: int, rows: int) -> bool:
    """the configurable "accepts these cells" predicate (pure; also used by the oracle)"""
    if not (0 <= x < cols and 0 <= y < rows):
        return False
    if kind == "all":
        return True
    if kind == "none":
        return False
    if kind == "even_rows":
        return y % 2 == 0
    if kind == "odd_rows":
        return y % 2 == 1
    if kind == "checker":
        return (x + y) % 2 == 0
    if kind == "left_half":
        return x < (cols + 1) // 2
    if kind == "not_row0":
        return y != 0
    raise ValueError(kind)


class _SpyCommon(urwid.Widget):
    """shared behaviour; concrete classes set _sizing and implement dims(size)"""

    # render IS cached like for any real widget (so that containers around spies are cacheable too and "render again at
    # the same size" is served from the canvas cache); every cache-missing render is logged, and the harness clears the
    # cache before the observing render
    no_cache = ["rows"]
    ignore_focus = False

    def __init__(self, sid, glyph, log, *, selectable=True, accept="all", cursor=(0, 0), mret=True, **geom):
        super().__init__()
        self.sid = sid
        self.glyph = glyph
        self.log = log
        self._selectable = bool(selectable)
        self.accept = accept
        self.cur = tuple(cursor) if cursor is not None else None
        self.mret = mret
        self.geom = geom
        self.last_size = None
        self.last_dims = None

    # geometry --------------------------------------------------------------
    def dims(self, size, focus=False):
        """(cols, rows) of the canvas for `size`; may depend on the focus argument (geom frows / fcols: extra rows / columns
        when rendered in focus -- the documented rows(size, focus) / pack(size, focus) interface allows that)"""
        raise NotImplementedError

    def render(self, size, focus=False):
        cols, rows = self.dims(size, focus)
        self.last_size = tuple(size)
        self.last_dims = (cols, rows)
        self.log.append(("render", self.sid, tuple(size), bool(focus)))
        line = (self.glyph * cols).encode("utf-8")
        cursor = None
        if focus:
            cursor = self._cursor_in(cols, rows)
        return urwid.TextCanvas([line] * rows, cursor=cursor, maxcol=cols, check_width=False)

    def _cursor_in(self, cols, rows):
        if not getattr(self, "HAS_CURSOR", False) or self.cur is None or not self._selectable:
            return None
        x, y = self.cur
        if 0 <= x < cols and 0 <= y < rows:
            return (x, y)
        return None

    def keypress(self, size, key):
        self.log.append(("key", self.sid, tuple(size), key))
        return key

    def mouse_event(self, size, event, button, col, row, focus):
        self.log.append(("mouse", self.sid, tuple(size), event, button, col, row, bool(focus)))
        self.dims(size, focus)  # a size of the wrong arity is rejected here exactly as in render / the cursor protocol
        return self.mret


class _CursorProtocol:
    HAS_CURSOR = True

    def get_cursor_coords(self, size):
        cols, rows = self.dims(size, True)  # the cursor protocol has no focus argument: it speaks about the focused widget
        return self._cursor_in(cols, rows)

    def get_pref_col(self, size):
        if self.cur is None:
            return None
        return self.cur[0]

    def move_cursor_to_coords(self, size, col, row):
        cols, rows = self.dims(size, True)
        if col == "left":
            x = 0
        elif col == "right":
            x = cols - 1
        else:
            x = col
        ok = isinstance(x, int) and isinstance(row, int) and accepts(self.accept, x, row, cols, rows)
        self.log.append(("move", self.sid, tuple(size), col, row, ok))
        if ok:
            self.cur = (x, row)
            self._invalidate()
        return ok


class _FlowDims:
    _sizing = frozenset([urwid.FLOW])

    def dims(self, size, focus=False):
        (maxcol,) = size
        return maxcol, self.geom["rows"] + (self.geom.get("frows", 0) if focus else 0)

    def rows(self, size, focus=False):
        return self.dims(size, focus)[1]

    def pack(self, size, focus=False):
        # a flow widget may report a narrower preferred width (used by 'pack' columns / Padding width='pack'); it may depend on focus
        cols, rows = self.dims(size, focus)
        pw = self.geom.get("packw")
        if pw:
            cols = min(cols, pw + (self.geom.get("fpackw", 0) if focus else 0))
        return cols, rows


class _BoxDims:
    _sizing = frozenset([urwid.BOX])

    def dims(self, size, focus=False):
        maxcol, maxrow = size
        return maxcol, maxrow


class _FixedDims:
    _sizing = frozenset([urwid.FIXED])

    def dims(self, size, focus=False):
        if size != ():
            raise ValueError(f"fixed spy handed size {size!r}")
        return self.geom["cols"] + (self.geom.get("fcols", 0) if focus else 0), self.geom["rows"] + (self.geom.get("frows", 0) if focus else 0)

    def pack(self, size=(), focus=False):
        return self.dims(size, focus)


class SpyFlow(_CursorProtocol, _FlowDims, _SpyCommon):
    pass


class SpyBox(_CursorProtocol, _BoxDims, _SpyCommon):
    pass


class SpyFixed(_CursorProtocol, _FixedDims, _SpyCommon):
    pass


class SpyFlowNC(_FlowDims, _SpyCommon):
    """no cursor protocol at all (hasattr(w, 'get_cursor_coords') is False)"""


class SpyBoxNC(_BoxDims, _SpyCommon):
    pass


class SpyFixedNC(_FixedDims, _SpyCommon):
    pass


SPY_CLASSES = {
    ("flow", True): SpyFlow,
    ("box", True): SpyBox,
    ("fixed", True): SpyFixed,
    ("flow", False): SpyFlowNC,
    ("box", False): SpyBoxNC,
    ("fixed", False): SpyFixedNC,
}


# ----------------------------------------------------------------------------- real leaves, logged
class _RealLog:
    def _spy_setup(self, sid, glyph, log):
        self.sid = sid
        self.glyph = glyph
        self.log = log
        self.last_size = None
        self.last_dims = None


class SpyEdit(_RealLog, urwid.Edit):
    def __init__(self, sid, glyph, log, caption_len, text_len, pos, wrap, caption_blank=False, text=None, mask=None, as_bytes=False):
        """text=None: the edit text is glyph * text_len.  Otherwise `text` is the REAL text (combining marks, wide characters,
        newlines ...) and, if `mask` is set, what is drawn is mask * len(text) -- the mask is the glyph, so the leaf stays
        readable on the canvas while positions are walked through the real characters"""
        self._spy_setup(sid, glyph, log)
        caption = glyph * caption_len + (" " if caption_blank else "")
        if text is None:
            text = glyph * text_len
        if as_bytes:
            caption, text = caption.encode("utf-8"), text.encode("utf-8")
            mask = mask.encode("utf-8") if mask is not None else None
        super().__init__(caption, text, wrap=wrap, mask=mask)
        self.set_edit_pos(min(pos, len(text)))

    def render(self, size, focus=False):
        self.last_size = tuple(size)
        self.log.append(("render", self.sid, tuple(size), bool(focus)))
        return super().render(size, focus)

    def mouse_event(self, size, event, button, x, y, focus):
        self.log.append(("mouse", self.sid, tuple(size), event, button, x, y, bool(focus)))
        r = super().mouse_event(size, event, button, x, y, focus)
        self.log.append(("mouse_ret", self.sid, r))
        return r

    def move_cursor_to_coords(self, size, x, y):
        r = super().move_cursor_to_coords(size, x, y)
        self.log.append(("move", self.sid, tuple(size), x, y, r))
        return r


class SpyIcon(_RealLog, urwid.SelectableIcon):
    def __init__(self, sid, glyph, log, text_len, cursor_position):
        self._spy_setup(sid, glyph, log)
        super().__init__(glyph * text_len, cursor_position)

    def render(self, size, focus=False):
        self.last_size = tuple(size)
        self.log.append(("render", self.sid, tuple(size), bool(focus)))
        return super().render(size, focus)

    def mouse_event(self, size, event, button, col, row, focus):
        self.log.append(("mouse", self.sid, tuple(size), event, button, col, row, bool(focus)))
        return super().mouse_event(size, event, button, col, row, focus)


class SpyButton(_RealLog, urwid.Button):
    def __init__(self, sid, glyph, log, text_len):
        self._spy_setup(sid, glyph, log)
        super().__init__(glyph * text_len)

    def render(self, size, focus=False):
        self.last_size = tuple(size)
        self.log.append(("render", self.sid, tuple(size), bool(focus)))
        return super().render(size, focus)

    def mouse_event(self, size, event, button, x, y, focus):
        self.log.append(("mouse", self.sid, tuple(size), event, button, x, y, bool(focus)))
        return super().mouse_event(size, event, button, x, y, focus)


class SpyCheckBox(_RealLog, urwid.CheckBox):
    def __init__(self, sid, glyph, log, text_len, state):
        self._spy_setup(sid, glyph, log)
        super().__init__(glyph * text_len, state)

    def render(self, size, focus=False):
        self.last_size = tuple(size)
        self.log.append(("render", self.sid, tuple(size), bool(focus)))
        return super().render(size, focus)

    def mouse_event(self, size, event, button, x, y, focus):
        self.log.append(("mouse", self.sid, tuple(size), event, button, x, y, bool(focus)))
        return super().mouse_event(size, event, button, x, y, focus)


# column at which the first label glyph is drawn, relative to the widget's left edge (documented
# appearance: "< label >" for Button, "[ ] label" for CheckBox)
REAL_LABEL_OFFSET = {"Edit": 0, "Icon": 0, "Button": 2, "CheckBox": 4}
