"""M1 -- render-contract monitor (C01; also usable by other checks for "size each child was handed").

Replaces the module global ``urwid.widget.widget.validate_size``.  Both render wrappers installed by
the widget metaclass (``cache_widget_render`` / ``nocache_widget_render``) look that global up on every
cache-missing ``render()`` of every widget class, so the hook sees ``(widget, size, canvas)`` for EVERY
widget of a tree, not only the root.  The original function is always called afterwards, so urwid's
own behaviour (raising WidgetError on a size mismatch) is unchanged.

The oracle (``judge_canvas``) is the C01 statement and nothing else:
  box   -> canvas is exactly size[0] x size[1]
  flow  -> canvas has size[0] columns and exactly ``widget.rows(size, focus)`` rows
  fixed -> canvas is exactly ``widget.pack((), focus)``
  every content() row is cols() screen columns wide (decoded per encoding by vmon.models.grid)
  len(content) == rows();  a cursor, if present, is inside the canvas.
Events whose size has a component < 1, or whose sizing mode the widget does not report in sizing(),
are outside the statement's domain: they are counted and not judged.
"""

from __future__ import annotations

import sys
import warnings
from collections import Counter

from vmon.models import grid as G

MODE_BY_LEN = {0: "fixed", 1: "flow", 2: "box"}
ENC_MODE = {"utf8": "utf8", "utf-8": "utf8", "euc-jp": "wide", "ascii": "narrow"}


def size_bucket(size) -> str:
    def b(n):
        return str(n) if n <= 3 else ("4-8" if n <= 8 else ("9-13" if n <= 13 else "14+"))

    if not size:
        return "()"
    return "x".join(b(n) for n in size)


def current_mode() -> str:
    import urwid

    enc = urwid.util.get_encoding().lower()
    if enc in ("utf8", "utf-8", "utf"):
        return "utf8"
    if enc in ("euc-jp", "euc-kr", "euc-cn", "euc-tw", "gb2312", "gbk", "big5", "cn-gb", "uhc", "eucjp", "euckr", "euccn", "euctw", "cncb"):
        return "wide"
    return "narrow"


def judge_canvas(widget, size, focus, canv, mode, reported=None, clauses=None):
    """-> list of (kind, message).  `reported` = rows()/pack() value computed by the caller beforehand
    (root driver); if None it is computed here.  `clauses` (Counter) counts oracle evaluations."""
    out = []
    c = clauses if clauses is not None else Counter()
    try:
        cols, rows = canv.cols(), canv.rows()
    except Exception as e:  # noqa: BLE001
        return [(f"raise:{type(e).__name__}@canvas", f"canvas.cols()/rows() raised {type(e).__name__}: {e}")]
    n = len(size)
    if n == 2:
        c["clause_box_cols_rows"] += 1
        if cols != size[0]:
            out.append(("cols", f"box size {size!r} but canvas has {cols} columns"))
        if rows != size[1]:
            out.append(("rows", f"box size {size!r} but canvas has {rows} rows"))
    elif n == 1:
        c["clause_flow_cols"] += 1
        if cols != size[0]:
            out.append(("cols", f"flow size {size!r} but canvas has {cols} columns"))
        if reported is None:
            try:
                reported = widget.rows(size, focus)
            except Exception as e:  # noqa: BLE001
                out.append((f"raise:{type(e).__name__}@rows()", f"rows({size!r}, {focus}) raised {type(e).__name__}: {e}"))
                reported = None
        if reported is not None:
            c["clause_flow_rows_eq_rows()"] += 1
            if rows != reported:
                out.append(("rows!=rows()", f"rows({size!r}, {focus}) = {reported!r} but the canvas has {rows} rows"))
    else:
        if reported is None:
            try:
                reported = widget.pack((), focus)
            except Exception as e:  # noqa: BLE001
                out.append((f"raise:{type(e).__name__}@pack()", f"pack((), {focus}) raised {type(e).__name__}: {e}"))
                reported = None
        if reported is not None:
            c["clause_fixed_size_eq_pack()"] += 1
            if (cols, rows) != tuple(reported):
                out.append(("size!=pack()", f"pack((), {focus}) = {tuple(reported)!r} but the canvas is {cols} x {rows}"))
    # content
    if cols == 0 or rows == 0:
        # an empty canvas (fixed widget packing to 0 columns, flow widget reporting 0 rows) has no cells: the
        # per-row clauses are vacuous, and TextCanvas.content() cannot enumerate a 0-column canvas at all
        c["clause_content_vacuous_empty_canvas"] += 1
        return out
    try:
        content = [list(r) for r in canv.content()]
    except Exception as e:  # noqa: BLE001
        out.append((f"raise:{type(e).__name__}@content()", f"canvas.content() raised {type(e).__name__}: {e}"))
        return out
    c["clause_content_rows"] += 1
    if len(content) != rows:
        out.append(("content-rows", f"canvas.rows() = {rows} but content() yields {len(content)} rows"))
    try:
        flat = G.flatten_rows(content, mode)
    except ValueError as e:
        out.append(("rowwidth", f"content row is not text in the {mode} encoding / a segment splits a character: {e}"))
        flat = None
    if flat is not None:
        for y, row in enumerate(flat):
            c["clause_row_width"] += 1
            w = G.row_width(row)
            if w != cols:
                out.append(("rowwidth", f"content row {y} is {w} screen columns wide, canvas is {cols} wide: {content[y]!r}"))
                break
    cur = getattr(canv, "cursor", None)
    if cur is not None:
        c["clause_cursor_inside"] += 1
        x, y = cur
        if not (0 <= x < cols and 0 <= y < rows):
            out.append(("cursor-outside", f"cursor {cur!r} outside the {cols} x {rows} canvas"))
    return out


class Event:
    __slots__ = ("widget", "size", "focus", "dims", "problems", "chain", "judged", "defcls")

    def __init__(self, widget, size, focus, dims, problems, chain, judged, defcls=None):
        self.defcls = defcls  # name of the class whose render() produced the canvas (may be a base class of type(widget))
        self.widget = widget
        self.size = size
        self.focus = focus
        self.dims = dims
        self.problems = problems
        self.chain = chain  # [(widget, size, focus)] enclosing render() calls, innermost first (only on a problem)
        self.judged = judged


def render_chain(frame):
    """enclosing render-wrapper frames of `frame`, innermost first: [(widget, size, focus)]"""
    out = []
    f = frame
    while f is not None:
        if f.f_code.co_name in ("cached_render", "finalize_render"):
            loc = f.f_locals
            w = loc.get("self")
            if w is not None and "size" in loc:
                out.append((w, loc["size"], bool(loc.get("focus", False))))
        f = f.f_back
    return out


def traceback_chain(tb):
    """frames of a traceback that are methods of widgets with a `size` argument, OUTERMOST first:
    [(widget, size, focus, function name)]"""
    from urwid.widget.widget import Widget

    out = []
    while tb is not None:
        f = tb.tb_frame
        loc = f.f_locals
        w = loc.get("self")
        if isinstance(w, Widget) and isinstance(loc.get("size"), tuple):
            item = (w, loc["size"], bool(loc.get("focus", False)), f.f_code.co_qualname)
            if f.f_code.co_name not in ("cached_render", "finalize_render", "cached_rows"):
                out.append(item)
        tb = tb.tb_next
    return out


class M1:
    def __init__(self, keep_log=True, check_sizing=True):
        self.orig = None
        self.busy = False
        self.keep_log = keep_log
        self.check_sizing = check_sizing
        self.log: list[Event] = []
        self.coverage: Counter = Counter()  # (class, mode, size bucket)
        self.clauses: Counter = Counter()
        self.counts: Counter = Counter()
        self.mode = None  # None -> derive from urwid's current encoding

    def install(self):
        import urwid.widget.widget as ww

        if self.orig is None:
            self.orig = ww.validate_size
            ww.validate_size = self.hook
        return self

    def uninstall(self):
        import urwid.widget.widget as ww

        if self.orig is not None:
            ww.validate_size = self.orig
            self.orig = None

    def reset(self):
        self.log = []

    def in_domain(self, widget, size):
        """is (widget, size) inside the statement's domain?  -> (bool, reason)"""
        if any((not isinstance(n, int)) or n < 1 for n in size):
            return False, "size<1"
        if self.check_sizing:
            was = self.busy
            self.busy = True
            try:
                with warnings.catch_warnings():
                    warnings.simplefilter("ignore")
                    sz = {str(getattr(s, "value", s)) for s in widget.sizing()}
            except Exception:  # noqa: BLE001
                sz = {"box", "flow", "fixed"}
            finally:
                self.busy = was
            if MODE_BY_LEN[len(size)] not in sz:
                return False, "mode-not-reported"
        return True, ""

    def hook(self, widget, size, canv):
        if self.busy or not isinstance(size, tuple) or len(size) > 2:
            return self.orig(widget, size, canv)
        frame = sys._getframe(1)
        focus = bool(frame.f_locals.get("focus", False))
        self.counts["m1_events"] += 1
        ok, why = self.in_domain(widget, size)
        problems = []
        if not ok:
            self.counts["m1_not_judged:" + why] += 1
        else:
            self.busy = True
            try:
                problems = judge_canvas(widget, size, focus, canv, self.mode or current_mode(), None, self.clauses)
            finally:
                self.busy = False
            self.counts["m1_judged"] += 1
            self.coverage[(type(widget).__name__, MODE_BY_LEN[len(size)], size_bucket(size))] += 1
        if problems:
            self.counts["m1_problems"] += 1
        if self.keep_log:
            chain = render_chain(frame) if problems else None
            defcls = None
            if problems:
                fn = frame.f_locals.get("fn")
                defcls = getattr(fn, "__qualname__", "").split(".")[0] or None
            self.log.append(Event(widget, size, focus, (canv.cols(), canv.rows()), problems, chain, ok, defcls))
        return self.orig(widget, size, canv)

    def first_problem(self):
        """the first event (in completion order, i.e. innermost first) whose canvas breaks the contract"""
        for ev in self.log:
            if ev.problems:
                return ev
        return None
