"""Spy flow widgets and custom list walkers for the C07 (ListBox window) check.

The spies are real urwid.Widget subclasses with FLOW sizing.  Every row they paint carries a
glyph unique to (item, row): the row text is "<ident><row index>" padded with '.' to the width,
so "which row of which item is shown here" can be read off the ListBox canvas.  All calls made
by the ListBox into an item are logged (render / keypress / mouse_event / move_cursor_to_coords).

The walkers are minimal *documented-valid* custom list walkers (docs/manual/widgets.rst,
"List Walker Interface"): DictWalkerV2 implements API version 2 (+ the optional positions()),
DictWalkerV1 implements only API version 1 (get_focus/set_focus/get_next/get_prev).
Positions are sparse integers (keys of a dict), not indexes.
"""

from __future__ import annotations

import bisect

import urwid

NARROW = 8  # widths below this add `nx` rows to a spy (height depends on width, as for wrapped text)


def spy_height(h: int, nx: int, maxcol: int) -> int:
    return h + (nx if maxcol < NARROW else 0)


def spy_row_text(ident: str, r: int, maxcol: int) -> str:
    return (f"{ident}{r}" + "." * maxcol)[:maxcol]


class SpyFlow(urwid.Widget):
    """flow widget, h (+nx when narrow) rows, selectable or not, no cursor protocol"""

    _sizing = frozenset([urwid.FLOW])

    def __init__(self, ident: str, h: int, sel: bool, nx: int = 0, log=None):
        super().__init__()
        self.ident = ident
        self.h = h
        self.nx = nx
        self._sel = sel
        self.log = log if log is not None else []

    def __repr__(self):
        return f"<{type(self).__name__} {self.ident} h={self.h}+{self.nx} sel={self._sel}>"

    def selectable(self) -> bool:
        return self._sel

    def height(self, maxcol: int) -> int:
        return spy_height(self.h, self.nx, maxcol)

    def rows(self, size, focus: bool = False) -> int:
        return self.height(size[0])

    def _cursor(self, size):
        return None

    def render(self, size, focus: bool = False):
        (maxcol,) = size
        self.log.append(("render", self.ident, maxcol, focus))
        n = self.height(maxcol)
        text = [spy_row_text(self.ident, r, maxcol).encode("ascii") for r in range(n)]
        cur = self._cursor(size) if focus else None
        return urwid.TextCanvas(text, maxcol=maxcol, cursor=cur, check_width=False)

    def keypress(self, size, key):
        self.log.append(("keypress", self.ident, size[0], key))
        if key == "x":
            return None
        return key

    def mouse_event(self, size, event, button, col, row, focus):
        self.log.append(("mouse_event", self.ident, size[0], event, button, col, row, focus))
        return bool(self._sel and button == 1)


class SpyCursorFlow(SpyFlow):
    """selectable flow widget implementing the cursor protocol; up/down move the cursor inside the widget"""

    def __init__(self, ident: str, h: int, nx: int = 0, log=None, cx: int = 0, cy: int = 0):
        super().__init__(ident, h, True, nx, log)
        self.cx = cx
        self.cy = cy

    def _cursor(self, size):
        (maxcol,) = size
        n = self.height(maxcol)
        if n == 0:
            return None
        return (min(self.cx, maxcol - 1), min(self.cy, n - 1))

    def get_cursor_coords(self, size):
        return self._cursor(size)

    def get_pref_col(self, size):
        return min(self.cx, size[0] - 1)

    def move_cursor_to_coords(self, size, col, row):
        (maxcol,) = size
        self.log.append(("move_cursor_to_coords", self.ident, maxcol, col, row))
        n = self.height(maxcol)
        if not 0 <= row < n:
            return False
        if col == "left":
            col = 0
        elif col == "right":
            col = maxcol - 1
        self.cx = max(0, min(int(col), maxcol - 1))
        self.cy = row
        self._invalidate()
        return True

    def keypress(self, size, key):
        (maxcol,) = size
        self.log.append(("keypress", self.ident, maxcol, key))
        n = self.height(maxcol)
        cur = self._cursor(size)
        if cur is None:
            return key
        cx, cy = cur
        if key == "up" and cy > 0:
            self.cx, self.cy = cx, cy - 1
        elif key == "down" and cy < n - 1:
            self.cx, self.cy = cx, cy + 1
        elif key == "x":
            self.cx, self.cy = (cx + 1) % maxcol, cy
        else:
            return key
        self._invalidate()
        return None

    def mouse_event(self, size, event, button, col, row, focus):
        self.log.append(("mouse_event", self.ident, size[0], event, button, col, row, focus))
        if button == 1 and event.endswith("mouse press"):
            return self.move_cursor_to_coords(size, col, row)
        return False


# ------------------------------------------------------------------ custom walkers


class _DictBase:
    """dict position -> widget, sparse integer positions kept in a sorted key list"""

    GAP = 1 << 20

    def _init(self, widgets):
        self.d = {}
        self.keys = []
        for i, w in enumerate(widgets):
            k = (i + 1) * self.GAP + 7
            self.d[k] = w
            self.keys.append(k)
        self._focus = self.keys[0] if self.keys else None

    # ---- list-like mutation by index (used by the harness); every change calls _modified()
    def insert_at(self, idx, w) -> bool:
        lo = self.keys[idx - 1] if idx > 0 else 0
        hi = self.keys[idx] if idx < len(self.keys) else (self.keys[-1] + 2 * self.GAP if self.keys else 2 * self.GAP)
        k = (lo + hi) // 2
        if k in self.d or k <= lo or k >= hi:
            return False
        self.d[k] = w
        self.keys.insert(idx, k)
        if self._focus is None:
            self._focus = k
        self._modified()
        return True

    def delete_at(self, idx) -> None:
        k = self.keys.pop(idx)
        del self.d[k]
        if self._focus == k:
            if idx < len(self.keys):
                self._focus = self.keys[idx]
            elif self.keys:
                self._focus = self.keys[-1]
            else:
                self._focus = None
        self._modified()

    def replace_at(self, idx, w) -> None:
        self.d[self.keys[idx]] = w
        self._modified()

    def clear_all(self) -> None:
        self.d.clear()
        del self.keys[:]
        self._focus = None
        self._modified()

    def pos_of_index(self, idx):
        return self.keys[idx]

    def _next_key(self, k):
        i = bisect.bisect_right(self.keys, k)
        if i >= len(self.keys):
            raise IndexError(k)
        return self.keys[i]

    def _prev_key(self, k):
        i = bisect.bisect_left(self.keys, k)
        if i <= 0:
            raise IndexError(k)
        return self.keys[i - 1]


class DictWalkerV2(_DictBase, urwid.ListWalker):
    """List Walker API version 2: __getitem__, next_position, prev_position, set_focus, focus (+ positions)"""

    def __init__(self, widgets):
        self._init(widgets)

    @property
    def focus(self):
        return self._focus

    def __getitem__(self, position):
        return self.d[position]

    def next_position(self, position):
        return self._next_key(position)

    def prev_position(self, position):
        return self._prev_key(position)

    def set_focus(self, position):
        if position not in self.d:
            raise IndexError(position)
        self._focus = position
        self._modified()

    def positions(self, reverse: bool = False):
        return list(reversed(self.keys)) if reverse else list(self.keys)


class DictWalkerV1(_DictBase, urwid.ListWalker):
    """List Walker API version 1 only: get_focus, set_focus, get_next, get_prev (no positions())"""

    def __init__(self, widgets):
        self._init(widgets)

    def get_focus(self):
        if self._focus is None:
            return None, None
        return self.d[self._focus], self._focus

    def set_focus(self, position):
        if position not in self.d:
            raise IndexError(position)
        self._focus = position
        self._modified()

    def get_next(self, position):
        try:
            k = self._next_key(position)
        except IndexError:
            return None, None
        return self.d[k], k

    def get_prev(self, position):
        try:
            k = self._prev_key(position)
        except IndexError:
            return None, None
        return self.d[k], k


class DictWalkerLax(_DictBase, urwid.ListWalker):
    """List Walker API version 2 in the style of the urwid examples: set_focus() only RECORDS the position (no
    validation, no IndexError) and the inherited ListWalker.get_focus() answers (None, None) when the recorded
    position does not exist.  Removing the focus position moves the focus to a neighbour (delete_at)."""

    def __init__(self, widgets):
        self._init(widgets)

    @property
    def focus(self):
        return self._focus

    def __getitem__(self, position):
        return self.d[position]

    def next_position(self, position):
        return self._next_key(position)

    def prev_position(self, position):
        return self._prev_key(position)

    def set_focus(self, position):
        self._focus = position
        self._modified()

    def positions(self, reverse: bool = False):
        return list(reversed(self.keys)) if reverse else list(self.keys)
