"""pytest plugin: run the repository's tests/ directory with monitor M1 (render contract) installed.

Usage (never include tests/test_vterm.py -- it hangs without a tty):
    cd /repo && C01_M1_OUT=/verif/.work/C01/tests_m1.json PYTHONPATH=/verif \
      /venv/bin/python -B -m pytest tests -p vmon.monitors.c01_pytest_plugin -p no:cacheprovider \
      --timeout=20 -o addopts="" --deselect tests/test_vterm.py -q

Every cache-missing render() of every widget the tests create is judged by the C01 oracle
(vmon.monitors.render_contract.judge_canvas).  Problems are written, grouped, to $C01_M1_OUT together with the
test that was running; they are triaged by hand like any other report (tests deliberately exercise invalid
combinations, so a report here is a lead, not a verdict).
"""

from __future__ import annotations

import json
import os
from collections import Counter

from vmon.monitors import render_contract as RC

_state = {"m1": None, "test": None, "problems": {}, "tests": 0}


class _M1(RC.M1):
    def hook(self, widget, size, canv):
        n = len(self.log)
        try:
            return super().hook(widget, size, canv)
        finally:
            for ev in self.log[n:]:
                if ev.problems:
                    kind, msg = ev.problems[0]
                    key = f"{type(ev.widget).__name__}|{RC.MODE_BY_LEN[len(ev.size)]}|{kind}"
                    rec = _state["problems"].setdefault(key, {"n": 0, "tests": [], "example": None})
                    rec["n"] += 1
                    if _state["test"] not in rec["tests"] and len(rec["tests"]) < 8:
                        rec["tests"].append(_state["test"])
                    if rec["example"] is None:
                        rec["example"] = {"widget": repr(ev.widget)[:300], "size": list(ev.size), "focus": ev.focus, "msg": msg[:400]}
            del self.log[:]


def pytest_configure(config):
    m1 = _M1(keep_log=True, check_sizing=True)
    m1.install()
    _state["m1"] = m1


def pytest_runtest_setup(item):
    _state["test"] = item.nodeid
    _state["tests"] += 1


def pytest_unconfigure(config):
    m1 = _state["m1"]
    if m1 is None:
        return
    m1.uninstall()
    cov = Counter()
    for (cls, smode, _b), v in m1.coverage.items():
        cov[f"{cls}/{smode}"] += v
    out = {
        "tests_run": _state["tests"],
        "counts": dict(m1.counts),
        "clauses": dict(m1.clauses),
        "coverage_class_mode": dict(sorted(cov.items())),
        "problems": _state["problems"],
    }
    path = os.environ.get("C01_M1_OUT", "/verif/.work/C01/tests_m1.json")
    os.makedirs(os.path.dirname(path), exist_ok=True)
    with open(path, "w") as f:
        json.dump(out, f, indent=1, sort_keys=True)
