"""Spy widgets for C20 (scrollables / scrollbars).

Real urwid.Widget subclasses whose every row starts with a glyph unique to that row (so the
slice offset is directly readable from a canvas), whose last column is a right-edge marker (so
the width they were handed is readable too), selectable or not, with a configurable set of
keys / mouse buttons they report as handled, logging every render / keypress / mouse_event call that
reaches them.  They are cached by CanvasCache like any ordinary widget (a no_cache spy below a ListBox
triggers a CanvasCache dependency-tracking defect that belongs to C06, not to C20).

All glyphs are single-column, non-combining code points (Latin Extended-A/B), disjoint from the
ASCII letters used for generated Text content and from the scrollbar thumb/trough characters.
"""

from __future__ import annotations

import urwid

GLYPH0 = 0x100
NGLYPH = 0x250 - 0x100  # 336 single-column glyphs
EDGE = "|"


def glyph(n: int) -> str:
    return chr(GLYPH0 + (n % NGLYPH))


def spy_row(base: int, i: int, width: int) -> str:
    """text of row i of a spy with glyph base `base` drawn `width` columns wide"""
    if width <= 0:
        return ""
    if width == 1:
        return glyph(base + i)
    body = "".join(chr(0x61 + ((i + j) % 26)) for j in range(width - 2))
    return glyph(base + i) + body + EDGE


class _SpyBase(urwid.Widget):
    def _init_spy(self, base, sel, keys, buttons, log, name):
        self.base = base
        self._selectable = bool(sel)
        self.keys = set(keys or ())
        self.buttons = set(buttons or ())
        self.log = log if log is not None else []
        self.name = name
        self.attr = None

    def selectable(self):
        return self._selectable

    def keypress(self, size, key):
        handled = key in self.keys
        self.log.append(("keypress", self.name, tuple(size), key, handled))
        return None if handled else key

    def mouse_event(self, size, event, button, col, row, focus):
        handled = button in self.buttons
        self.log.append(("mouse_event", self.name, tuple(size), event, button, col, row, handled))
        return handled

    def _canvas(self, texts, width):
        if not texts:
            return urwid.CompositeCanvas(urwid.SolidCanvas(" ", max(width, 0), 0))
        enc = [t.encode("utf-8") for t in texts]
        attrs = [[(self.attr, len(e))] for e in enc] if self.attr is not None else None
        return urwid.TextCanvas(enc, attrs, maxcol=width, check_width=True)


class RowSpy(_SpyBase):
    """flow widget: `n` rows whatever the width (n may be changed: content change)"""

    _sizing = frozenset([urwid.FLOW])

    def __init__(self, base, n, sel=False, keys=(), buttons=(), log=None, name="rowspy"):
        super().__init__()
        self._init_spy(base, sel, keys, buttons, log, name)
        self.n = n

    def set_rows(self, n):
        self.n = n
        self._invalidate()

    def rows(self, size, focus=False):
        return self.n

    def render(self, size, focus=False):
        (maxcol,) = size
        self.log.append(("render", self.name, tuple(size), focus))
        return self._canvas([spy_row(self.base, i, maxcol) for i in range(self.n)], maxcol)


class WrapSpy(_SpyBase):
    """flow widget: `n` unique cells laid out row-major, so rows = ceil(n / width) (non-increasing in width)"""

    _sizing = frozenset([urwid.FLOW])

    def __init__(self, base, n, sel=False, keys=(), buttons=(), log=None, name="wrapspy"):
        super().__init__()
        self._init_spy(base, sel, keys, buttons, log, name)
        self.n = n

    def set_rows(self, n):
        self.n = n
        self._invalidate()

    def rows(self, size, focus=False):
        (maxcol,) = size
        return max(1, -(-self.n // maxcol))

    def render(self, size, focus=False):
        (maxcol,) = size
        self.log.append(("render", self.name, tuple(size), focus))
        cells = "".join(glyph(self.base + k) for k in range(self.n))
        rows = [cells[i : i + maxcol].ljust(maxcol) for i in range(0, max(self.n, 1), maxcol)]
        return self._canvas(rows, maxcol)


class FixedSpy(_SpyBase):
    """fixed widget of cols x nrows cells"""

    _sizing = frozenset([urwid.FIXED])

    def __init__(self, base, cols, n, sel=False, keys=(), buttons=(), log=None, name="fixedspy"):
        super().__init__()
        self._init_spy(base, sel, keys, buttons, log, name)
        self.cols = cols
        self.n = n

    def set_rows(self, n):
        self.n = n
        self._invalidate()

    def set_cols(self, cols):
        self.cols = cols
        self._invalidate()

    def pack(self, size=(), focus=False):
        return (self.cols, self.n)

    def render(self, size, focus=False):
        self.log.append(("render", self.name, tuple(size), focus))
        return self._canvas([spy_row(self.base, i, self.cols) for i in range(self.n)], self.cols)


class CursorSpy(RowSpy):
    """flow widget with the cursor protocol: `n` rows, a cursor on row `crow` (column 0) shown when rendered with
    focus; 'up' / 'down' move the cursor inside the widget and are reported as handled, at the edges they are
    returned unhandled (like a multi-line Edit)"""

    def __init__(self, base, n, keys=(), buttons=(), log=None, name="cursorspy"):
        super().__init__(base, n, True, keys, buttons, log, name)
        self.crow = 0

    def set_rows(self, n):
        self.crow = max(0, min(self.crow, n - 1))
        super().set_rows(n)

    def keypress(self, size, key):
        if key == "down" and self.crow < self.n - 1:
            self.crow += 1
        elif key == "up" and self.crow > 0:
            self.crow -= 1
        else:
            return super().keypress(size, key)
        self.log.append(("keypress", self.name, tuple(size), key, "cursor-move"))  # consumed, but the view may follow the cursor
        self._invalidate()
        return None

    def get_cursor_coords(self, size):
        return (0, self.crow) if self.n else None

    def get_pref_col(self, size):
        return 0

    def move_cursor_to_coords(self, size, col, row):
        if not self.n:
            return False
        self.crow = max(0, min(self.n - 1, row if isinstance(row, int) else 0))
        self._invalidate()
        return True

    def render(self, size, focus=False):
        (maxcol,) = size
        self.log.append(("render", self.name, tuple(size), focus))
        canv = self._canvas([spy_row(self.base, i, maxcol) for i in range(self.n)], maxcol)
        if focus and self.n:
            canv = urwid.CompositeCanvas(canv)
            canv.cursor = (0, self.crow)
        return canv


POSITION_SCHEMES = {
    "offset1": lambda i: i + 1,  # 1-based record numbers
    "offset1000": lambda i: i + 1000,
    "negative": lambda i: i - 500,
    "stride10": lambda i: 10 * i,
    "str": lambda i: f"k{i:04d}",
    "tuple": lambda i: (i // 3, i % 3),
}


class KeyedWalker(urwid.ListWalker):
    """A user list walker implementing the documented interface (get_focus / set_focus / get_next / get_prev /
    positions, sized) over a python list of widgets, whose POSITIONS are not 0-based indexes: position of the
    i-th item = scheme(i) (ints with an offset or a stride, strings, tuples).  Supports insert / delete / len /
    iteration for the harness; the focus sticks to its item like a list focus would."""

    def __init__(self, widgets, scheme):
        self.widgets = list(widgets)
        self.scheme = scheme
        self.key = POSITION_SCHEMES[scheme]
        self.fidx = 0

    # ---- sized / iterable (harness and relative-scroll protocol)
    def __len__(self):
        return len(self.widgets)

    def __iter__(self):
        return iter(list(self.widgets))

    def _index(self, position):
        for i in range(len(self.widgets)):
            if self.key(i) == position:
                return i
        return None

    def _at(self, i):
        if i is None or not 0 <= i < len(self.widgets):
            return None, None
        return self.widgets[i], self.key(i)

    # ---- walker interface
    def get_focus(self):
        return self._at(self.fidx if self.widgets else None)

    def set_focus(self, position):
        i = self._index(position)
        if i is None:
            raise IndexError(f"no position {position!r}")
        self.fidx = i
        self._modified()

    def get_next(self, position):
        i = self._index(position)
        return self._at(None if i is None else i + 1)

    def get_prev(self, position):
        i = self._index(position)
        return self._at(None if i is None else i - 1)

    def positions(self, reverse=False):
        ks = [self.key(i) for i in range(len(self.widgets))]
        return reversed(ks) if reverse else ks

    # ---- content changes
    def insert(self, i, widget):
        self.widgets.insert(i, widget)
        if i <= self.fidx and len(self.widgets) > 1:
            self.fidx += 1
        self._modified()

    def __delitem__(self, i):
        del self.widgets[i]
        if i < self.fidx or self.fidx >= len(self.widgets):
            self.fidx = max(0, self.fidx - 1)
        self._modified()


class FalsyRowSpy(RowSpy):
    """a RowSpy that is FALSY although it has rows (like urwid.Columns([]) / GridFlow([]), or any user widget with
    __len__ == 0): `if widget:` tests in the code under test take the wrong branch for it"""

    def __len__(self):
        return 0
