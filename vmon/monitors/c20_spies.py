"""Spy widgets for C20 (scrollables / scrollbars).

Real urwid.Widget subclasses whose every row starts with a glyph unique to that row (so the
slice offset is directly readable from a canvas), whose last column is a right-edge marker (so
the width they were handed is readable too), selectable or not, with a configurable set of
keys / mouse buttons they report as handled, logging every render / keypress / mouse_event call that
reaches them.  They are cached by CanvasCache like any ordinary widget (a no_cache spy below a ListBox
triggers a CanvasCache dependency-tracking defect that belongs to C06, not to C20).

All glyphs are single-column, non-combining code points (Latin Extended-A/B), disjoint from the
ASCII letters used for generated Text content and from the scrollbar thumb/trough characters.
"""

from __future__ import annotations

import urwid

GLYPH0 = 0x100
NGLYPH = 0x250 - 0x100  # 336 single-column glyphs
EDGE = "|"


def glyph(n: int) -> str:
    return chr(GLYPH0 + (n % NGLYPH))


def spy_row(base: int, i: int, width: int) -> str:
    """text of row i of a spy with glyph base `base` drawn `width` columns wide"""
    if width <= 0:
        return ""
    if width == 1:
        return glyph(base + i)
    body = "".join(chr(0x61 + ((i + j) % 26)) for j in range(width - 2))
    return glyph(base + i) + body + EDGE


class _SpyBase(urwid.Widget):
    def _init_spy(self, base, sel, keys, buttons, log, name):
        self.base = base
        self._selectable = bool(sel)
        self.keys = set(keys or ())
        self.buttons = set(buttons or ())
        self.log = log if log is not None else []
        self.name = name
        self.attr = None

    def selectable(self):
        return self._selectable

    def keypress(self, size, key):
        handled = key in self.keys
        self.log.append(("keypress", self.name, tuple(size), key, handled))
        return None if handled else key

    def mouse_event(self, size, event, button, col, row, focus):
        handled = button in self.buttons
        self.log.append(("mouse_event", self.name, tuple(size), event, button, col, row, handled))
        return handled

    def _canvas(self, texts, width):
        if not texts:
            return urwid.CompositeCanvas(urwid.SolidCanvas(" ", max(width, 0), 0))
        enc = [t.encode("utf-8") for t in texts]
        attrs = [[(self.attr, len(e))] for e in enc] if self.attr is not None else None
        return urwid.TextCanvas(enc, attrs, maxcol=width, check_width=True)


class RowSpy(_SpyBase):
    """flow widget: `n` rows whatever the width (n may be changed: content change)"""

    _sizing = frozenset([urwid.FLOW])

    def __init__(self, base, n, sel=False, keys=(), buttons=(), log=None, name="rowspy"):
        super().__init__()
        self._init_spy(base, sel, keys, buttons, log, name)
        self.n = n

    def set_rows(self, n):
        self.n = n
        self._invalidate()

    def rows(self, size, focus=False):
        return self.n

    def render(self, size, focus=False):
        (maxcol,) = size
        self.log.append(("render", self.name, tuple(size), focus))
        return self._canvas([spy_row(self.base, i, maxcol) for i in range(self.n)], maxcol)


class WrapSpy(_SpyBase):
    """flow widget: `n` unique cells laid out row-major, so rows = ceil(n / width) (non-increasing in width)"""

    _sizing = frozenset([urwid.FLOW])

    def __init__(self, base, n, sel=False, keys=(), buttons=(), log=None, name="wrapspy"):
        super().__init__()
        self._init_spy(base, sel, keys, buttons, log, name)
        self.n = n

    def set_rows(self, n):
        self.n = n
        self._invalidate()

    def rows(self, size, focus=False):
        (maxcol,) = size
        return max(1, -(-self.n // maxcol))

    def render(self, size, focus=False):
        (maxcol,) = size
        self.log.append(("render", self.name, tuple(size), focus))
        cells = "".join(glyph(self.base + k) for k in range(self.n))
        rows = [cells[i : i + maxcol].ljust(maxcol) for i in range(0, max(self.n, 1), maxcol)]
        return self._canvas(rows, maxcol)


class FixedSpy(_SpyBase):
    """fixed widget of cols x nrows cells"""

    _sizing = frozenset([urwid.FIXED])

    def __init__(self, base, cols, n, sel=False, keys=(), buttons=(), log=None, name="fixedspy"):
        super().__init__()
        self._init_spy(base, sel, keys, buttons, log, name)
        self.cols = cols
        self.n = n

    def set_rows(self, n):
        self.n = n
        self._invalidate()

    def set_cols(self, cols):
        self.cols = cols
        self._invalidate()

    def pack(self, size=(), focus=False):
        return (self.cols, self.n)

    def render(self, size, focus=False):
        self.log.append(("render", self.name, tuple(size), focus))
        return self._canvas([spy_row(self.base, i, self.cols) for i in range(self.n)], self.cols)


class CursorSpy(RowSpy):
    """flow widget with the cursor protocol: `n` rows, a cursor on row `crow` (column 0) shown when rendered with
    focus; 'up' / 'down' move the cursor inside the widget and are reported as handled, at the edges they are
    returned unhandled (like a multi-line Edit)"""

    def __init__(self, base, n, keys=(), buttons=(), log=None, name="cursorspy"):
        super().__init__(base, n, True, keys, buttons, log, name)
        self.crow = 0

    def set_rows(self, n):
        self.crow = max(0, min(self.crow, n - 1))
        super().set_rows(n)

    def keypress(self, size, key):
        if key == "down" and self.crow < self.n - 1:
            self.crow += 1
        elif key == "up" and self.crow > 0:
            self.crow -= 1
        else:
            return super().keypress(size, key)
        self.log.append(("keypress", self.name, tuple(size), key, "cursor-move"))  # consumed, but the view may follow the cursor
        self._invalidate()
        return None

    def get_cursor_coords(self, size):
        return (0, self.crow) if self.n else None

    def get_pref_col(self, size):
        return 0

    def move_cursor_to_coords(self, size, col, row):
        if not self.n:
            return False
        self.crow = max(0, min(self.n - 1, row if isinstance(row, int) else 0))
        self._invalidate()
        return True

    def render(self, size, focus=False):
        (maxcol,) = size
        self.log.append(("render", self.name, tuple(size), focus))
        canv = self._canvas([spy_row(self.base, i, maxcol) for i in range(self.n)], maxcol)
        if focus and self.n:
            canv = urwid.CompositeCanvas(canv)
            canv.cursor = (0, self.crow)
        return canv
