"""C13 monitor: records an event-loop history at the client boundary, plus virtual OS fakes.

`Probe` wraps one urwid EventLoop instance.  Every API call made through it is appended to
`probe.h` as one JSON-able record (args, return value, loop clock before/after, the callback
in whose body the call was made) and every callback the loop invokes is recorded on entry and
on exit (with what it raised).  Nothing here judges anything: the history is handed to
`vmon.models.loop_contract.check`.

`VirtualOS` is a fake clock + fake `selectors` module + fake zmq poller.  It replaces the
*operating system* side of SelectEventLoop / ZMQEventLoop (module globals `time`, `selectors`,
instance attribute `_poller`), never urwid code.  Readiness of descriptors follows a schedule
given by the case (`arrivals`), blocking advances the fake clock and is recorded as a `block`
event, so "not before due", "before the loop goes quiescent" and all timer/fd orders are decided
without any wall clock.
"""

from __future__ import annotations

import math

POLLIN = 1


class Deadlock(BaseException):
    """virtual OS: the loop blocked without timeout while nothing can ever become ready"""


class Livelock(BaseException):
    """virtual OS: poll budget exhausted (loop spins without terminating)"""


class Boom(Exception):
    """the unique non-exit exception raised by workload callbacks"""

    def __init__(self, tag):
        super().__init__(tag)
        self.tag = tag


def raised_in(e) -> str | None:
    """innermost urwid.event_loop frame of the traceback, as 'module.function' (no line numbers)"""
    where = None
    tb = e.__traceback__
    while tb is not None:
        fn = tb.tb_frame.f_code.co_filename.replace("\\", "/")
        if "/urwid/event_loop/" in fn:
            where = f"{fn.rsplit('/', 1)[1][:-3]}.{tb.tb_frame.f_code.co_name}"
        tb = tb.tb_next
    return where


class BaseBoom(BaseException):
    """a workload exception that is not an Exception subclass"""

    def __init__(self, tag):
        super().__init__(tag)
        self.tag = tag


def exc_desc(e) -> dict:
    d = {"type": type(e).__name__}
    if isinstance(e, BaseExceptionGroup):
        d["members"] = [exc_desc(x) for x in e.exceptions]
    elif getattr(e, "tag", None) is not None:
        d["tag"] = e.tag  # workload exceptions carry the tag of the callback invocation that raised them
        d["kind"] = getattr(e, "kind", "boom")
    else:
        d["msg"] = str(e)[:120]
    return d


def make_exception(kind: str, tag: str) -> BaseException:
    """the exception classes a callback may raise besides ExitMainLoop: the workload's own, plus classes that the
    loops' code or their libraries treat specially on some error path"""
    import errno

    if kind == "boom":
        e = Boom(tag)
    elif kind == "baseboom":
        e = BaseBoom(tag)
    elif kind.startswith("zmq_"):
        import zmq

        e = {
            "zmq_again": lambda: zmq.error.Again(),
            "zmq_eintr": lambda: zmq.error.ZMQError(errno.EINTR),
            "zmq_eagain": lambda: zmq.error.ZMQError(errno.EAGAIN),
            "zmq_other": lambda: zmq.error.ZMQError(errno.EINVAL),
            "zmq_term": lambda: zmq.error.ContextTerminated(),
        }[kind]()
    elif kind == "interrupted":
        e = InterruptedError(errno.EINTR, "interrupted")
    elif kind == "blockingio":
        e = BlockingIOError(errno.EAGAIN, "again")
    elif kind == "oserror":
        e = OSError(errno.EBADF, "bad fd")
    elif kind == "cancelled_asyncio":
        import asyncio

        e = asyncio.CancelledError()
    elif kind == "cancelled_futures":
        import concurrent.futures

        e = concurrent.futures.CancelledError()
    elif kind == "stopiteration":
        e = StopIteration("x")
    elif kind == "stopasynciteration":
        e = StopAsyncIteration()
    elif kind == "generatorexit":
        e = GeneratorExit()
    elif kind == "keyboardinterrupt":
        e = KeyboardInterrupt()
    elif kind == "systemexit":
        e = SystemExit(3)
    elif kind == "keyerror":
        e = KeyError(tag)
    elif kind == "runtimeerror":
        e = RuntimeError(tag)
    elif kind == "twisted_notrunning":
        from twisted.internet import error

        e = error.ReactorNotRunning()
    else:
        raise AssertionError(kind)
    e.tag = tag
    e.kind = kind
    return e


EXC_KINDS = (
    "boom", "baseboom", "zmq_again", "zmq_eintr", "zmq_eagain", "zmq_other", "zmq_term", "interrupted", "blockingio", "oserror",
    "cancelled_asyncio", "cancelled_futures", "stopiteration", "stopasynciteration", "generatorexit", "keyboardinterrupt", "systemexit",
    "keyerror", "runtimeerror", "twisted_notrunning",
)  # fmt: skip


# ---------------------------------------------------------------------------- callable shapes and return values

RETURN_VALUES = {
    "none": lambda: None,
    "true": lambda: True,
    "false": lambda: False,
    "zero": lambda: 0,
    "one": lambda: 1,
    "str": lambda: "x",
    "obj": lambda: object(),
}


class _Holder:
    def __init__(self, f):
        self.f = f

    def method(self, *a, **kw):
        return self.f(*a, **kw)


class _CallableInstance:
    """no __name__ / __qualname__ on the instance"""

    def __init__(self, f):
        self.f = f

    def __call__(self, *a, **kw):
        return self.f(*a, **kw)


class _CallableSlots:
    __slots__ = ("f",)

    def __init__(self, f):
        self.f = f

    def __call__(self, *a, **kw):
        return self.f(*a, **kw)


_NEVER = object()


def shape_callable(f, shape):
    """the same behaviour as f in a different kind of callable object"""
    import functools

    if shape == "function":
        return f
    if shape == "lambda":
        return lambda *a, **kw: f(*a, **kw)
    if shape == "closure":
        g = f

        def inner(*a, **kw):
            return g(*a, **kw)

        return inner
    if shape == "bound_method":
        return _Holder(f).method
    if shape == "partial":
        return functools.partial(f)
    if shape == "partial_bound_method":
        return functools.partial(_Holder(f).method)
    if shape == "callable_instance":
        return _CallableInstance(f)
    if shape == "callable_instance_named":
        c = _CallableInstance(f)
        c.__name__ = "named_instance"
        c.__qualname__ = "named_instance"
        return c
    if shape == "callable_slots":
        return _CallableSlots(f)
    if shape == "builtin":
        # a builtin (C) bound method that calls f(): callable_iterator.__next__ of iter(f, sentinel)
        return iter(f, _NEVER).__next__
    raise AssertionError(shape)


SHAPES = (
    "function", "lambda", "closure", "bound_method", "partial", "partial_bound_method", "callable_instance",
    "callable_instance_named", "callable_slots", "builtin",
)  # fmt: skip


class Probe:
    """records API calls and callback entries/exits of one event loop"""

    def __init__(self, loop, clock, readable=None):
        self.loop = loop
        self.clock = clock  # the loop's own clock
        self.readable = readable or (lambda: [])  # -> list of fd keys currently readable
        self.h: list[dict] = []
        self.handles: dict[str, object] = {}
        self.raised: dict[int, BaseException] = {}  # id(exc) -> exc raised by some callback
        self.stack: list[tuple[str, str]] = []  # (cbid, kind) of callbacks being executed
        self.ncalls: dict[str, int] = {}

    def rec(self, **kw) -> dict:
        self.h.append(kw)
        return kw

    def _ctx(self):
        return list(self.stack[-1]) if self.stack else None

    def _wrap(self, cbid, kind, body, fdkey=None, shape="function", ret="none"):
        retval = RETURN_VALUES[ret]()

        def callback(*a, **kw):
            n = self.ncalls.get(cbid, 0)
            self.ncalls[cbid] = n + 1
            ev = {"e": "enter", "id": cbid, "kind": kind, "n": n, "t": self.clock(), "readable": self.readable()}
            if fdkey is not None:
                ev["fd"] = fdkey
            if a or kw:
                ev["args"] = repr((a, kw))[:80]
            self.h.append(ev)
            self.stack.append((cbid, kind))
            raised = None
            try:
                body(self, cbid, n)
            except BaseException as e:
                if isinstance(e, (Deadlock, Livelock)):
                    raise
                raised = exc_desc(e)
                self.raised[id(e)] = e
                raise
            finally:
                self.stack.pop()
                self.h.append({"e": "exit", "id": cbid, "kind": kind, "t": self.clock(), "raised": raised, "ret": ret})
            return retval

        return shape_callable(callback, shape)

    def _call(self, op, cbid, fn, *args, **extra):
        t0 = self.clock()
        ev = {"e": "call", "op": op, "id": cbid, "ctx": self._ctx(), "t0": t0, **extra}
        try:
            ret = fn(*args)
        except BaseException as e:
            if isinstance(e, (Deadlock, Livelock)):
                raise
            ev["t1"] = self.clock()
            ev["exc"] = exc_desc(e)
            self.h.append(ev)
            raise
        ev["t1"] = self.clock()
        self.h.append(ev)
        return ev, ret

    # ---- the six API calls -------------------------------------------------
    def alarm(self, cbid, seconds, body, shape="function", ret="none"):
        ev, ret = self._call("alarm", cbid, self.loop.alarm, seconds, self._wrap(cbid, "alarm", body, None, shape, ret), sec=seconds, shape=shape)
        ev["handle_falsy"] = not ret
        self.handles[cbid] = ret
        return ret

    def watch_file(self, cbid, fdkey, fdobj, body, shape="function", ret="none"):
        ev, ret = self._call("watch_file", cbid, self.loop.watch_file, fdobj, self._wrap(cbid, "watch", body, fdkey, shape, ret), fd=fdkey, shape=shape)
        ev["handle_falsy"] = not ret
        self.handles[cbid] = ret
        return ret

    def enter_idle(self, cbid, body, shape="function", ret="none"):
        ev, ret = self._call("enter_idle", cbid, self.loop.enter_idle, self._wrap(cbid, "idle", body, None, shape, ret), shape=shape)
        ev["handle_falsy"] = not ret
        self.handles[cbid] = ret
        return ret

    def _remove(self, op, cbid):
        if cbid not in self.handles:
            self.rec(e="skip", op=op, id=cbid, ctx=self._ctx())
            return None
        ev, ret = self._call(op, cbid, getattr(self.loop, op), self.handles[cbid])
        ev["ret"] = ret if isinstance(ret, bool) else repr(ret)
        return ret

    def remove_alarm(self, cbid):
        return self._remove("remove_alarm", cbid)

    def remove_watch_file(self, cbid):
        return self._remove("remove_watch_file", cbid)

    def remove_enter_idle(self, cbid):
        return self._remove("remove_enter_idle", cbid)

    def drop(self, cbid):
        """forget the handle of cbid (the client keeps only the token): the loop holds the last reference, if any"""
        self.handles.pop(cbid, None)
        self.rec(e="drop", id=cbid)

    def run(self):
        self.rec(e="run_begin", t=self.clock())
        try:
            self.loop.run()
        except (Deadlock, Livelock) as e:
            self.rec(e="run_end", t=self.clock(), outcome=type(e).__name__.lower(), exc=None)
            return
        except BaseException as e:
            d = exc_desc(e)
            d["where"] = raised_in(e)
            d["identical"] = id(e) in self.raised and self.raised[id(e)] is e
            if isinstance(e, BaseExceptionGroup):
                for m, x in zip(d["members"], e.exceptions):
                    m["identical"] = id(x) in self.raised and self.raised[id(x)] is x
            self.rec(e="run_end", t=self.clock(), outcome="raise", exc=d)
            return
        self.rec(e="run_end", t=self.clock(), outcome="return", exc=None)


# ---------------------------------------------------------------------------- real OS: wait recorder


class WaitRecorder:
    """pass-through wrapper around a loop's OS wait primitive (real clock mode).

    Records one `block` record per call: the timeout the loop REQUESTED (seconds, None = for ever), the
    loop clock before/after and which of the harness descriptors were readable when the wait began.
    The contract checker only uses the requested timeout (the loop's own decision to go to sleep),
    never how long the call took, so host scheduling stalls cannot create verdicts.
    """

    def __init__(self, clock, readable):
        self.clock = clock
        self.readable = readable
        self.sink = None  # the probe's history list

    def note(self, timeout_s):
        # the record is placed in the history when the wait BEGINS (twisted dispatches the ready descriptors
        # inside the same doIteration call, so their callbacks must come after it)
        ev = {"e": "block", "timeout": timeout_s, "t_from": self.clock(), "t_to": -1.0, "readable_from": self.readable()}
        if self.sink is not None:
            self.sink.append(ev)
        return ev

    def done(self, ev):
        ev["t_to"] = self.clock()

    def wrap(self, fn, to_seconds=None):
        """wrap fn(timeout, ...) -> same; to_seconds converts the raw timeout argument to seconds or None"""
        conv = to_seconds or (lambda t: None if t is None or t < 0 else float(t))

        def wait(timeout=None, *a, **kw):
            ev = self.note(conv(timeout))
            try:
                return fn(timeout, *a, **kw)
            finally:
                self.done(ev)

        return wait


class PollerProxy:
    """delegating stand-in for the zmq.Poller of one ZMQEventLoop (real clock mode)"""

    def __init__(self, real, recorder):
        self._real = real
        self._rec = recorder

    @property
    def sockets(self):
        return self._real.sockets

    def register(self, *a, **kw):
        return self._real.register(*a, **kw)

    def modify(self, *a, **kw):
        return self._real.modify(*a, **kw)

    def unregister(self, *a, **kw):
        return self._real.unregister(*a, **kw)

    def poll(self, timeout=None):
        ev = self._rec.note(None if timeout is None or timeout < 0 else timeout / 1000.0)
        try:
            return self._real.poll(timeout)
        finally:
            self._rec.done(ev)


# ---------------------------------------------------------------------------- virtual OS


class VirtualOS:
    """fake clock (integer microseconds), descriptor readiness schedule, blocking primitive"""

    BASE = 1000.0  # seconds; small enough that float arithmetic on it is exact to << 1 us

    def __init__(self, nfd, arrivals=(), order="reg", poll_limit=30000, fd_base=100):
        self.fd_base = fd_base  # descriptor number of key 0 (0 = the program watches "stdin")
        self.us = 0
        self.pending = {k: 0 for k in range(nfd)}
        self.arrivals = sorted([list(a) for a in arrivals])  # [t_us, fdkey, nbytes]
        self.order = order  # 'reg' | 'rev': order in which simultaneously ready fds are reported
        self.log = None  # list to append block/poll events to (the probe's history)
        self.polls = 0
        self.poll_limit = poll_limit

    # -- clock
    def time(self) -> float:
        return self.BASE + self.us / 1e6

    def advance(self, us: int) -> None:
        self.us += int(us)

    # -- descriptors
    def deliver(self) -> None:
        while self.arrivals and self.arrivals[0][0] <= self.us:
            _t, k, n = self.arrivals.pop(0)
            self.pending[k] += n

    def write(self, k, n=1):
        self.pending[k] += n

    def read(self, k, n=1):
        self.deliver()
        got = min(n, self.pending[k])
        self.pending[k] -= got
        return got

    def readable(self):
        self.deliver()
        return [k for k, n in self.pending.items() if n > 0]

    # -- the blocking primitive shared by the fake selector and the fake poller
    def wait(self, registered, timeout_us):
        """registered: fd keys in registration order; timeout_us: int >= 0 or None (forever)"""
        self.polls += 1
        if self.polls > self.poll_limit:
            raise Livelock
        target = None if timeout_us is None else self.us + timeout_us
        while True:
            self.deliver()
            ready = [k for k in registered if self.pending[k] > 0]
            if ready:
                break
            if target is not None and self.us >= target:
                break
            nxt = self.arrivals[0][0] if self.arrivals else None
            if target is None and nxt is None:
                if self.log is not None:
                    self.log.append({"e": "block", "t_from": self.time(), "t_to": None, "registered": list(registered), "readable_from": self.readable()})
                raise Deadlock
            to = target if nxt is None else (nxt if target is None else min(nxt, target))
            if self.log is not None:
                ev = {"e": "block", "t_from": self.time(), "t_to": None, "registered": list(registered), "readable_from": self.readable()}
                self.us = to
                ev["t_to"] = self.time()
                self.log.append(ev)
            else:
                self.us = to
        if self.order == "rev":
            ready.reverse()
        return ready


class FakeTimeModule:
    """stands in for the `time` module global of select_loop / zmq_loop"""

    def __init__(self, vos):
        self._vos = vos

    def time(self):
        return self._vos.time()

    def monotonic(self):
        return self._vos.time()

    def sleep(self, s):
        if s > 0:
            self._vos.wait([], math.ceil(s * 1e6 - 1e-9))


class _Key:
    __slots__ = ("data", "events", "fd", "fileobj")

    def __init__(self, fileobj, events, data):
        self.fileobj = fileobj
        self.fd = fileobj
        self.events = events
        self.data = data


class FakeSelectorsModule:
    """stands in for the `selectors` module global of select_loop.

    Descriptors are `FD_BASE + key`.  select(timeout) rounds the timeout UP to the clock tick, as
    the real select()/epoll selectors do (they never return early).
    """

    EVENT_READ = 1
    EVENT_WRITE = 2
    FD_BASE = 100

    def __init__(self, vos):
        self._vos = vos
        mod = self

        class DefaultSelector:
            def __init__(self):
                self._keys = {}

            def __enter__(self):
                return self

            def __exit__(self, *a):
                self._keys.clear()

            def close(self):
                self._keys.clear()

            def register(self, fileobj, events, data=None):
                if fileobj in self._keys:
                    raise KeyError(f"{fileobj!r} is already registered")
                self._keys[fileobj] = _Key(fileobj, events, data)
                return self._keys[fileobj]

            def unregister(self, fileobj):
                return self._keys.pop(fileobj)

            def get_map(self):
                return self._keys

            def select(self, timeout=None):
                if timeout is None:
                    us = None
                elif timeout <= 0:
                    us = 0
                else:
                    us = math.ceil(timeout * 1e6 - 1e-9)
                reg = [fd - mod._vos.fd_base for fd in self._keys]
                ready = mod._vos.wait(reg, us)
                return [(self._keys[k + mod._vos.fd_base], mod.EVENT_READ) for k in ready]

        self.DefaultSelector = DefaultSelector
        self.SelectSelector = DefaultSelector
        self.EpollSelector = DefaultSelector
        self.PollSelector = DefaultSelector


class FakeFile:
    """file-like object handed to ZMQEventLoop.watch_file in virtual mode"""

    def __init__(self, key, fd_base=100):
        self.key = key
        self.fd_base = fd_base

    def fileno(self):
        return self.fd_base + self.key

    def close(self):
        pass


class FakePoller:
    """stands in for zmq.Poller on one ZMQEventLoop instance.

    Reproduces zmq.Poller.poll's handling of the timeout: None or negative = forever, a float is
    truncated with int() to whole milliseconds (pyzmq 27: `elif isinstance(timeout, float): timeout = int(timeout)`),
    and an empty poller returns immediately (pyzmq 27 zmq_poll: `if nsockets == 0: return []`).
    """

    def __init__(self, vos):
        self._vos = vos
        self.sockets = []  # [(obj, flags)]

    def register(self, socket, flags=POLLIN):
        for i, (s, _f) in enumerate(self.sockets):
            if s is socket:
                self.sockets[i] = (socket, flags)
                return
        self.sockets.append((socket, flags))

    modify = register

    def unregister(self, socket):
        for i, (s, _f) in enumerate(self.sockets):
            if s is socket:
                del self.sockets[i]
                return
        raise KeyError(socket)

    def poll(self, timeout=None):
        if not self.sockets:
            # pyzmq's zmq_poll(): `if nsockets == 0: return []` -- returns at once, whatever the timeout
            self._vos.polls += 1
            if self._vos.polls > self._vos.poll_limit:
                raise Livelock
            return []
        if timeout is None or timeout < 0:
            us = None
        else:
            if isinstance(timeout, float):
                timeout = int(timeout)
            us = int(timeout) * 1000
        base = self._vos.fd_base
        reg = [(s if isinstance(s, int) else s.fileno()) - base for s, _f in self.sockets]
        ready = self._vos.wait(reg, us)
        return [(k + base, POLLIN) for k in ready]
