"""C08 spy leaves: real urwid.Widget subclasses that log every render / keypress / mouse_event.

Each instance paints one glyph that is unique per (instance, focus flag): unfocused
``chr(0x100 + 2*sid)``, focused ``chr(0x101 + 2*sid)`` (Latin Extended-A/B, one column wide
under utf-8).  The finished canvas therefore tells which leaf is drawn where and whether
it was drawn with focus, even when the canvas comes out of CanvasCache.

Events are appended to ``log.events`` as tuples; ``log.on_key`` (if set) is called at the moment
a leaf is offered a key, so the monitor can evaluate "is on the focus path *now*".
"""

from __future__ import annotations

import urwid
from urwid.canvas import TextCanvas

MAX_SID = 160  # 0x100 .. 0x23F


def glyphs(sid: int) -> tuple[str, str]:
    return chr(0x100 + 2 * sid), chr(0x101 + 2 * sid)


def glyph_owner(ch: str):
    """-> (sid, focused) or None for a non-spy character"""
    o = ord(ch)
    if 0x100 <= o < 0x100 + 2 * MAX_SID:
        return (o - 0x100) // 2, bool((o - 0x100) & 1)
    return None


class SpyLog:
    def __init__(self):
        self.events: list[tuple] = []
        self.on_key = None  # callable(spy) at offer time

    def clear(self):
        del self.events[:]


class _SpyBase(urwid.Widget):
    ignore_focus = False

    def _spy_init(self, sid: int, sel: bool, keys, log: SpyLog, xlate=None):
        self.sid = sid
        self._sel = bool(sel)
        self.keys = frozenset(keys)
        self.xlate = dict(xlate or {})  # key given -> different, non-None key returned
        self.log = log
        self.g_plain, self.g_focus = glyphs(sid)

    def selectable(self) -> bool:
        return self._sel

    def keypress(self, size, key):
        if self.log.on_key is not None:
            self.log.on_key(self)
        handled = key in self.keys
        out = None if handled else self.xlate.get(key, key)
        self.log.events.append(("key", self.sid, key, handled, tuple(size), out))
        return out

    def mouse_event(self, size, event, button, col, row, focus):
        self.log.events.append(("mouse", self.sid, event, button, col, row, bool(focus)))
        return False

    def _paint(self, maxcol: int, maxrow: int, focus: bool):
        g = (self.g_focus if focus else self.g_plain).encode("utf-8")
        return TextCanvas([g * maxcol for _ in range(maxrow)], maxcol=maxcol, check_width=False)

    def __repr__(self):
        return f"<{type(self).__name__} {self.sid} sel={self._sel}>"


class FlowSpy(_SpyBase):
    _sizing = frozenset([urwid.FLOW])

    def __init__(self, sid, sel, keys, log, nrows=1, xlate=None):
        super().__init__()
        self._spy_init(sid, sel, keys, log, xlate)
        self.nrows = nrows

    def rows(self, size, focus=False):
        return self.nrows

    def render(self, size, focus=False):
        (maxcol,) = size
        self.log.events.append(("render", self.sid, bool(focus), tuple(size)))
        return self._paint(maxcol, self.nrows, focus)


class BoxSpy(_SpyBase):
    _sizing = frozenset([urwid.BOX])

    def __init__(self, sid, sel, keys, log, xlate=None):
        super().__init__()
        self._spy_init(sid, sel, keys, log, xlate)

    def render(self, size, focus=False):
        maxcol, maxrow = size
        self.log.events.append(("render", self.sid, bool(focus), tuple(size)))
        return self._paint(maxcol, maxrow, focus)


def canvas_leaves(canv) -> tuple[set[int], set[int]]:
    """-> (sids drawn anywhere, sids drawn with the focus glyph) read from the finished canvas"""
    seen: set[int] = set()
    focused: set[int] = set()
    for row in canv.text:
        for ch in set(row.decode("utf-8", "replace")):
            o = glyph_owner(ch)
            if o is not None:
                seen.add(o[0])
                if o[1]:
                    focused.add(o[0])
    return seen, focused


def canvas_cell(canv, col: int, row: int):
    """-> (sid, focused) of the spy drawn at the cell, or None"""
    rows = canv.text
    if not (0 <= row < len(rows)):
        return None
    s = rows[row].decode("utf-8", "replace")
    if not (0 <= col < len(s)):
        return None
    return glyph_owner(s[col])


class ForceSelAttrMap(urwid.AttrMap):
    """a decoration that overrides selectable(): its answer differs from its base widget's"""

    def __init__(self, w, forced: bool):
        super().__init__(w, None)
        self._forced = bool(forced)

    def selectable(self) -> bool:
        return self._forced


class SelWrap(urwid.WidgetWrap):
    """a WidgetWrap (not a decoration: base_widget is itself) whose selectable() differs from the wrapped widget's"""

    def __init__(self, w, forced: bool):
        super().__init__(w)
        self._forced = bool(forced)

    def selectable(self) -> bool:
        return self._forced
