"""pty_term.py -- one scripted MainLoop session on a real pseudo-terminal, in a fresh process (C12).

Parent side:   run_session(spec, timeout=30) -> result dict | None (watchdog)
Child side:    python -B -m vmon.monitors.pty_term '<json spec>'  (prints one '@@RESULT <json>' line)

The child
  * opens a pty, sets its window size, snapshots termios + signal handlers,
  * builds urwid.display.raw.Screen(input=slave, output=Tee(slave)) (Tee records what was flushed, in
    program order with the callback log; the bytes that really reached the terminal are read from
    the pty MASTER by a reader/driver thread and are what the restoration verdict is computed from),
  * builds the requested event loop and a MainLoop whose top widget is a spy,
  * registers 2 harness alarms, a backstop ExitMainLoop alarm, one watch_pipe and one watch_file,
  * runs MainLoop.run() while the driver thread plays the script (bytes to the master, SIGWINCH to
    self, pipe writes) in lock-step with the callback log,
  * optionally injects ExitMainLoop / Boom at the k-th invocation of one callback site,
  * reports: the event log, how run() ended, bytes seen on the master, before/after termios and
    signal handlers, screen.started.
Nothing here judges anything: the oracle lives in vmon/checks/c12.py (parent process).

spec = {
  "repo": "/repo", "loop": "select|asyncio|tornado|twisted|trio|zmq", "hook": true,
  "pop_ups": false, "mouse": true, "paste": true, "focus": true, "handlers": "default|custom",
  "size": [40, 10], "alarms": [0.09, 0.17], "backstop": 2.5,
  "script": [["keys", "<latin-1 bytes>"], ["winch", [30, 8]], ["pipe", "P"], ["file", "F"], ["alarm", 0], ...],
  "inject": null | {"site": "keypress", "k": 0, "kind": "exit|boom"}
}
"""

from __future__ import annotations

import json
import os
import subprocess
import sys

PY = "/venv/bin/python"
VERIF = os.path.dirname(os.path.dirname(os.path.dirname(os.path.abspath(__file__))))
SITES = ("filter", "keypress", "mouse", "unhandled", "alarm", "file", "pipe", "render")
MARK = "@@RESULT "


# ------------------------------------------------------------------ parent side


def run_session(spec: dict, timeout: float = 30.0):
    """Run one session in a fresh interpreter. None = watchdog fired; dict otherwise
    (dict may be {'harness_error': ...} when the child died without a result)."""
    env = dict(os.environ, PYTHONHASHSEED="0", PYTHONDONTWRITEBYTECODE="1", TERM="xterm")
    try:
        p = subprocess.run(  # noqa: S603
            [PY, "-B", "-m", "vmon.monitors.pty_term", json.dumps(spec)],
            cwd=VERIF,
            env=env,
            stdin=subprocess.DEVNULL,
            stdout=subprocess.PIPE,
            stderr=subprocess.PIPE,
            timeout=timeout,
            check=False,
        )
    except subprocess.TimeoutExpired:
        return None
    out = p.stdout.decode("utf-8", "replace")
    for line in out.splitlines():
        if line.startswith(MARK):
            res = json.loads(line[len(MARK) :])
            res["rc"] = p.returncode
            res["stderr_tail"] = p.stderr.decode("utf-8", "replace")[-600:]
            return res
    return {"harness_error": f"no result line rc={p.returncode}", "stderr_tail": p.stderr.decode("utf-8", "replace")[-1500:]}


# ------------------------------------------------------------------ child side


def _child(spec: dict) -> dict:  # noqa: C901, PLR0915, PLR0912
    import fcntl
    import pty
    import select
    import signal
    import struct
    import termios
    import threading
    import time

    sys.path.insert(0, spec.get("repo", "/repo"))
    import urwid
    from urwid.display.raw import Screen

    reach_counts = None
    try:
        sys.path.insert(1, VERIF)
        from vmon import reach
        from urwid.display import _posix_raw_display as _prd
        from urwid.display import _raw_display_base as _rdb

        ML = urwid.MainLoop
        reach.watch(
            ML.run, ML._run, ML.start, ML.stop, ML._update, ML._run_screen_event_loop, ML.process_input, ML.input_filter,
            ML.unhandled_input, ML.entering_idle, ML.draw_screen, ML.watch_pipe, ML.watch_file, ML.set_alarm_in,
            _prd.Screen._start, _prd.Screen._stop, _prd.Screen.signal_init, _prd.Screen.signal_restore,
            _prd.Screen.hook_event_loop, _prd.Screen.unhook_event_loop, _rdb.Screen._stop_mouse_restore_buffer,
            _rdb.Screen._sigwinch_handler, _rdb.Screen.parse_input, _rdb.Screen.get_input, _rdb.Screen.draw_screen,
            urwid.PopUpTarget.keypress, urwid.PopUpTarget.mouse_event, urwid.PopUpTarget.render,
        )  # fmt: skip
        reach_counts = reach.counts
    except Exception:  # noqa: BLE001  (evidence only)
        reach_counts = None

    cols, rows = spec.get("size", [40, 10])
    master, slave = pty.openpty()
    fcntl.ioctl(slave, termios.TIOCSWINSZ, struct.pack("HHHH", rows, cols, 0, 0))

    # ---- initial process / tty state
    watched = {"SIGWINCH": signal.SIGWINCH, "SIGTSTP": signal.SIGTSTP, "SIGCONT": signal.SIGCONT, "SIGINT": signal.SIGINT}
    custom_calls = []
    if spec.get("handlers") == "custom":

        def mk(name):
            def handler(signum, frame):
                custom_calls.append(name)
                if name == "SIGTSTP" and st.get("suspending"):
                    # stand-in for the process really being stopped: the main thread makes no progress (no alarm fires, no
                    # input is read) until the driver has delivered SIGCONT -- whose handler runs nested in this loop
                    end = time.monotonic() + 2.0
                    while st.get("suspending") and time.monotonic() < end:
                        time.sleep(0.001)

            handler.__name__ = f"app_{name}"
            return handler

        for name in ("SIGWINCH", "SIGTSTP", "SIGCONT"):
            signal.signal(watched[name], mk(name))
    elif str(spec.get("handlers", "")).startswith("ign"):
        # an application that ignores signals (e.g. disables ctrl-z): "ign" = all four, "ign:SIGTSTP" = just that one
        h = spec["handlers"]
        for name in watched if h == "ign" else [h.split(":", 1)[1]]:
            signal.signal(watched[name], signal.SIG_IGN)
    sig_before = {n: signal.getsignal(s) for n, s in watched.items()}
    tc_before = termios.tcgetattr(slave)

    # ---- log shared by callbacks (main thread), Tee (main thread) and driver (thread)
    log: list[dict] = []
    counts = dict.fromkeys(SITES, 0)
    st = {"state": 0, "injected": None, "finished": False, "popup": False}
    cur = {"inject": spec.get("inject"), "script": spec.get("script", []), "lo": 0, "size": list(spec.get("size", [40, 10]))}

    class Boom(Exception):
        pass

    boom = Boom("c12-unique-boom")

    class Halt(BaseException):
        """a BaseException that is not an Exception (like SystemExit / KeyboardInterrupt)"""

    faults = {"boom": boom, "base": Halt("c12-unique-halt"), "sysexit": SystemExit(97)}
    # exception groups raised BY THE APPLICATION callback (one member, two members, nested one-in-one)
    leaves = [Boom("leaf-0"), urwid.ExitMainLoop(), Halt("leaf-2"), Boom("leaf-3"), ValueError("leaf-4"), Boom("leaf-5")]

    def _noted(g):
        g.add_note("c12-note")
        return g

    faults.update(
        eg1_boom=_noted(ExceptionGroup("c12-eg1", [leaves[0]])),
        eg1_exit=_noted(ExceptionGroup("c12-eg1x", [leaves[1]])),
        beg1_base=_noted(BaseExceptionGroup("c12-beg1", [leaves[2]])),
        eg2=_noted(ExceptionGroup("c12-eg2", [leaves[3], leaves[4]])),
        egnest=_noted(ExceptionGroup("c12-outer", [_noted(ExceptionGroup("c12-inner", [leaves[5]]))])),
    )

    def shape(e):
        """type / message / notes / members of an exception (group), leaves identified by OBJECT identity"""
        if isinstance(e, BaseExceptionGroup):
            return {"type": type(e).__name__, "msg": e.message, "notes": list(getattr(e, "__notes__", [])), "members": [shape(m) for m in e.exceptions]}
        ident = next((i for i, x in enumerate(leaves) if x is e), None)
        if ident is None:
            ident = next((f"fault:{k}" for k, x in faults.items() if x is e), None)
        return {"type": type(e).__name__, "leaf": ident, "repr": repr(e)[:80]}

    def enter(site: str, **info) -> None:
        k = counts[site]
        counts[site] += 1
        ev = {"site": site, "k": k, "t": time.monotonic(), "state": st["state"]}
        ev.update(info)
        log.append(ev)
        inject = cur["inject"]
        if inject and inject.get("sticky") and st["injected"] is not None and inject["site"] == site:
            # a callback that keeps failing: every later invocation raises the same fault again
            log.append({"site": "inject_again", "at": site, "k": k})
            if inject["kind"] == "exit":
                raise urwid.ExitMainLoop()
            raise faults[inject["kind"]]
        if inject and st["injected"] is None and inject["site"] == site and inject["k"] == k:
            st["injected"] = len(log)
            log.append({"site": "inject", "at": site, "k": k, "kind": inject["kind"]})
            if inject["kind"] == "exit":
                raise urwid.ExitMainLoop()
            raise faults[inject["kind"]]

    def bump() -> int:
        st["state"] += 1
        for w in spies.values():
            w._invalidate()
        return st["state"]

    # ---- spy widgets
    POP = {"left": 2, "top": 1, "overlay_width": 12, "overlay_height": 3}

    class Spy(urwid.Widget):
        _sizing = frozenset([urwid.BOX])
        _selectable = True
        ignore_focus = False
        # always_render: never served from the canvas cache, every redraw really calls render()
        no_cache = ["render"] if spec.get("always_render") else []  # noqa: RUF012

        def __init__(self, name: str, selectable: bool = True, handled=("a", "p", "c", "x", "y", "w", "begin paste", "end paste")) -> None:
            super().__init__()
            self.name = name
            self._is_selectable = selectable
            self.handled = tuple(handled)

        def selectable(self) -> bool:
            return self._is_selectable

        def render(self, size, focus=False):
            via = "other"
            f = sys._getframe(1)
            while f is not None:
                n = f.f_code.co_name
                if n in ("process_input", "entering_idle", "_run_screen_event_loop"):
                    via = {"process_input": "input", "entering_idle": "idle", "_run_screen_event_loop": "screenloop"}[n]
                    break
                f = f.f_back
            enter("render", w=self.name, size=list(size), via=via)
            txt = f"{self.name}S={st['state']}."
            c = urwid.Text(txt, wrap="clip").render((size[0],))
            c = urwid.CompositeCanvas(c)
            if size[1] > 1:
                c.pad_trim_top_bottom(0, size[1] - 1)
            if self.name == "M" and st["popup"]:
                c.set_pop_up(pop_spy, **POP)
            return c

        def keypress(self, size, key):
            enter("keypress", w=self.name, size=list(size), key=key)
            s = bump()
            handled = key in self.handled
            if handled:
                if key == "w":  # the widget itself replaces the top widget by the NOT selectable page
                    loop.widget = spies["N"]
                    log.append({"site": "swap", "to": "N", "by": "keypress"})
                if key == "p" and self.name == "M":
                    st["popup"] = True
                if key == "c" and self.name == "P":
                    st["popup"] = False
            log.append({"site": "ret", "of": "keypress", "handled": handled, "state": s})
            return None if handled else key

        def mouse_event(self, size, event, button, col, row, focus):
            enter("mouse", w=self.name, size=list(size), ev=[event, button, col, row], focus=bool(focus))
            s = bump()
            handled = button == 1
            log.append({"site": "ret", "of": "mouse", "handled": handled, "state": s})
            return handled

    main_spy = Spy("M")
    pop_spy = Spy("P")
    spies = {"M": main_spy, "P": pop_spy, "N": Spy("N", selectable=False, handled=()), "T": Spy("T", handled=("b", "t", "w"))}
    SWAP_KEYS = {"n": "N", "s": "T", "m": "M"}  # handled by unhandled_input: loop.widget = that page

    def input_filter(keys, raw):
        via = "input"
        f = sys._getframe(1)
        names = []
        while f is not None and len(names) < 40:
            names.append(f.f_code.co_name)
            f = f.f_back
        if "hook_event_loop" in names:
            # called while the screen re-hooks its descriptors (a partial sequence is pending): from where?
            via = "rehook-in-screen-stop" if "_stop" in names else ("rehook-in-screen-start" if "_start" in names else ("rehook-in-loop-start" if "start" in names else "rehook"))
        enter("filter", keys=[k if isinstance(k, str) else list(k) for k in keys], nraw=len(raw), via=via)
        return [k for k in keys if k != "z"]

    def unhandled(key):
        enter("unhandled", key=key if isinstance(key, str) else list(key))
        s = bump()
        log.append({"site": "ret", "of": "unhandled", "state": s})
        if key == "S":
            shell_out("unhandled")
        if isinstance(key, str) and key in SWAP_KEYS:
            loop.widget = spies[SWAP_KEYS[key]]
            log.append({"site": "swap", "to": SWAP_KEYS[key], "by": "unhandled"})
        if key == "Q":
            log.append({"site": "final_exit", "via": "Q"})
            raise urwid.ExitMainLoop()
        return key == "b"

    # ---- screen on the slave side
    class Tee:
        """text file on the slave; remembers, in log order, what has been flushed to the terminal"""

        def __init__(self, f) -> None:
            self.f = f
            self.pending: list[str] = []

        def write(self, data):
            self.pending.append(data)
            return self.f.write(data)

        def flush(self):
            self.f.flush()
            if self.pending:
                data = "".join(self.pending)
                self.pending = []
                log.append({"site": "flush", "data": data.encode("utf-8", "surrogateescape").decode("latin-1")})

        def fileno(self):
            return self.f.fileno()

        def isatty(self):
            return True

    if spec.get("fd0"):
        # the usual application: the terminal IS file descriptors 0 and 1 (Screen() defaults to sys.stdin / sys.stdout)
        os.dup2(slave, 0)
        os.dup2(slave, 1)
        fin = open(0, "r", encoding="utf-8", errors="surrogateescape", closefd=False)  # noqa: SIM115
        fout = open(1, "w", encoding="utf-8", errors="surrogateescape", closefd=False)  # noqa: SIM115
    else:
        fin = os.fdopen(os.dup(slave), "r", encoding="utf-8", errors="surrogateescape")
        fout = os.fdopen(os.dup(slave), "w", encoding="utf-8", errors="surrogateescape")
    tee = Tee(fout)
    hook = spec.get("hook", True)
    if hook:
        scr_cls = Screen
    else:

        class NoHookScreen(Screen):
            """a raw Screen that does not offer external event-loop support"""

            @property
            def hook_event_loop(self):
                raise AttributeError("hook_event_loop")

        scr_cls = NoHookScreen
    if spec.get("utf8"):
        urwid.set_encoding("utf-8")
    screen = scr_cls(input=fin, output=tee, bracketed_paste_mode=bool(spec.get("paste")), focus_reporting=bool(spec.get("focus")))
    if spec.get("complete_wait"):
        screen.set_input_timeouts(None, complete_wait=float(spec["complete_wait"]))

    # ---- event loop
    lname = spec["loop"]
    if not hook:
        evl = None
    elif lname == "select":
        evl = urwid.SelectEventLoop()
    elif lname == "asyncio":
        import asyncio

        evl = urwid.AsyncioEventLoop(loop=asyncio.new_event_loop())
    elif lname == "tornado":
        evl = urwid.TornadoEventLoop()
    elif lname == "twisted":
        evl = urwid.TwistedEventLoop()
    elif lname == "trio":
        evl = urwid.TrioEventLoop()
    elif lname == "zmq":
        evl = urwid.ZMQEventLoop()
    else:
        raise ValueError(lname)

    loop = urwid.MainLoop(
        main_spy,
        screen=screen,
        handle_mouse=bool(spec.get("mouse", True)),
        input_filter=input_filter,
        unhandled_input=unhandled,
        event_loop=evl,
        pop_ups=bool(spec.get("pop_ups")),
    )

    # ---- alarms, watch_pipe, watch_file
    def shell_out(by: str) -> None:
        """the shell-out idiom: leave urwid's screen, let something else use the terminal, come back"""
        log.append({"site": "shell_begin", "by": by})
        loop.screen.stop()
        tee.flush()
        tc_mid = termios.tcgetattr(slave)
        log.append({"site": "shell_mid", "by": by, "termios_restored": tc_mid == tc_before, "started": bool(loop.screen.started),
                    "handlers_restored": all(signal.getsignal(sg) is sig_before[nm] or signal.getsignal(sg) == sig_before[nm] for nm, sg in watched.items() if nm != "SIGINT")})
        os.write(slave, b"$ ls\r\n")
        loop.screen.start()
        log.append({"site": "shell_end", "by": by, "started": bool(loop.screen.started), "t": time.monotonic()})

    def mk_alarm(n: int, due: float):
        def cb(_loop, _data):
            enter("alarm", n=n, due=due)
            s = bump()
            log.append({"site": "ret", "of": "alarm", "state": s})
            if n == 0 and spec.get("shell_in_alarm0") and cur["lo"] == 0:
                if st.get("alarm_step_reached"):
                    shell_out("alarm")  # the driver is waiting for this alarm: nothing is being typed right now
                else:
                    log.append({"site": "shell_skipped", "why": "driver still typing"})

        return cb

    alarm_handles: list = []

    def backstop(_loop, _data):
        log.append({"site": "final_exit", "via": "backstop"})
        raise urwid.ExitMainLoop()

    def set_alarms(delays) -> float:
        t0 = time.monotonic()
        for n, delay in enumerate(delays):
            alarm_handles.append(loop.set_alarm_in(delay, mk_alarm(n, t0 + delay)))
        if spec.get("backstop", 2.5) is not None:  # (None: a session with no alarm pending at all, the loop waits for input only)
            alarm_handles.append(loop.set_alarm_in(spec.get("backstop", 2.5), backstop))
        return t0

    t_set = set_alarms(spec.get("alarms", [0.09, 0.17]))

    pipe_wr = file_rd = file_wr = None
    if hook:

        def pipe_cb(data):
            enter("pipe", data=data.decode("latin-1"))
            s = bump()
            log.append({"site": "ret", "of": "pipe", "state": s})
            return True

        pipe_wr = loop.watch_pipe(pipe_cb)
        file_rd, file_wr = os.pipe()
        os.set_blocking(file_rd, False)

        def file_cb():
            try:
                data = os.read(file_rd, 512)
            except BlockingIOError:
                data = b""
            enter("file", data=data.decode("latin-1"))
            s = bump()
            log.append({"site": "ret", "of": "file", "state": s})

        loop.watch_file(file_rd, file_cb)

    # ---- reader + driver thread on the master side
    seen = bytearray()
    STEP_WAIT = spec.get("step_wait", 0.4)

    def pump(timeout: float) -> None:
        r, _, _ = select.select([master], [], [], timeout)
        if r:
            try:
                seen.extend(os.read(master, 65536))
            except OSError:
                pass

    def wait_for(pred, limit: float) -> bool:
        end = time.monotonic() + limit
        while not st["finished"]:
            if pred():
                return True
            if time.monotonic() > end:
                return False
            pump(0.002)
        return False

    def seen_after(i0: int, site: str, **match):
        """index of the first log event at/after i0 with this site and fields, else None"""
        for i in range(i0, len(log)):
            e = log[i]
            if e["site"] == site and all(e.get(a) == b for a, b in match.items()):
                return i
        return None

    def settled(i0: int, site: str, **match) -> bool:
        i = seen_after(i0, site, **match)
        return i is not None and seen_after(i + 1, "flush") is not None

    hold = {"t": time.monotonic()}

    def driver() -> None:
        # wait for the initial paint
        lo = cur["lo"]
        wait_for(lambda: seen_after(lo, "flush") is not None, 3.0)  # (a re-run may paint from the canvas cache: no render call)
        for n, step in enumerate(cur["script"]):
            if st["finished"]:
                break
            i0 = len(log)
            kind, arg = step[0], (step[1] if len(step) > 1 else None)
            log.append({"site": "step", "n": n, "kind": kind, "t": time.monotonic()})
            if kind == "keys":
                os.write(master, arg.encode("latin-1"))
                ok = wait_for(lambda i0=i0: settled(i0, "filter"), STEP_WAIT)
                if seen_after(i0, "shell_begin") is not None:
                    # the key made a callback shell out: nobody types into urwid before it is back
                    ok = wait_for(lambda i0=i0: settled(i0, "shell_end"), STEP_WAIT) and ok
                log.append({"site": "settled", "n": n, "ok": bool(ok)})
            elif kind == "winch":
                c2, r2 = arg
                cur["size"] = [c2, r2]
                fcntl.ioctl(slave, termios.TIOCSWINSZ, struct.pack("HHHH", r2, c2, 0, 0))
                log.append({"site": "resized", "size": [c2, r2], "t": time.monotonic()})
                os.kill(os.getpid(), signal.SIGWINCH)
                ok = wait_for(lambda i0=i0: settled(i0, "filter"), STEP_WAIT)
                log.append({"site": "settled", "n": n, "ok": bool(ok)})
            elif kind == "suspend":
                # ctrl-z / fg: the application's own SIGTSTP handler (handlers="custom") keeps the process from really stopping
                st["suspending"] = True
                os.kill(os.getpid(), signal.SIGTSTP)
                if wait_for(lambda: not screen.started, 2.0):
                    log.append({"site": "suspended", "started": bool(screen.started), "termios_restored": termios.tcgetattr(slave) == tc_before, "t": time.monotonic()})
                else:
                    log.append({"site": "suspend_not_observed", "t": time.monotonic()})  # starved main thread: not judged
                os.kill(os.getpid(), signal.SIGCONT)
                wait_for(lambda: screen.started, 2.0)
                st["suspending"] = False
                ok = wait_for(lambda i0=len(log): screen.started and seen_after(i0, "flush") is not None, STEP_WAIT)
                log.append({"site": "resumed", "started": bool(screen.started), "t": time.monotonic()})
                log.append({"site": "settled", "n": n, "ok": bool(ok)})
            elif kind == "burst":
                # a burst of resizes (the terminal really changes size each time), then a key written WITHOUT waiting for
                # the redraw: arg = {"sizes": [[c, r], ...], "key": bytes, "gap": seconds between the last resize and the key}
                for j, (c2, r2) in enumerate(arg["sizes"]):
                    i1 = len(log)
                    cur["size"] = [c2, r2]
                    fcntl.ioctl(slave, termios.TIOCSWINSZ, struct.pack("HHHH", r2, c2, 0, 0))
                    log.append({"site": "resized", "size": [c2, r2], "t": time.monotonic()})
                    os.kill(os.getpid(), signal.SIGWINCH)
                    if j == 0:
                        # the first resize is taken by the loop on its own (its get_input() returns just the resize)
                        wait_for(lambda i1=i1: seen_after(i1, "filter") is not None, STEP_WAIT)
                    else:
                        time.sleep(float(arg.get("gap", 0.03)))
                os.write(master, arg["key"].encode("latin-1"))
                log.append({"site": "burst_key_written", "n": n, "t": time.monotonic()})
                ok = wait_for(lambda i0=len(log): settled(i0, "filter"), STEP_WAIT + 0.4)
                log.append({"site": "settled", "n": n, "ok": bool(ok)})
            elif kind == "pipe" and pipe_wr is not None:
                os.write(pipe_wr, arg.encode("latin-1"))
                wait_for(lambda i0=i0: settled(i0, "pipe"), STEP_WAIT)
            elif kind == "file" and file_wr is not None:
                os.write(file_wr, arg.encode("latin-1"))
                wait_for(lambda i0=i0: settled(i0, "file"), STEP_WAIT)
            elif kind == "alarm":
                st["alarm_step_reached"] = True
                wait_for(lambda arg=arg: settled(lo, "alarm", n=arg), 1.0)
                ia = seen_after(lo, "alarm", n=arg)
                if ia is not None and seen_after(ia, "shell_begin") is not None and seen_after(ia, "shell_begin") < ia + 4:
                    wait_for(lambda ia=ia: settled(ia, "shell_end"), STEP_WAIT)
            elif kind == "split":
                # one key in two writes: the second only after the loop has read (and could not complete) the first
                cw = float(spec.get("complete_wait") or 0.125)
                os.write(master, arg[0].encode("latin-1"))
                wait_for(lambda i0=i0: seen_after(i0, "filter", keys=[]) is not None, cw * 0.5)
                i1 = seen_after(i0, "filter", keys=[])
                hold["t"] = log[i1]["t"] if i1 is not None else time.monotonic()
                log.append({"site": "step2", "n": n, "t": time.monotonic(), "first_read_seen": i1 is not None})
                os.write(master, arg[1].encode("latin-1"))
                wait_for(lambda i0=len(log): settled(i0, "filter"), STEP_WAIT)
            elif kind == "grow":
                # a truncated sequence that GROWS during complete_wait and stays incomplete: frag1, a short gap, frag2, silence
                os.write(master, arg[0].encode("latin-1"))
                time.sleep(float(arg[2]))
                os.write(master, arg[1].encode("latin-1"))
                hold["t"] = time.monotonic()
                log.append({"site": "grown", "n": n, "t": hold["t"]})
            elif kind == "part1":
                # only the FIRST fragment of a key: it stays pending in the screen until a later step completes it
                os.write(master, arg.encode("latin-1"))
                ok = wait_for(lambda i0=i0: seen_after(i0, "filter", keys=[]) is not None, STEP_WAIT)
                log.append({"site": "part1_read", "n": n, "ok": bool(ok), "t": time.monotonic()})
            elif kind == "hold":
                # keep the loop waiting until `arg` seconds after the last split's first fragment was read
                end = hold["t"] + float(arg)
                wait_for(lambda end=end: time.monotonic() >= end, float(arg) + 1.0)
                log.append({"site": "held", "n": n, "t": time.monotonic()})
        while not st["finished"]:
            pump(0.005)

    def tcj(t):
        return [t[0], t[1], t[2], t[3], t[4], t[5], [c.decode("latin-1") if isinstance(c, bytes) else c for c in t[6]]]

    STTY = {
        # name -> (field, bits to clear, bits to set) or ("cc", index, value)
        "-ixon": (0, termios.IXON, 0),
        "ixoff": (0, 0, termios.IXOFF),
        "-icrnl": (0, termios.ICRNL, 0),
        "-echoe": (3, termios.ECHOE, 0),
        "-echok": (3, termios.ECHOK, 0),
        "erase=^H": ("cc", termios.VERASE, b"\x08"),
        "kill=^X": ("cc", termios.VKILL, b"\x18"),
        "eof=^E": ("cc", termios.VEOF, b"\x05"),
        "intr=^X": ("cc", termios.VINTR, b"\x18"),
        "quit=^T": ("cc", termios.VQUIT, b"\x14"),
        "start=^W": ("cc", termios.VSTART, b"\x17"),
        "stop=^Y": ("cc", termios.VSTOP, b"\x19"),
        "susp=^B": ("cc", termios.VSUSP, b"\x02"),
    }

    def stty(names) -> None:
        """what `stty ...` run by the user between two sessions does to the terminal"""
        t = termios.tcgetattr(slave)
        for name in names:
            spec_ = STTY[name]
            if spec_[0] == "cc":
                t[6][spec_[1]] = spec_[2]
            else:
                t[spec_[0]] = (t[spec_[0]] & ~spec_[1]) | spec_[2]
        termios.tcsetattr(slave, termios.TCSANOW, t)

    def one_run(index: int, t0: float) -> dict:
        """MainLoop.run() once, with its own driver thread; -> what was observed when it ended"""
        inject = cur["inject"]
        tc_before = termios.tcgetattr(slave)  # the settings THIS run begins with
        size0 = list(cur["size"])
        master_lo = len(seen)
        st["finished"] = False
        st["injected"] = None
        th = threading.Thread(target=driver, daemon=True)
        outcome = {"how": None}
        th.start()
        try:
            loop.run()
            outcome["how"] = "returned"
        except BaseException as e:  # noqa: BLE001
            outcome["how"] = "raised"
            outcome["exc_type"] = type(e).__name__
            outcome["exc_repr"] = repr(e)[:300]
            outcome["same_object"] = bool(inject) and e is faults.get(inject["kind"])
            outcome["is_exception_subclass"] = isinstance(e, Exception)
            outcome["shape"] = shape(e)
            if inject and inject["kind"] in faults:
                outcome["injected_shape"] = shape(faults[inject["kind"]])
            import traceback

            outcome["tb"] = traceback.format_exc(limit=12)[-1500:]
        log.append({"site": "run_end", "t": time.monotonic(), "run": index})
        hi = len(log)
        st["finished"] = True
        th.join(3.0)
        try:
            tee.flush()
        except Exception:  # noqa: BLE001
            pass
        # drain whatever is still in the pty
        for _ in range(50):
            r, _, _ = select.select([master], [], [], 0.02)
            if not r:
                break
            try:
                seen.extend(os.read(master, 65536))
            except OSError:
                break
        tc_after = termios.tcgetattr(slave)
        sig_after = {n: signal.getsignal(s) for n, s in watched.items()}
        return {
            "lo": cur["lo"],
            "hi": hi,
            "late_events": [e for e in log[hi:] if e["site"] in SITES],
            "counts": dict(counts),
            "outcome": outcome,
            "master_lo": master_lo,
            "master_hi": len(seen),
            "termios_before": tcj(tc_before),
            "termios_after": tcj(tc_after),
            "termios_equal": tc_before == tc_after,
            "signals": {n: {"same": sig_after[n] is sig_before[n] or sig_after[n] == sig_before[n], "before": repr(sig_before[n])[:80], "after": repr(sig_after[n])[:80]} for n in watched},
            "started_after": bool(screen.started),
            "t_set": t0,
            "size": size0,
            "script": cur["script"],
            "inject": inject,
        }

    runs = [one_run(0, t_set)]
    for index, more in enumerate(spec.get("more_runs") or [], 1):
        # the same MainLoop / event-loop objects are run again
        try:
            termios.tcflush(slave, termios.TCIFLUSH)  # scripted input the previous run never read is the harness's, not a user's
        except termios.error:
            pass
        for h in alarm_handles:
            try:
                loop.remove_alarm(h)
            except Exception as e:  # noqa: BLE001
                log.append({"site": "remove_alarm_error", "err": f"{type(e).__name__}: {e}"[:200]})
        del alarm_handles[:]
        for k in counts:
            counts[k] = 0
        if more.get("stty"):
            stty(more["stty"])
            log.append({"site": "stty", "names": list(more["stty"])})
        cur.update(inject=more.get("inject"), script=more.get("script", []), lo=len(log))
        log.append({"site": "run_start", "run": index, "t": time.monotonic()})
        t0 = set_alarms(more.get("alarms", [0.07]))
        runs.append(one_run(index, t0))

    first = runs[0]
    n_log_at_end = runs[-1]["hi"]
    outcome = first["outcome"]
    return {
        "spec": spec,
        "log": log[:n_log_at_end],
        "late_events": runs[-1]["late_events"],
        "counts": first["counts"],
        "outcome": outcome,
        "master": bytes(seen).decode("latin-1"),
        "termios_before": tcj(tc_before),
        "termios_after": first["termios_after"],
        "termios_equal": first["termios_equal"],
        "signals": first["signals"],
        "custom_handler_calls": custom_calls,
        "started_after": first["started_after"],
        "t_set": t_set,
        "runs": runs,
        "reach": reach_counts() if reach_counts else {},
    }


def _safe_child(spec: dict) -> dict:
    try:
        return _child(spec)
    except BaseException as e:  # noqa: BLE001
        import traceback

        return {"harness_error": f"{type(e).__name__}: {e}", "tb": traceback.format_exc()[-2000:]}


def _template(repo: str, timeout: float) -> None:
    """Template process: imports everything once, then forks one pristine child per session.

    The template never creates a loop, reactor, screen or signal handler, so a forked child is in the same
    state as a freshly started interpreter that has finished its imports.  Protocol: one JSON spec per stdin
    line -> one '@@RESULT <json>' or '@@TIMEOUT' line on stdout.
    """
    import select
    import signal
    import time

    sys.path.insert(0, repo)
    import asyncio  # noqa: F401
    import pty  # noqa: F401

    import tornado.ioloop  # noqa: F401
    import trio  # noqa: F401
    import twisted.internet.error  # noqa: F401
    import urwid
    import urwid.display.raw  # noqa: F401
    import zmq  # noqa: F401

    for name in ("TornadoEventLoop", "TwistedEventLoop", "TrioEventLoop", "ZMQEventLoop", "AsyncioEventLoop"):
        getattr(urwid, name)
    proto = os.fdopen(os.dup(1), "w")
    devnull = os.open(os.devnull, os.O_RDWR)
    os.dup2(devnull, 1)  # anything urwid / a loop library prints must not corrupt the protocol stream
    proto.write("@@READY\n")
    proto.flush()
    for line in sys.stdin:
        line = line.strip()
        if not line:
            continue
        spec = json.loads(line)
        r, w = os.pipe()
        pid = os.fork()
        if pid == 0:
            try:
                os.close(r)
                os.dup2(devnull, 0)
                data = json.dumps(_safe_child(spec)).encode()
                off = 0
                while off < len(data):
                    off += os.write(w, data[off : off + 65536])
            finally:
                os._exit(0)
        os.close(w)
        buf = bytearray()
        deadline = time.monotonic() + timeout
        timed_out = False
        while True:
            rl, _, _ = select.select([r], [], [], max(0.0, deadline - time.monotonic()))
            if not rl:
                timed_out = True
                os.kill(pid, signal.SIGKILL)
                break
            chunk = os.read(r, 1 << 16)
            if not chunk:
                break
            buf += chunk
        os.close(r)
        _, status = os.waitpid(pid, 0)
        if timed_out:
            proto.write("@@TIMEOUT\n")
        elif not buf:
            proto.write(MARK + json.dumps({"harness_error": f"forked child died status={status}"}) + "\n")
        else:
            proto.write(MARK + buf.decode() + "\n")
        proto.flush()


class Pool:
    """N template processes; run(specs) plays every spec in a child forked from one of them."""

    def __init__(self, repo: str, n: int = 16, timeout: float = 30.0) -> None:
        env = dict(os.environ, PYTHONHASHSEED="0", PYTHONDONTWRITEBYTECODE="1", TERM="xterm")
        self.timeout = timeout
        self.procs = [
            subprocess.Popen(  # noqa: S603
                [PY, "-B", "-m", "vmon.monitors.pty_term", "--template", repo, str(timeout)],
                cwd=VERIF,
                env=env,
                stdin=subprocess.PIPE,
                stdout=subprocess.PIPE,
                stderr=subprocess.DEVNULL,
                text=True,
            )
            for _ in range(n)
        ]
        self.ready = [False] * n

    def _one(self, i: int, spec: dict):
        import select as _select

        p = self.procs[i]
        if p.poll() is not None:
            return {"harness_error": f"template process exited rc={p.returncode}"}
        try:
            if not self.ready[i]:
                p.stdout.readline()
                self.ready[i] = True
            p.stdin.write(json.dumps(spec) + "\n")
            p.stdin.flush()
            rl, _, _ = _select.select([p.stdout], [], [], self.timeout + 15.0)
            if not rl:
                p.kill()
                return None
            line = p.stdout.readline()
        except (OSError, ValueError) as e:
            return {"harness_error": f"template io: {e}"}
        if line.startswith("@@TIMEOUT"):
            return None
        if line.startswith(MARK):
            res = json.loads(line[len(MARK) :])
            res.setdefault("rc", 0)
            res.setdefault("stderr_tail", "")
            return res
        return {"harness_error": f"template protocol: {line[:200]!r}"}

    def run(self, specs: list) -> list:
        import queue
        import threading

        q: queue.Queue = queue.Queue()
        for n, s in enumerate(specs):
            q.put((n, s))
        out = [None] * len(specs)

        def worker(i: int) -> None:
            while True:
                try:
                    n, s = q.get_nowait()
                except queue.Empty:
                    return
                out[n] = self._one(i, s)

        ths = [threading.Thread(target=worker, args=(i,)) for i in range(len(self.procs))]
        for t in ths:
            t.start()
        for t in ths:
            t.join()
        return out

    def close(self) -> None:
        for p in self.procs:
            try:
                p.stdin.close()
            except OSError:
                pass
        for p in self.procs:
            try:
                p.wait(timeout=5)
            except subprocess.TimeoutExpired:
                p.kill()
                p.wait()


def main() -> None:
    if sys.argv[1] == "--template":
        _template(sys.argv[2], float(sys.argv[3]))
        os._exit(0)
    spec = json.loads(sys.argv[1])
    proto = os.fdopen(os.dup(1), "w")  # the session may put the pty on fd 1
    res = _safe_child(spec)
    proto.write(MARK + json.dumps(res) + "\n")
    proto.flush()
    os._exit(0)


if __name__ == "__main__":
    main()
