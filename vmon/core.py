"""Runtime-monitoring harness core: CLI, tiers, seeds, sharding, verdicts, evidence, replay.

Every check module in vmon.checks exposes:
    PROPERTY   'C16'
    LEVEL      'exploration' | 'fault_enumeration'
    RULE       how cases are generated and what makes one distinct / non-trivial
    ASSUMES    list[str]
    run(ctx)           -- drive the workload for ctx.shard of ctx.nshards
    replay(ctx, wit)   -- re-execute one witness descriptor
optional:
    SHARDS = {'quick': 1, 'thorough': 16}
    BUDGET = {'quick': 40, 'thorough': 600}     # seconds of workload per shard
    REQUIRE = {'counter': minimum}              # below => inconclusive (summed over shards)
"""

from __future__ import annotations

import hashlib
import importlib
import json
import os
import random
import subprocess
import sys
import tempfile
import time
import traceback
from collections import Counter

VERIF = os.path.dirname(os.path.dirname(os.path.abspath(__file__)))
REPO = os.environ.get("VERIF_REPO", "/repo")
PY = "/venv/bin/python"

DEFAULT_SHARDS = {"quick": 1, "thorough": 16}
DEFAULT_BUDGET = {"quick": 40.0, "thorough": 420.0}
MAX_DISTINCT = 3_000_000


def setup_repo_path() -> None:
    """Make `import urwid` resolve to the current working tree of REPO."""
    if REPO not in sys.path[:1]:
        sys.path.insert(0, REPO)
    import urwid  # noqa: PLC0415

    f = os.path.realpath(urwid.__file__)
    if not f.startswith(os.path.realpath(REPO) + os.sep):
        print(f"INCONCLUSIVE reason=urwid-imported-from-{f}-not-{REPO}")
        sys.exit(2)


def h64(obj) -> int:
    if not isinstance(obj, (str, bytes)):
        obj = json.dumps(obj, sort_keys=True, default=repr)
    if isinstance(obj, str):
        obj = obj.encode("utf-8", "surrogatepass")
    return int.from_bytes(hashlib.blake2b(obj, digest_size=8).digest(), "big")


def jsonable(x):
    if isinstance(x, (str, int, float, bool)) or x is None:
        return x
    if isinstance(x, bytes):
        return {"bytes": x.decode("latin-1")}
    if isinstance(x, dict):
        return {str(k): jsonable(v) for k, v in x.items()}
    if isinstance(x, (list, tuple, set, frozenset)):
        return [jsonable(v) for v in x]
    return repr(x)


def unjson_bytes(x):
    """inverse of jsonable for the {'bytes': ...} wrapper (recursively)"""
    if isinstance(x, dict):
        if set(x) == {"bytes"}:
            return x["bytes"].encode("latin-1")
        return {k: unjson_bytes(v) for k, v in x.items()}
    if isinstance(x, list):
        return [unjson_bytes(v) for v in x]
    return x


class Ctx:
    def __init__(self, pid: str, tier: str, seed: int, shard: int, nshards: int, budget: float):
        self.pid = pid
        self.tier = tier
        self.seed = seed
        self.shard = shard
        self.nshards = nshards
        self.budget = budget
        self.t0 = time.monotonic()
        self.rng = random.Random(f"{pid}:{seed}:{shard}:{nshards}")
        self.counters: Counter = Counter()
        self.evaluations = 0
        self.distinct: set[int] = set()
        self.distinct_overflow = 0
        self.samples: list = []
        self.violations: dict[str, dict] = {}
        self.inconclusive: list[str] = []
        self.replaying = False
        self.extra: dict = {}

    # ---- tiers / volume
    @property
    def quick(self) -> bool:
        return self.tier == "quick"

    def pick(self, q, t):
        return q if self.quick else t

    def elapsed(self) -> float:
        return time.monotonic() - self.t0

    def time_left(self) -> float:
        return self.budget - self.elapsed()

    def more(self, frac: float = 1.0) -> bool:
        """True while less than frac of the workload budget has been used."""
        return self.elapsed() < self.budget * frac

    def subrng(self, *key) -> random.Random:
        return random.Random(f"{self.pid}:{self.seed}:{self.shard}:{self.nshards}:{key!r}")

    def mine(self, index: int) -> bool:
        """static partition of an enumerated space over shards"""
        return index % self.nshards == self.shard

    # ---- bookkeeping
    def count(self, key: str, n: int = 1) -> None:
        self.counters[key] += n

    def case(self, desc=None, nontrivial: bool = True, n: int = 1) -> None:
        """register one evaluated case; desc (hashable/jsonable) identifies it for the distinct count"""
        self.evaluations += n
        if nontrivial and desc is not None:
            if len(self.distinct) < MAX_DISTINCT:
                self.distinct.add(desc if isinstance(desc, int) else h64(desc))
            else:
                self.distinct_overflow += 1

    def sample(self, obj, limit: int = 4) -> None:
        if len(self.samples) < limit:
            self.samples.append(jsonable(obj))

    def violation(self, sig: str, msg: str, witness) -> None:
        sig = sig.replace(" ", "_")
        self.count("violations_raw")
        w = jsonable(witness)
        size = len(json.dumps(w))
        old = self.violations.get(sig)
        if old is None or size < old["size"]:
            self.violations[sig] = {"sig": sig, "msg": msg[:2000], "witness": w, "size": size, "n": (old["n"] if old else 0)}
        self.violations[sig]["n"] += 1

    def inconc(self, reason: str) -> None:
        if reason not in self.inconclusive:
            self.inconclusive.append(reason)

    def guard(self, sig_prefix: str, witness, fn, *a, **kw):
        """call fn; an unexpected exception becomes a violation `sig_prefix|raise:Type`"""
        try:
            return True, fn(*a, **kw)
        except Exception as e:  # noqa: BLE001
            self.violation(f"{sig_prefix}|raise:{type(e).__name__}", f"{type(e).__name__}: {e}\n{traceback.format_exc(limit=6)}", witness)
            return False, e

    def dump(self) -> dict:
        return {
            "counters": dict(self.counters),
            "evaluations": self.evaluations,
            "distinct": sorted(self.distinct),
            "distinct_overflow": self.distinct_overflow,
            "samples": self.samples,
            "violations": self.violations,
            "inconclusive": self.inconclusive,
            "extra": self.extra,
            "wall": self.elapsed(),
        }


# ---------------------------------------------------------------- known findings


def load_findings(pid: str) -> dict[str, str]:
    """known: property=C16 sig=<sig> :: text      (fixed: lines suppress nothing)"""
    out = {}
    # KNOWN_FINDINGS.txt is the committed file; findings.d/<pid>.txt is a per-property staging file
    # (same format) used while a check is being built, merged into KNOWN_FINDINGS.txt on integration.
    for path in (os.path.join(VERIF, "KNOWN_FINDINGS.txt"), os.path.join(VERIF, "findings.d", f"{pid}.txt")):
        if not os.path.exists(path):
            continue
        for line in open(path, encoding="utf-8"):
            line = line.strip()
            if not line.startswith("known:"):
                continue
            head, _, text = line[len("known:") :].partition("::")
            fields = dict(f.split("=", 1) for f in head.split() if "=" in f)
            if fields.get("property") == pid and "sig" in fields:
                out[fields["sig"]] = text.strip()
    return out


# ---------------------------------------------------------------- driver


def load_check(pid: str):
    return importlib.import_module(f"vmon.checks.{pid.lower()}")


def run_shard(pid: str, tier: str, seed: int, shard: int, nshards: int, budget: float) -> dict:
    setup_repo_path()
    mod = load_check(pid)
    ctx = Ctx(pid, tier, seed, shard, nshards, budget)
    try:
        mod.run(ctx)
    except Exception as e:  # harness bug or unguarded escape: never fold into held
        ctx.inconc(f"harness-exception:{type(e).__name__}:{e}")
        ctx.extra["traceback"] = traceback.format_exc()
    return ctx.dump()


def merge(parts: list[dict]) -> dict:
    m = {
        "counters": Counter(),
        "evaluations": 0,
        "distinct": set(),
        "distinct_overflow": 0,
        "samples": [],
        "violations": {},
        "inconclusive": [],
        "extra": {},
        "wall": 0.0,
    }
    for p in parts:
        m["counters"].update(p["counters"])
        m["evaluations"] += p["evaluations"]
        m["distinct"].update(p["distinct"])
        m["distinct_overflow"] += p["distinct_overflow"]
        for s in p["samples"]:
            if len(m["samples"]) < 6:
                m["samples"].append(s)
        for sig, v in p["violations"].items():
            o = m["violations"].get(sig)
            if o is None:
                m["violations"][sig] = dict(v)
            else:
                n = o["n"] + v["n"]
                if v["size"] < o["size"]:
                    m["violations"][sig] = dict(v)
                m["violations"][sig]["n"] = n
        for r in p["inconclusive"]:
            if r not in m["inconclusive"]:
                m["inconclusive"].append(r)
        for k, v in p["extra"].items():
            m["extra"].setdefault(k, v)
        m["wall"] = max(m["wall"], p["wall"])
    return m


def main(argv: list[str]) -> int:
    if not argv:
        print("usage: check <ID> [quick|thorough] [--replay PATH] [--shard i/n --out FILE]")
        return 3
    pid = argv[0].upper()
    tier = os.environ.get("VERIF_TIER") or "quick"
    replay = None
    shard = None
    out = None
    i = 1
    while i < len(argv):
        a = argv[i]
        if a in ("quick", "thorough"):
            tier = a
        elif a == "--replay":
            i += 1
            replay = argv[i]
        elif a == "--shard":
            i += 1
            shard = tuple(int(x) for x in argv[i].split("/"))
        elif a == "--out":
            i += 1
            out = argv[i]
        elif a == "--budget":
            i += 1
            os.environ["VERIF_BUDGET"] = argv[i]
        i += 1
    if tier not in ("quick", "thorough"):
        tier = "quick"
    try:
        seed = int(os.environ.get("VERIF_SEED", "0"))
    except ValueError:
        seed = 0

    setup_repo_path()
    mod = load_check(pid)
    budget = float(os.environ.get("VERIF_BUDGET") or getattr(mod, "BUDGET", DEFAULT_BUDGET).get(tier, DEFAULT_BUDGET[tier]))
    nshards = getattr(mod, "SHARDS", DEFAULT_SHARDS).get(tier, DEFAULT_SHARDS[tier])

    # ---- child shard mode
    if shard is not None:
        part = run_shard(pid, tier, seed, shard[0], shard[1], budget)
        with open(out, "w") as f:
            json.dump(part, f)
        return 0

    t0 = time.monotonic()
    # ---- replay mode
    if replay is not None:
        rec = json.load(open(replay))
        ctx = Ctx(pid, tier, rec.get("seed", seed), 0, 1, budget)
        ctx.replaying = True
        mod.replay(ctx, unjson_bytes(rec["witness"]))
        merged = merge([ctx.dump()])
        return report(pid, tier, seed, mod, merged, t0, write_evidence=False)

    # ---- normal mode
    if nshards == 1:
        parts = [run_shard(pid, tier, seed, 0, 1, budget)]
    else:
        parts = run_children(pid, tier, seed, nshards, budget)
    merged = merge(parts)
    return report(pid, tier, seed, mod, merged, t0, write_evidence=True)


def run_children(pid, tier, seed, nshards, budget) -> list[dict]:
    # shard outputs live under the checkout (git-ignored), not /tmp: other jobs clean /tmp
    work = os.path.join(VERIF, ".work", "shards")
    os.makedirs(work, exist_ok=True)
    tmp = tempfile.mkdtemp(prefix=f"vmon-{pid}-", dir=work)
    procs = []
    env = dict(os.environ, VERIF_SEED=str(seed), VERIF_TIER=tier, VERIF_BUDGET=str(budget))
    for s in range(nshards):
        outp = os.path.join(tmp, f"{s}.json")
        p = subprocess.Popen(
            [PY, "-B", "-m", "vmon", pid, tier, "--shard", f"{s}/{nshards}", "--out", outp],
            cwd=VERIF,
            env=env,
            stdout=subprocess.DEVNULL,
            stderr=open(os.path.join(tmp, f"{s}.err"), "w"),
        )
        procs.append((s, p, outp))
    parts = []
    deadline = time.monotonic() + budget * 4 + 120
    for s, p, outp in procs:
        try:
            p.wait(timeout=max(1.0, deadline - time.monotonic()))
        except subprocess.TimeoutExpired:
            p.kill()
            p.wait()
        if os.path.exists(outp):
            parts.append(json.load(open(outp)))
        else:
            try:
                err = open(os.path.join(tmp, f"{s}.err")).read()[-1500:]
            except OSError:
                err = "<shard stderr file missing>"
            parts.append(
                {
                    "counters": {},
                    "evaluations": 0,
                    "distinct": [],
                    "distinct_overflow": 0,
                    "samples": [],
                    "violations": {},
                    "inconclusive": [f"shard-{s}-died-or-watchdog rc={p.returncode}"],
                    "extra": {"stderr": err},
                    "wall": 0.0,
                }
            )
    import shutil  # noqa: PLC0415

    shutil.rmtree(tmp, ignore_errors=True)
    return parts


def report(pid, tier, seed, mod, m, t0, write_evidence: bool) -> int:
    known = load_findings(pid)
    require = getattr(mod, "REQUIRE", {})
    if isinstance(require.get("quick"), dict) or isinstance(require.get("thorough"), dict):
        require = require.get(tier, {})
    incon = list(m["inconclusive"])
    if write_evidence:
        for k, minimum in require.items():
            if m["counters"].get(k, 0) < minimum:
                incon.append(f"monitor-not-reached:{k}={m['counters'].get(k, 0)}<{minimum}")
    n_distinct = len(m["distinct"])
    unlisted = []
    listed = []
    for sig, v in sorted(m["violations"].items()):
        if sig in known:
            listed.append((sig, v))
        else:
            unlisted.append((sig, v))
    rc = 0
    for sig, v in listed:
        print(f"KNOWN-FINDING: property={pid} sig={sig} {known[sig]} (seen {v['n']}x this run)")
    for sig, v in unlisted:
        d = os.path.join(VERIF, "replays", pid)
        os.makedirs(d, exist_ok=True)
        path = os.path.join(d, hashlib.sha1(sig.encode()).hexdigest()[:12] + ".json")
        with open(path, "w") as f:
            json.dump({"property": pid, "sig": sig, "msg": v["msg"], "witness": v["witness"], "seed": seed, "tier": tier}, f, indent=1)
        first = v["msg"].splitlines()[0] if v["msg"] else ""
        print(f"VIOLATION property={pid} replay={path} sig={sig} n={v['n']} :: {first}")
        rc = 1
    wall = time.monotonic() - t0
    if write_evidence:
        ev = {
            "property_id": pid,
            "tier": tier,
            "seed": seed,
            "level": mod.LEVEL,
            "coverage": {
                "evaluations": int(m["evaluations"]),
                "distinct_nontrivial": int(n_distinct),
                "rule": mod.RULE
                + (f" [distinct set capped; {m['distinct_overflow']} further cases not de-duplicated and not counted]" if m["distinct_overflow"] else ""),
                "samples": m["samples"] or ["<none recorded>"],
                "observed": {k: int(v) for k, v in sorted(m["counters"].items())},
                "exhaustive": bool(getattr(mod, "EXHAUSTIVE", {}).get(tier, False)) if isinstance(getattr(mod, "EXHAUSTIVE", None), dict) else False,
            },
            "assumptions": list(getattr(mod, "ASSUMES", [])),
            "wall_s": round(wall, 2),
            "violations": len(unlisted),
            "known_findings_seen": [s for s, _ in listed],
            "verdict": "violated" if unlisted else ("inconclusive" if incon else "held-on-observed"),
            "inconclusive_reasons": incon,
            "repo": REPO,
        }
        ev["coverage"].update({k: v for k, v in m["extra"].items() if k not in ("traceback", "stderr")})
        os.makedirs(os.path.join(VERIF, "evidence"), exist_ok=True)
        with open(os.path.join(VERIF, "evidence", f"{pid}.json"), "w") as f:
            json.dump(ev, f, indent=1, sort_keys=True, ensure_ascii=True)
            f.write("\n")
    if rc == 0 and incon:
        for r in incon:
            print(f"INCONCLUSIVE property={pid} reason={r}")
        if "traceback" in m["extra"]:
            print(m["extra"]["traceback"])
        if "stderr" in m["extra"]:
            print(m["extra"]["stderr"])
        return 2
    top = ", ".join(f"{k}={v}" for k, v in sorted(m["counters"].items())[:12])
    print(
        f"{'FAIL' if rc else 'OK'} property={pid} tier={tier} seed={seed} evaluations={m['evaluations']} "
        f"distinct={n_distinct} known={len(listed)} wall={wall:.1f}s :: {top}"
    )
    return rc
