"""C10 reference editor (independent of urwid: imports only stdlib + wcwidth).

Three parts:

* ``Charset``   -- how a text (str, or bytes under utf8 / wide / narrow) splits into characters
                   and how wide each character is on screen.
* ``build_rows`` -- turns a *reported* layout structure (list of rows of segment tuples, passed
                   in as plain data) into display rows: for every row the ordered list of
                   positions ``(x, offset, width, is_marker)``.
* ``Editor``    -- text + offset + preferred column.  ``outcomes(op, rows)`` returns the list of
                   acceptable results of one key / click; the caller commits the one observed.
"""

from __future__ import annotations

from wcwidth import wcwidth

LEFT = "left"
RIGHT = "right"


def cp_width(ch: str) -> int:
    w = wcwidth(ch)
    return w if w > 0 else 0


class Charset:
    """character structure of a text.  mode: 'str' | 'utf8' | 'wide' | 'narrow' (the last three: bytes)"""

    def __init__(self, is_bytes: bool, enc_mode: str, codec: str):
        self.is_bytes = is_bytes
        self.mode = enc_mode if is_bytes else "str"
        self.codec = codec

    # -- splitting
    def units(self, text, start=0, end=None):
        """yield (offset, unit, width) for every character of text[start:end]"""
        if end is None:
            end = len(text)
        i = start
        if self.mode == "str":
            while i < end:
                yield i, text[i], cp_width(text[i])
                i += 1
            return
        if self.mode == "narrow":
            while i < end:
                yield i, text[i : i + 1], 1
                i += 1
            return
        if self.mode == "wide":
            while i < end:
                if text[i] < 0x80 or i + 1 >= end:
                    yield i, text[i : i + 1], 1
                    i += 1
                else:
                    yield i, text[i : i + 2], 2
                    i += 2
            return
        # utf8
        while i < end:
            b = text[i]
            n = 1
            if b >= 0xF0:
                n = 4
            elif b >= 0xE0:
                n = 3
            elif b >= 0xC0:
                n = 2
            unit = text[i : i + n]
            try:
                s = unit.decode("utf-8")
                w = cp_width(s) if len(s) == 1 else 1
            except UnicodeDecodeError:
                unit = text[i : i + 1]
                n = 1
                w = 1
            if i + n > end:  # character cut by the range end: treat the bytes one by one
                unit = text[i : i + 1]
                n = 1
                w = 1
            yield i, unit, w
            i += n

    def boundaries(self, text) -> set:
        b = {o for o, _u, _w in self.units(text)}
        b.add(len(text))
        b.add(0)
        return b

    def next(self, text, pos: int) -> int:
        for o, u, _w in self.units(text, pos):
            return o + len(u)
        return pos

    def prev(self, text, pos: int) -> int:
        last = 0
        for o, _u, _w in self.units(text):
            if o >= pos:
                break
            last = o
        return last

    def key_unit(self, ch: str):
        """what typing the printable character ch inserts"""
        if not self.is_bytes:
            return ch
        # bytes text is in the active encoding; a character that encoding lacks goes in as the codec's
        # replacement ('?'), the convention urwid documents for text it cannot encode
        return ch.encode(self.codec, "replace")

    def lit(self, s: str):
        return s.encode("ascii") if self.is_bytes else s

    def width(self, text) -> int:
        return sum(w for _o, _u, w in self.units(text))


# ------------------------------------------------------------------ display rows


def build_rows(trans, disp, cs: Charset):
    """trans: reported layout (rows of (sc, offs, end) / (sc, offs) / (sc, None) / (sc, offs, bytes)).

    Returns (rows, consistent).  rows[y] = [(x, offs, width, is_marker), ...] in layout order.
    consistent is False when a text segment's declared width differs from the width of its
    characters per this module (then the caller does not judge geometry on this layout)."""
    rows = []
    ok = True
    n = len(disp)
    for line in trans:
        x = 0
        row = []
        for seg in line:
            sc, offs = seg[0], seg[1]
            if len(seg) == 2:
                if offs is not None:
                    if not 0 <= offs <= n:
                        ok = False
                    row.append((x, offs, 0, True))
                x += sc
                continue
            third = seg[2]
            if isinstance(third, (bytes, str)):  # inserted text (ellipsis); not a text position
                x += sc
                continue
            if not 0 <= offs <= third <= n:
                ok = False
                x += sc
                continue
            x0 = x
            for o, _u, w in cs.units(disp, offs, third):
                row.append((x, o, w, False))
                x += w
            if x - x0 != sc:
                ok = False
                x = x0 + sc
        rows.append(row)
    return rows, ok


def find_pos(rows, off):
    """(x, y, entry) of the first display position with this offset, or None"""
    for y, row in enumerate(rows):
        for e in row:
            if e[1] == off:
                return e[0], y, e
    return None


def _with_zero_width_before(row, offs, strict_on_cells, col=None):
    """add the zero-width characters drawn at the same column directly before a chosen position.

    A zero-width character has no cell of its own; it is drawn at the column of the position that follows
    it, so the statement cannot tell the two offsets apart.  Exception (strict_on_cells): when col lies inside
    the cell of a positive-width character, "a click on a character's cell places the cursor on that
    character" decides, and only that character is accepted.  Positions at other columns are never added."""
    out = set(offs)
    for i, e in enumerate(row):
        if e[1] not in offs:
            continue
        x, _off, w, marker = e
        if strict_on_cells and not marker and w > 0 and col is not None and x <= col < x + w:
            continue
        j = i - 1
        while j >= 0 and not row[j][3] and row[j][2] == 0 and row[j][0] == x:
            out.add(row[j][1])
            j -= 1
    return out


def pick(row, col):
    """offsets on this row acceptable for column col (int | LEFT | RIGHT); empty set if none"""
    if not row:
        return set()
    cands = [e for e in row if e[3] or e[2] > 0]
    if not cands:
        # the row shows zero-width characters only: every offset of it sits at the same column
        return {e[1] for e in row}
    if col == LEFT:
        return _with_zero_width_before(row, {cands[0][1]}, False) | {row[0][1]}
    if col == RIGHT:
        return _with_zero_width_before(row, {cands[-1][1]}, False) if cands[-1][3] else {cands[-1][1]}
    best = None
    out = set()
    for x, off, w, _m in cands:
        a, b = x, x + max(w, 1)
        d = 0 if a <= col < b else (a - col if col < a else col - (b - 1))
        if best is None or d < best:
            best, out = d, {off}
        elif d == best:
            out.add(off)
    return _with_zero_width_before(row, out, True, col)


def cell_owner(row, col):
    """the offset of the positive-width character whose cell span contains col, else None"""
    for x, off, w, m in row:
        if not m and w > 0 and x <= col < x + w:
            return off
    return None


# ------------------------------------------------------------------ canvas helpers (plain data)


def canvas_cells(row_bytes: bytes, enc_mode: str):
    """[(x, unit_bytes, width)] of one canvas row of encoded bytes"""
    cs = Charset(True, enc_mode, "")
    out = []
    x = 0
    for _o, u, w in cs.units(row_bytes):
        out.append((x, u, w))
        x += w
    return out


# ------------------------------------------------------------------ the editor


class Outcome:
    __slots__ = ("text", "pos", "prefs", "steps", "rets", "moved", "note")

    def __init__(self, text, pos, prefs, steps, rets, note=""):
        self.text = text
        self.pos = pos
        self.prefs = prefs  # frozenset of acceptable preferred-column values (None = current column)
        self.steps = steps  # [text0, text1, ...] chain of modifications (len 1 = unmodified)
        self.rets = rets  # acceptable return values
        self.note = note

    def __repr__(self):
        return f"Outcome({self.text!r}, {self.pos}, prefs={self.prefs and set(self.prefs)}, mods={len(self.steps) - 1}, rets={self.rets}, {self.note})"


NAV_KEYS = ("left", "right", "up", "down", "home", "end")
EDIT_KEYS = ("backspace", "delete", "enter", "tab")
USED_KEYS = NAV_KEYS + EDIT_KEYS


class Editor:
    """text + offset + preferred column; numeric=None or dict(alphabet=set, fold=bool, negative=bool, trim=bool)"""

    def __init__(self, text, pos, cs: Charset, caplen: int, multiline=False, allow_tab=False, numeric=None):
        self.text = text
        self.pos = pos
        self.cs = cs
        self.caplen = caplen
        self.multiline = multiline
        self.allow_tab = allow_tab
        self.numeric = numeric
        self.prefs = frozenset([None])

    # -- helpers
    def accepts(self, ch: str) -> bool:
        nu = self.numeric
        if nu is None:
            return True
        if len(ch) != 1:
            return False
        if ch in nu["alphabet"]:
            # nothing can be typed in front of the leading minus sign (it would stop being leading)
            return not (self.pos == 0 and self.text[:1] == self.cs.lit("-"))
        return bool(nu["negative"] and ch == "-" and self.pos == 0 and self.cs.lit("-") not in self.text)

    def _trim(self, text, pos, steps):
        nu = self.numeric
        if nu is None or not nu["trim"]:
            return text, pos
        zero = self.cs.lit("0")
        while pos > 0 and text[:1] == zero:
            text = text[1:]
            pos -= 1
            steps.append(text)
        return text, pos

    def _handled(self, text, pos, prefs, note=""):
        steps = [self.text]
        if text != self.text:
            steps.append(text)
        text, pos = self._trim(text, pos, steps)
        if len(steps) > 1:
            prefs = frozenset([None])  # any modification of the text forgets the preferred column
        return Outcome(text, pos, prefs, steps, (None,), note)

    def _noop(self, key, extra_prefs=(), note="noop"):
        # a used key that cannot act: state unchanged; the statement does not fix the return value
        prefs = None if self.prefs is None else self.prefs | frozenset(extra_prefs)
        return Outcome(self.text, self.pos, prefs, [self.text], (key, None), note)

    def _unhandled(self, key):
        return Outcome(self.text, self.pos, self.prefs, [self.text], (key,), "unhandled")

    def _clamp(self, off_d: int) -> int:
        return min(max(off_d - self.caplen, 0), len(self.text))

    def _insert(self, unit, note):
        t = self.text[: self.pos] + unit + self.text[self.pos :]
        return self._handled(t, self.pos + len(unit), frozenset([None]), note)

    # -- one operation
    def outcomes(self, op, rows):
        """op = ('char', ch) | ('key', name) | ('click', col, row, button).
        rows = display rows for the current state (None when not available / not displayable).
        Returns a list of acceptable Outcomes, or None when the model cannot judge this op."""
        kind = op[0]
        none = frozenset([None])
        if kind == "char":
            ch = op[1]
            if self.accepts(ch):
                return [self._insert(self.cs.key_unit(ch), "insert")]
            return [self._unhandled(ch)]
        if kind == "click":
            return self._click(op[1], op[2], op[3], rows)
        key = op[1]
        if key == "enter":
            if self.multiline and self.numeric is None:
                return [self._insert(self.cs.lit("\n"), "newline")]
            return [self._unhandled(key)]
        if key == "tab":
            if self.allow_tab and self.numeric is None:
                return [self._insert(self.cs.lit(" ") * k, f"tab{k}") for k in range(1, 9)]
            return [self._unhandled(key)]
        if key == "left":
            if self.pos == 0:
                return [self._noop(key)]
            return [self._handled(self.text, self.cs.prev(self.text, self.pos), none, "left")]
        if key == "right":
            if self.pos >= len(self.text):
                return [self._noop(key)]
            return [self._handled(self.text, self.cs.next(self.text, self.pos), none, "right")]
        if key == "backspace":
            if self.pos == 0:
                return [self._noop(key, [None])]
            p = self.cs.prev(self.text, self.pos)
            return [self._handled(self.text[:p] + self.text[self.pos :], p, none, "backspace")]
        if key == "delete":
            if self.pos >= len(self.text):
                return [self._noop(key, [None])]
            n = self.cs.next(self.text, self.pos)
            return [self._handled(self.text[: self.pos] + self.text[n:], self.pos, none, "delete")]
        if key in ("up", "down", "home", "end"):
            if rows is None:
                return None
            cur = find_pos(rows, self.caplen + self.pos)
            top = find_pos(rows, self.caplen)
            if cur is None or top is None:
                return None
            x, y, _e = cur
            if key in ("home", "end"):
                col = LEFT if key == "home" else RIGHT
                offs = pick(rows[y], col)
                if not offs:
                    return None
                return [self._handled(self.text, self._clamp(o), frozenset([col]), key) for o in sorted(offs)]
            ty = y - 1 if key == "up" else y + 1
            if ty < top[1] or ty >= len(rows):
                return [self._noop(key)]
            out = []
            if self.prefs is None:
                # preferred column unknown (the previous row movement could not be judged): any position of
                # the adjacent row is acceptable, and the column stays unknown
                for o in sorted({e[1] for e in rows[ty]}):
                    out.append(self._handled(self.text, self._clamp(o), None, f"{key}@unknown"))
                return out or None
            for pref in self.prefs:
                col = x if pref is None else pref
                for o in sorted(pick(rows[ty], col)):
                    out.append(self._handled(self.text, self._clamp(o), frozenset([col]), f"{key}@{col}"))
            return out or None
        return [self._unhandled(key)]

    def _click(self, col, row, button, rows):
        if button != 1:
            return [Outcome(self.text, self.pos, self.prefs, [self.text], (False, None), "other-button")]
        if rows is None:
            return None
        top = find_pos(rows, self.caplen)
        if top is None:
            return None
        if row < top[1] or row >= len(rows):
            return [Outcome(self.text, self.pos, self.prefs, [self.text], (False, None), "click-outside-rows")]
        offs = pick(rows[row], col)
        if not offs:
            return None
        out = []
        for o in sorted(offs):
            # preferred column after a click: the clicked column or the column the cursor landed on
            oc = Outcome(self.text, self._clamp(o), frozenset([col, None]), [self.text], (True,), "click")
            out.append(oc)
        return out

    def commit(self, oc: Outcome):
        self.text = oc.text
        self.pos = oc.pos
        self.prefs = oc.prefs

    def merge_prefs(self, ocs):
        """several acceptable outcomes matched the observation: keep every preferred column they allow"""
        p = frozenset()
        for oc in ocs:
            if oc.prefs is None:
                self.prefs = None
                return
            p |= oc.prefs
        self.prefs = p

    def resync(self, text, pos, prefs_known=True):
        self.text = text
        self.pos = pos
        self.prefs = frozenset([None]) if prefs_known else None
