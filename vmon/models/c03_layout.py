"""C03 reference model: independent judgement of text-layout structures and rendered rows.

Imports nothing from urwid.  Widths come from the `wcwidth` package (per code point,
negative -> 0) through a strict UTF-8 decoder / double-byte classifier of our own.

Vocabulary
  Dec        decoded text: characters with (start, end, width, kind) in the offsets of the
             original str / bytes object; kind in NL, SP, N (narrow), W (wide), Z (zero width)
  structure  what `layout.layout(text, width, align, wrap)` returned: list of lines, each a list of
             (sc, start, end) text segments, (n, None) shift, (n, offs) blank fill / hint,
             (sc, offs, bytes) inserted text            [documented in TextLayout.layout]
"""

from __future__ import annotations

import wcwidth

NL, SP, N, W, Z = "nl", "sp", "n", "w", "z"

_wc: dict = {}


def cw(ch: str) -> int:
    w = _wc.get(ch)
    if w is None:
        w = wcwidth.wcwidth(ch)
        if w < 0:
            w = 0
        _wc[ch] = w
    return w


def _kind(ch: str, w: int) -> str:
    if ch == "\n":
        return NL
    if ch == " ":
        return SP
    if w == 2:
        return W
    if w == 0:
        return Z
    return N


def utf8_one(b: bytes, i: int):
    """strict UTF-8: (code point | None, next index).  An undecodable byte is one unit."""
    n = len(b)
    b1 = b[i]
    if b1 < 0x80:
        return b1, i + 1
    if 0xC2 <= b1 <= 0xDF:
        need, lo, cp = 1, 0x80, b1 & 0x1F
    elif 0xE0 <= b1 <= 0xEF:
        need, lo, cp = 2, 0x800, b1 & 0x0F
    elif 0xF0 <= b1 <= 0xF4:
        need, lo, cp = 3, 0x10000, b1 & 0x07
    else:
        return None, i + 1
    for k in range(1, need + 1):
        if i + k >= n or b[i + k] & 0xC0 != 0x80:
            return None, i + 1
        cp = (cp << 6) | (b[i + k] & 0x3F)
    if cp < lo or cp > 0x10FFFF or 0xD800 <= cp <= 0xDFFF:
        return None, i + 1
    return cp, i + need + 1


class Dec:
    __slots__ = ("text", "mode", "n", "starts", "ends", "widths", "kinds", "at", "length", "maxw", "is_bytes")

    def __init__(self, text, mode: str):
        self.text = text
        self.mode = mode
        self.is_bytes = isinstance(text, bytes)
        starts, ends, widths, kinds = [], [], [], []
        if not self.is_bytes:
            for i, ch in enumerate(text):
                w = cw(ch)
                starts.append(i)
                ends.append(i + 1)
                k = _kind(ch, w)
                widths.append(0 if k == NL else w)
                kinds.append(k)
        elif mode == "utf8":
            i, n = 0, len(text)
            while i < n:
                cp, j = utf8_one(text, i)
                if cp is None:
                    w, k = 1, N
                else:
                    ch = chr(cp)
                    w = cw(ch)
                    k = _kind(ch, w)
                    if k == NL:
                        w = 0
                starts.append(i)
                ends.append(j)
                widths.append(w)
                kinds.append(k)
                i = j
        elif mode == "wide":
            i, n = 0, len(text)
            while i < n:
                b = text[i]
                if b >= 0x81 and i + 1 < n and 0x40 <= text[i + 1] <= 0xFE and text[i + 1] != 0x7F:
                    starts.append(i)
                    ends.append(i + 2)
                    widths.append(2)
                    kinds.append(W)
                    i += 2
                    continue
                starts.append(i)
                ends.append(i + 1)
                k = NL if b == 0x0A else SP if b == 0x20 else N
                widths.append(0 if k == NL else 1)
                kinds.append(k)
                i += 1
        else:  # narrow
            for i, b in enumerate(text):
                starts.append(i)
                ends.append(i + 1)
                k = NL if b == 0x0A else SP if b == 0x20 else N
                widths.append(0 if k == NL else 1)
                kinds.append(k)
        self.starts, self.ends, self.widths, self.kinds = starts, ends, widths, kinds
        self.n = len(starts)
        self.length = len(text)
        at = [-1] * (self.length + 1)
        for ci, s in enumerate(starts):
            at[s] = ci
        at[self.length] = self.n
        self.at = at
        self.maxw = max(widths, default=0)

    # paragraphs = maximal runs between newlines, as (first char index, one-past-last char index)
    def paragraphs(self):
        out = []
        a = 0
        for ci, k in enumerate(self.kinds):
            if k == NL:
                out.append((a, ci))
                a = ci + 1
        out.append((a, self.n))
        return out

    def cwidth(self, a: int, b: int) -> int:
        return sum(self.widths[a:b])

    def shape(self, width: int) -> str:
        """abstract shape of the input used in signatures"""
        ks = set(self.kinds)
        zwonly = any(b > a and self.cwidth(a, b) == 0 for a, b in self.paragraphs())
        if zwonly:
            return "zero-width-only-line"
        if self.maxw > width:
            return "wide>width"
        if W in ks and Z in ks:
            return "wide+zero-width"
        if W in ks:
            return "wide"
        if Z in ks:
            return "zero-width"
        return "narrow"


def seg_width(text, s: int, e: int, mode: str) -> int:
    """width of text[s:e] decoded on its own (independently of its context)"""
    d = Dec(text[s:e], mode)
    return sum(d.widths)


def words_fit(D: Dec, width: int) -> bool:
    """a word = maximal run of characters that are neither space, newline nor double-width"""
    run = 0
    for w, k in zip(D.widths, D.kinds):
        if k in (SP, NL, W):
            run = 0
        else:
            run += w
            if run > width:
                return False
    return True


def expected_pad(align: str, spare: int) -> int:
    if align == "left":
        return 0
    if align == "right":
        return spare
    return -((-spare) // 2)  # ceil(spare / 2), also for negative spare


class Line:
    __slots__ = ("pad", "items", "shown", "cw", "bad")

    def __init__(self):
        self.pad = 0
        self.items = []  # ('text', sc, s, e) | ('ins', sc, offs, bytes) | ('fill', n, offs)
        self.shown = []  # (s, e)
        self.cw = 0  # content width (without the alignment shift)
        self.bad = False


def parse_structure(layout, V):
    """-> list[Line]; malformed pieces are reported into V as (clause, kind, msg)"""
    if not isinstance(layout, list) or not layout:
        V.append(("structure", "empty-layout", f"layout={layout!r}"))
        return None
    lines = []
    for li, line in enumerate(layout):
        L = Line()
        if not isinstance(line, list):
            V.append(("structure", "line-not-list", f"line {li}: {line!r}"))
            return None
        for k, seg in enumerate(line):
            if not isinstance(seg, tuple) or len(seg) not in (2, 3) or not isinstance(seg[0], int):
                V.append(("structure", "malformed-segment", f"line {li}: {seg!r}"))
                return None
            if len(seg) == 2:
                n, off = seg
                if off is None:
                    if k != 0:
                        V.append(("structure", "shift-not-first", f"line {li}: {line!r}"))
                        L.bad = True
                    L.pad += n
                else:
                    if n < 0 or not isinstance(off, int):
                        V.append(("structure", "malformed-fill", f"line {li}: {seg!r}"))
                        L.bad = True
                    elif n > 0:
                        L.items.append(("fill", n, off))
                        L.cw += n
            else:
                sc, s, e = seg
                if isinstance(e, bytes):
                    L.items.append(("ins", sc, s, e))
                    L.cw += sc
                elif isinstance(e, int) and isinstance(s, int):
                    L.items.append(("text", sc, s, e))
                    L.shown.append((s, e))
                    L.cw += sc
                else:
                    V.append(("structure", "malformed-segment", f"line {li}: {seg!r}"))
                    return None
        lines.append(L)
    return lines


def judge_structure(D: Dec, width: int, wrap: str, align: str, layout, C=None):
    """Judge a layout structure.  Returns (violations, lines) where violations is a list of
    (clause, kind, message) and lines the parsed structure (None if unusable).
    C: optional dict-like counter of clause evaluations."""
    V: list = []
    if C is None:
        C = {}

    def cnt(k, n=1):
        C[k] = C.get(k, 0) + n

    lines = parse_structure(layout, V)
    if lines is None:
        return V, None
    text, mode = D.text, D.mode
    at = D.at
    wrapping = wrap in ("any", "space")

    # ---- each text segment on its own
    for li, L in enumerate(lines):
        for it in L.items:
            if it[0] != "text":
                continue
            _, sc, s, e = it
            cnt("segments_decoded")
            if not (0 <= s <= e <= D.length):
                V.append(("segment", "range-outside-text", f"line {li}: ({sc},{s},{e}) len={D.length}"))
                L.bad = True
                continue
            if at[s] < 0 or at[e] < 0:
                V.append(("segment", "splits-a-character", f"line {li}: ({sc},{s},{e})"))
                L.bad = True
                continue
            if s == e:
                V.append(("segment", "empty-range", f"line {li}: ({sc},{s},{e})"))
                L.bad = True
                continue
            w = seg_width(text, s, e, mode) if D.is_bytes else D.cwidth(at[s], at[e])  # str: code points decode the same alone
            # clip/ellipsis: the structure may carry more than is displayed; the rendered row is judged instead,
            # but the stated column count of a segment must still be the width of its text
            if w != sc:
                V.append(("segment", "stated-width!=decoded-width", f"line {li}: ({sc},{s},{e}) decodes to {w} columns"))
                L.bad = True
            if NL in D.kinds[at[s] : at[e]]:
                V.append(("segment", "contains-newline", f"line {li}: ({sc},{s},{e})"))
                L.bad = True

    # ---- order / disjointness
    flat = [(li, s, e) for li, L in enumerate(lines) for (s, e) in L.shown]
    prev = None
    ordered = True
    for li, s, e in flat:
        cnt("order_checks")
        if prev is not None:
            pli, ps, pe = prev
            if s < pe:
                ordered = False
                kind = "shown-twice" if s >= ps or e > ps else "out-of-order"
                V.append(("order", kind, f"line {pli} shows [{ps},{pe}) then line {li} shows [{s},{e})"))
        prev = (li, s, e)
    if any(L.bad for L in lines) or not ordered:
        return V, lines

    nlines = len(lines)

    # ---- unrenderable text
    if wrapping and D.maxw > width:
        cnt("unrenderable_checks")
        if nlines != 1 or flat or lines[0].cw:
            V.append(("unrenderable", "not-one-empty-line", f"{nlines} lines, shown {flat[:3]}"))
        return V, lines

    paras = D.paragraphs()

    if not wrapping:
        # clip / ellipsis: one line per paragraph, whatever is shown lies inside that paragraph, in order.
        cnt("trim_line_count_checks")
        if nlines != len(paras):
            V.append(("lines", "count!=paragraphs", f"{nlines} lines for {len(paras)} paragraphs"))
            return V, lines
        for li, (L, (a, b)) in enumerate(zip(lines, paras)):
            ps = D.starts[a] if a < D.n else D.length
            pe = D.ends[b - 1] if b > a else ps
            for s, e in L.shown:
                if s < ps or e > pe:
                    V.append(("lines", "segment-outside-its-paragraph", f"line {li} shows [{s},{e}) paragraph [{ps},{pe})"))
            if L.cw <= width and L.shown:
                cnt("align_checks")
                exp = expected_pad(align, width - L.cw)
                if L.pad != exp:
                    V.append(("align", f"pad-{_cmp(L.pad, exp)}", f"line {li}: pad {L.pad}, expected {exp} (spare {width - L.cw})"))
        return V, lines

    # ---- any / space
    def gap(ca, cb, breaks, where, between_lines, open_start=False, open_end=False):
        """characters ca..cb (char indices) are not shown; `breaks` line breaks are available for them.
        Each omitted newline / space needs its own line break.  Zero-width characters may be omitted only
        when they form a line of their own: bounded by omitted break characters (or the text start / end),
        never directly attached to a shown character of the neighbouring line."""
        nl = r = 0
        piece_open = open_start  # current run of zero-width chars started at a line start
        pending = 0  # zero-width chars in the current piece
        first_piece = True
        for ci in range(ca, cb):
            k = D.kinds[ci]
            cnt("omitted_chars_judged")
            if k == NL or k == SP:
                if pending and first_piece and not open_start:
                    V.append(("omitted", "zero-width-char-after-shown-char", f"{where}: zero-width character before offset {D.starts[ci]} is dropped from its line"))
                    return None
                if pending:
                    cnt("omitted_zero_width_only_line_chars", pending)
                pending = 0
                first_piece = False
                if k == NL:
                    nl += 1
                else:
                    r += 1
            elif k == Z:
                pending += 1
            else:
                V.append(("omitted", {N: "narrow-char", W: "wide-char"}[k], f"{where}: character at offset {D.starts[ci]} is not shown"))
                return None
        if pending:
            if (first_piece and not open_start) or not open_end:
                V.append(("omitted", "zero-width-char-next-to-shown-char", f"{where}: zero-width character before offset {D.starts[cb] if cb < D.n else D.length} is dropped from its line"))
                return None
            cnt("omitted_zero_width_only_line_chars", pending)
        cnt("gap_checks")
        if ca == cb:
            if between_lines and breaks > 1:
                V.append(("gap", "spurious-empty-line", f"{where}: {breaks} line breaks with nothing omitted"))
            return (0, 0)
        if breaks != nl + r:
            V.append(
                (
                    "gap",
                    "more-than-one-char-consumed-per-break" if breaks < nl + r else "spurious-empty-line",
                    f"{where}: {nl} newlines + {r} spaces omitted over {breaks} line breaks",
                )
            )
            return None
        if r:
            cnt("wrap_spaces_consumed", r)
        return (nl, r)

    allfit = words_fit(D, width) if wrap == "space" else False
    if wrap == "space":
        cnt("space_texts_all_words_fit" if allfit else "space_texts_with_overlong_word")

    if not flat:
        gap(0, D.n, nlines - 1, "whole text", False, True, True)
    else:
        li0, s0, _ = flat[0]
        gap(0, at[s0], li0, "before first shown segment", False, True, False)
        for (la, sa, ea), (lb, sb, eb) in zip(flat, flat[1:]):
            res = gap(at[ea], at[sb], lb - la, f"between lines {la} and {lb}", True)
            if lb == la or res is None:
                continue
            nl, r = res
            if nl == 0:
                cnt("soft_breaks")
                if wrap == "space" and allfit:
                    cnt("space_break_checks")
                    if r == 0:
                        kb = D.kinds[at[ea] - 1]
                        ka = D.kinds[at[sb]]
                        if kb not in (W, SP) and ka not in (W, SP):
                            V.append(("space-break", f"inside-word:{kb}|{ka}", f"break between offsets {ea - 1} and {sb} though every word fits in {width}"))
                        elif W in (kb, ka):
                            cnt("space_breaks_next_to_wide")
                        else:
                            cnt("space_breaks_next_to_shown_space")
                    else:
                        cnt("space_breaks_at_space")
        ll, _, el = flat[-1]
        gap(at[el], D.n, nlines - 1 - ll, "after last shown segment", False, False, True)

    # ---- fit, fill ('any'), alignment
    for li, L in enumerate(lines):
        cnt("fit_checks")
        if L.cw > width:
            V.append(("fit", "line-wider-than-width", f"line {li}: {L.cw} columns > {width}"))
            continue
        if L.pad < 0 or L.pad + L.cw > width:
            V.append(("fit", "shifted-outside-width", f"line {li}: pad {L.pad} + {L.cw} columns, width {width}"))
            continue
        if L.shown:
            cnt("align_checks")
            exp = expected_pad(align, width - L.cw)
            if L.pad != exp:
                V.append(("align", f"pad-{_cmp(L.pad, exp)}", f"line {li}: pad {L.pad}, expected {exp} (spare {width - L.cw})"))
            e = L.shown[-1][1]
            ci = at[e]
            if ci < D.n and D.kinds[ci] != NL:
                nw = D.widths[ci]
                if wrap == "any":
                    cnt("any_fill_checks")
                    if L.cw + nw <= width:
                        V.append(("any-fill", f"next-char-would-fit:{D.kinds[ci]}", f"line {li}: {L.cw} columns + next character ({nw}) <= {width}"))
                else:
                    # information only (not part of the statement): greedy fill of 'space' wrapping
                    cj = ci + 1 if D.kinds[ci] == SP else ci
                    unit = 1 if D.kinds[ci] == SP else 0
                    while cj < D.n and D.kinds[cj] not in (SP, NL, W):
                        unit += D.widths[cj]
                        cj += 1
                    if cj == ci and cj < D.n and D.kinds[cj] == W:
                        unit += 2
                    if L.cw + unit <= width and unit:
                        cnt("info_space_break_not_greedy")
    return V, lines


def _cmp(a, b):
    return "too-small" if a < b else "too-large"


# ------------------------------------------------------------------ rendered rows

DEC_GLYPHS = {"─": b"q", "│": b"x", "┌": b"l", "£": b"}"}  # VT100 special graphics (line drawing)


class Enc:
    """how shown characters become row bytes (+ per-byte charset flag) in the target encoding"""

    def __init__(self, encoding: str, mode: str):
        self.encoding = encoding
        self.mode = mode
        self.dec_special = mode != "utf8"

    def enc(self, text, s, e):
        """-> (bytes, cs list per byte)"""
        piece = text[s:e]
        if isinstance(piece, bytes):
            return piece, [None] * len(piece)
        if self.dec_special and any(ch in DEC_GLYPHS for ch in piece):
            out = bytearray()
            cs = []
            for ch in piece:
                g = DEC_GLYPHS.get(ch)
                if g is not None:
                    out += g
                    cs.append("0")
                else:
                    b = ch.encode(self.encoding)
                    out += b
                    cs += [None] * len(b)
            return bytes(out), cs
        b = piece.encode(self.encoding)
        return b, [None] * len(b)

    def marks(self):
        """acceptable ellipsis marks as (bytes, columns), widest first"""
        out = []
        for m in ("…", "...", "..", "."):
            try:
                b = m.encode(self.encoding)
            except UnicodeEncodeError:
                continue
            out.append((b, sum(Dec(b, self.mode).widths)))
        return out


def window_row(D: Dec, E: Enc, a: int, b: int, o: int, width: int):
    """Row showing columns [o, o+width) of the line made of chars a..b.  A double-width character cut by
    either edge leaves one blank; a zero-width character goes with its base character."""
    out = bytearray()
    cs = []
    col = 0
    used = 0
    base_shown = o == 0
    for ci in range(a, b):
        w = D.widths[ci]
        if w == 0:
            if base_shown:
                bb, cc = E.enc(D.text, D.starts[ci], D.ends[ci])
                out += bb
                cs += cc
            continue
        c0, c1 = col, col + w
        col = c1
        if c0 >= o and c1 <= o + width:
            bb, cc = E.enc(D.text, D.starts[ci], D.ends[ci])
            out += bb
            cs += cc
            used += w
            base_shown = True
        else:
            base_shown = False
            if c0 < o < c1 or c0 < o + width < c1:
                out += b" "
                cs.append(None)
                used += 1
    if used < width:
        out += b" " * (width - used)
        cs += [None] * (width - used)
    return bytes(out), cs


def full_row(D: Dec, E: Enc, a: int, b: int, pad: int, width: int, with_zero_width=True):
    out = bytearray(b" " * pad)
    cs = [None] * pad
    if b > a and (with_zero_width or D.cwidth(a, b)):
        bb, cc = E.enc(D.text, D.starts[a], D.ends[b - 1])
        out += bb
        cs += cc
    rest = width - pad - D.cwidth(a, b)
    out += b" " * rest
    cs += [None] * rest
    return bytes(out), cs


def expected_rows(D: Dec, E: Enc, width: int, wrap: str, align: str, lines):
    """-> list over rows of a list of acceptable (bytes, cs) alternatives.
    any/space: from the (already judged) structure `lines`; clip/ellipsis: from the text alone."""
    blank = (b" " * width, [None] * width)
    rows = []
    if wrap in ("any", "space"):
        if D.maxw > width:
            return [[blank]]
        for L in lines:
            if not L.shown:
                rows.append([blank])
                continue
            pad = expected_pad(align, width - L.cw)
            out = bytearray(b" " * pad)
            cs = [None] * pad
            for it in L.items:
                if it[0] == "text":
                    bb, cc = E.enc(D.text, it[2], it[3])
                    out += bb
                    cs += cc
                elif it[0] == "fill":
                    out += b" " * it[1]
                    cs += [None] * it[1]
                else:
                    out += it[3]
                    cs += [None] * len(it[3])
            rest = width - pad - L.cw
            out += b" " * rest
            cs += [None] * rest
            rows.append([(bytes(out), cs)])
        return rows
    for a, b in D.paragraphs():
        lw = D.cwidth(a, b)
        if lw == 0:
            alts = [blank]
            if b > a:  # zero-width-only line: need not be shown, may be
                alts.append(full_row(D, E, a, b, 0, width))
                alts.append(full_row(D, E, a, b, expected_pad(align, width), width))
            rows.append(alts)
            continue
        if lw <= width:
            rows.append([full_row(D, E, a, b, expected_pad(align, width - lw), width)])
            continue
        if wrap == "clip" or width < 2:
            o = -expected_pad(align, width - lw)
            rows.append([window_row(D, E, a, b, o, width)])
            continue
        alts = []
        for mb, mw in E.marks():
            if mw > width - 1:
                continue
            room = width - mw
            k, used = a, 0
            while k < b and used + D.widths[k] <= room:
                used += D.widths[k]
                k += 1
            out = bytearray()
            cs = []
            if k > a:
                bb, cc = E.enc(D.text, D.starts[a], D.ends[k - 1])
                out += bb
                cs += cc
            out += mb
            cs += [None] * len(mb)
            out += b" " * (room - used)
            cs += [None] * (room - used)
            alts.append((bytes(out), cs))
        rows.append(alts or [window_row(D, E, a, b, 0, width)])
    return rows
