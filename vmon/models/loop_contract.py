"""Offline checker of the urwid event-loop contract (C13) over a recorded history.

Independent of urwid (stdlib only).  Input: the list of records produced by
vmon.monitors.loop_probe.Probe (+ `block` records of the virtual OS).  Output: per-clause
evaluation counts, observations (things that are not in the property statement but worth
counting) and violations `{"clause", "detail", "msg", "at"}`.

Clauses (names are used in counters and signatures):
  alarm-once            an alarm callback is entered at most once
  alarm-not-early       entry clock >= clock before alarm() + seconds - eps_due
  alarm-order           an alarm is not entered while an alarm due earlier by more than res_order
                        (registered, not removed, not yet run) is still waiting
  alarm-remove          remove_alarm before the alarm ran => True and the alarm never runs
  alarm-remove-again    a further remove_alarm of a removed alarm => False
  watch-readable        a watch callback is entered only while its descriptor is readable
  watch-after-remove    no entry of a watch callback after remove_watch_file returned true
  watch-served          the loop does not go quiescent while a watched descriptor is readable
  idle-before-quiescent after an alarm/watch callback every registered idle callback is entered
                        before the loop next goes quiescent
  idle-after-remove     no entry of an idle callback after remove_enter_idle returned true
  exit-silent           first exception ExitMainLoop => run() returns, loop does not continue
  exc-reraised          first exception other => run() raises that same object, loop does not continue
  exc-once              a following run() does not raise an exception of an earlier run() again
  watch-remove(-again) / idle-remove(-again)   first removal of a live watch / idle callback => True, further ones => False
  api-call              none of the six API calls raises
  foreign-exception     run() raises nothing but what a callback raised

"quiescent" is explicit in both modes: a `block` record written by the monitor at the OS wait
primitive.  Virtual OS: the fake clock advanced because nothing was ready.  Real OS: the loop ENTERED
its wait primitive (selector.select / epoll / zmq poll / trio io wait) with a requested timeout of at
least `qwait` seconds or none at all - the loop's own decision to sleep, which no scheduling stall of
the host can fake (how long the wait then took is never used).
"""

from __future__ import annotations

from collections import Counter


class Result:
    def __init__(self):
        self.evals = Counter()
        self.evals_later = Counter()  # the part of evals located in a 2nd, 3rd ... run() on the same loop object
        self.obs = Counter()
        self.violations: list[dict] = []

    def bad(self, clause, detail, msg, at):
        self.violations.append({"clause": clause, "detail": detail, "msg": msg, "at": at})


def _is_exit(r):
    return r is not None and r.get("type") == "ExitMainLoop"


def _exc_at(r):
    if r is None:
        return "none"
    return _exc_name(r) + (f"@{r['where']}" if r.get("where") else "")


def _exc_name(r):
    if r is None:
        return "none"
    if _is_exit(r):
        return "ExitMainLoop"
    if r.get("kind") not in (None, "boom"):
        return r["kind"]  # workload exception kinds other than the plain Boom are named by kind
    return r.get("type", "?")


def check(hist: list[dict], mode: str, eps_due: float, res_order: float, qwait: float, idles_survive: bool = True) -> Result:
    R = Result()
    virtual = mode == "virtual"

    alarms: dict[str, dict] = {}
    watches: dict[str, dict] = {}
    idles: dict[str, dict] = {}

    # run segment of every event: number of run_end records before it (calls made before the first
    # run() belong to segment 0).  Ordering and idle rules are judged within one segment only: what
    # happens to alarms/idle callbacks left over when run() is called again is not in the statement.
    seg_of = []
    n_end = 0
    for ev in hist:
        seg_of.append(n_end)
        if ev["e"] == "run_end":
            n_end += 1

    # ---------------------------------------------------------------- index pass
    for i, ev in enumerate(hist):
        e = ev["e"]
        if e == "call":
            if "exc" in ev:
                R.evals["api-call"] += 1
                R.bad("api-call", f"{ev['op']}-raised-{ev['exc']['type']}|{_where(ev)}", f"{ev['op']}({ev['id']}) raised {ev['exc']}", i)
                continue
            R.evals["api-call"] += 1
            op, cid = ev["op"], ev["id"]
            if op == "alarm":
                alarms[cid] = {"reg": i, "sec": ev["sec"], "t0": ev["t0"], "t1": ev["t1"], "entries": [], "removes": []}
            elif op == "watch_file":
                watches[cid] = {"reg": i, "fd": ev["fd"], "entries": [], "removes": []}
            elif op == "enter_idle":
                idles[cid] = {"reg": i, "entries": [], "removes": []}
            elif op == "remove_alarm" and cid in alarms:
                alarms[cid]["removes"].append((i, ev["ret"], ev.get("ctx")))
            elif op == "remove_watch_file" and cid in watches:
                watches[cid]["removes"].append((i, ev["ret"], ev.get("ctx")))
            elif op == "remove_enter_idle" and cid in idles:
                idles[cid]["removes"].append((i, ev["ret"], ev.get("ctx")))
        elif e == "enter":
            tbl = {"alarm": alarms, "watch": watches, "idle": idles}[ev["kind"]]
            if ev["id"] in tbl:
                tbl[ev["id"]]["entries"].append(i)

    def removed_at(rec):
        """index and result of the first removal call made for this (live) watch / idle callback.  The call counts as
        the removal whatever it returned: the client removed a registration it holds the handle of (stale handles are
        filtered out by the workload), so the callback must not run afterwards; a result other than True is named in
        the signature"""
        for i, ret, _ctx in rec["removes"]:
            return i, ret
        return None, None

    def is_q(ev):
        """is this `block` record a quiescent wait?"""
        return _is_quiescent(ev, qwait)

    def quiescent_between(i, j):
        """did the loop go quiescent (wait in the OS) between events i and j?"""
        return any(ev["e"] == "block" and is_q(ev) for ev in hist[i:j])

    # ---------------------------------------------------------------- alarms
    for cid, a in alarms.items():
        R.evals["alarm-once"] += 1
        if len(a["entries"]) > 1:
            R.bad("alarm-once", "ran-more-than-once", f"alarm {cid} entered {len(a['entries'])} times", a["entries"][1])
        due_lo = a["t0"] + a["sec"]
        for i in a["entries"][:1]:
            R.evals["alarm-not-early"] += 1
            R.evals_later["alarm-not-early"] += bool(seg_of[i])
            t = hist[i]["t"]
            if t < due_lo - eps_due:
                early = due_lo - t
                R.bad(
                    "alarm-not-early",
                    ("early-by-at-most-1ms" if early < 1.001e-3 else "early-by-more-than-1ms")
                    + ("|watch-active" if any(_active_at(w, i) for w in watches.values()) else "|no-watch-active"),
                    f"alarm {cid} (delay {a['sec'] * 1e3:g} ms) entered {early * 1e6:.1f} us before its due time (loop clock)",
                    i,
                )
        first_entry = a["entries"][0] if a["entries"] else None
        seen_true = False
        for i, ret, ctx in a["removes"]:
            if first_entry is not None and i > first_entry and not seen_true:
                # removal after (or during) the alarm ran: not covered by the statement
                R.obs[f"remove_alarm-after-it-ran-returned-{ret}"] += 1
                if ret is True:
                    seen_true = True
                continue
            if not seen_true:
                R.evals["alarm-remove"] += 1
                if ret is not True:
                    R.bad("alarm-remove", f"pending-alarm-removal-returned-{ret}|{_ctxkind(ctx)}", f"remove_alarm({cid}) before it ran returned {ret!r}", i)
                    continue
                seen_true = True
                later = [j for j in a["entries"] if j > i]
                if later:
                    R.bad(
                        "alarm-remove",
                        f"removed-alarm-ran|removed-{_ctxkind(ctx)}" + ("|after-quiescence" if quiescent_between(i, later[0]) else "|in-the-dispatch-batch-of-the-removal"),
                        f"alarm {cid} entered after remove_alarm returned True",
                        later[0],
                    )
            else:
                R.evals["alarm-remove-again"] += 1
                if ret is not False:
                    R.bad("alarm-remove-again", f"second-removal-returned-{ret}", f"second remove_alarm({cid}) returned {ret!r}", i)

    # order: B entered while A (due earlier beyond resolution) was registered, not removed, not run
    entered = sorted(((a["entries"][0], cid) for cid, a in alarms.items() if a["entries"]))
    for ib, b_id in entered:
        b = alarms[b_id]
        b_due_lo = b["t0"] + b["sec"]
        for a_id, a in alarms.items():
            if a_id == b_id or a["reg"] > ib or seg_of[a["reg"]] != seg_of[ib]:
                continue
            a_due_hi = a["t1"] + a["sec"]
            if not a_due_hi + res_order < b_due_lo:
                continue
            R.evals["alarm-order"] += 1
            R.evals_later["alarm-order"] += bool(seg_of[ib])
            rm = [i for i, _ret, _c in a["removes"]]  # any removal attempt before B's entry excuses A
            if any(i < ib for i in rm):
                continue
            if a["entries"] and a["entries"][0] < ib:
                continue
            # A registered before B ran, due earlier, not removed, not yet run
            same_batch = not quiescent_between(a["reg"], ib)
            R.bad(
                "alarm-order",
                "later-due-alarm-ran-first"
                + ("|earlier-was-registered-in-idle-callback" if (hist[a["reg"]].get("ctx") or [None, None])[1] == "idle" else ""),
                f"alarm {b_id} (due +{(b_due_lo - a_due_hi) * 1e3:.3f} ms later) entered before alarm {a_id}" + ("" if a["entries"] else " which then never ran")
                + f" (no quiescent wait since the earlier one was registered: {same_batch})",
                ib,
            )

    def judge_remove_results(kind, cid, rec, survives):
        """EventLoop docstrings: remove_watch_file 'Returns True if the input file exists, False otherwise',
        remove_enter_idle 'Returns True if the handle was removed': the first removal of a live registration reports
        True, every further one False.  Judged for removals made in the run() segment of the registration (idle
        callbacks: also later, where the loop keeps them)."""
        seen_true = False
        for i, ret, ctx in rec["removes"]:
            if seg_of[i] != seg_of[rec["reg"]] and not survives:
                break
            if not seen_true:
                R.evals[f"{kind}-remove"] += 1
                if ret is True:
                    seen_true = True
                else:
                    R.bad(f"{kind}-remove", f"live-{kind}-removal-returned-{ret}|{_ctxkind(ctx, cid)}", f"first removal of live {kind} {cid} returned {ret!r}", i)
                    break
            else:
                R.evals[f"{kind}-remove-again"] += 1
                if ret is not False:
                    R.bad(f"{kind}-remove-again", f"further-removal-returned-{ret}", f"removal of already removed {kind} {cid} returned {ret!r}", i)

    # ---------------------------------------------------------------- watches
    for cid, w in watches.items():
        rm, rm_ret = removed_at(w)
        for i in w["entries"]:
            R.evals["watch-readable"] += 1
            if w["fd"] not in hist[i]["readable"]:
                R.bad("watch-readable", "callback-while-not-readable", f"watch {cid} entered while fd {w['fd']} not readable", i)
            R.evals["watch-after-remove"] += 1
            R.evals_later["watch-after-remove"] += bool(seg_of[i])
            if rm is not None and i > rm:
                ctx = next(c for j, _r, c in w["removes"] if j == rm)
                R.bad(
                    "watch-after-remove",
                    f"removed-{_ctxkind(ctx, cid)}"
                    + ("|still-called-after-quiescence" if quiescent_between(rm, i) else "|only-in-the-dispatch-batch-of-the-removal")
                    + ("" if rm_ret is True else f"|removal-returned-{rm_ret}"),
                    f"watch {cid} (fd key {w['fd']}) entered after remove_watch_file returned {rm_ret}",
                    i,
                )
        judge_remove_results("watch", cid, w, False)
        for i, ret, _ctx in w["removes"]:
            R.obs[f"remove_watch_file-returned-{ret}" + ("-first" if i == w["removes"][0][0] else "-again")] += 1
            if i == w["removes"][0][0] and seg_of[i] == seg_of[w["reg"]]:
                R.obs[f"remove_watch_file-of-live-watch-returned-{ret}"] += 1
    for cid, d in idles.items():
        rm, rm_ret = removed_at(d)
        for i in d["entries"]:
            R.evals["idle-after-remove"] += 1
            R.evals_later["idle-after-remove"] += bool(seg_of[i])
            if rm is not None and i > rm:
                ctx = next(c for j, _r, c in d["removes"] if j == rm)
                R.bad(
                    "idle-after-remove",
                    f"removed-{_ctxkind(ctx, cid)}"
                    + ("|still-called-after-quiescence" if quiescent_between(rm, i) else "|only-in-the-idle-pass-of-the-removal")
                    + ("" if rm_ret is True else f"|removal-returned-{rm_ret}"),
                    f"idle {cid} entered after remove_enter_idle returned {rm_ret}",
                    i,
                )
        judge_remove_results("idle", cid, d, idles_survive)
        for i, ret, _ctx in d["removes"]:
            R.obs[f"remove_enter_idle-returned-{ret}" + ("-first" if i == d["removes"][0][0] else "-again")] += 1

    # ---------------------------------------------------------------- quiescence rules (idle, watch-served)
    def active(tbl, cid, lo, hi):
        """registered before index lo and no removal attempt up to index hi.  Watches count only in the run()
        segment they were registered for; idle callbacks registered for an earlier run() still count in a later one
        when the loop keeps them (idles_survive; false for trio, whose run() clears them on exit)"""
        r = tbl[cid]
        if r["reg"] > lo:
            return False
        if seg_of[r["reg"]] != seg_of[lo] and not (tbl is idles and idles_survive):
            return False
        return not any(j <= hi for j, _ret, _c in r["removes"])

    def judge_quiescence(p_exit, q_idx, what):
        """the loop went quiescent somewhere in (p_exit, q_idx); p_exit = exit index of last alarm/watch callback"""
        carried = seg_of[p_exit] != seg_of[q_idx]
        for cid in idles:
            if not active(idles, cid, p_exit, q_idx):
                continue
            if carried and not idles_survive:
                continue  # the loop dropped its idle callbacks when the previous run() exited
            R.evals["idle-before-quiescent"] += 1
            if carried:
                R.evals_later["idle-before-quiescent:owed-from-the-previous-run"] += 1
            if seg_of[q_idx]:
                R.evals_later["idle-before-quiescent"] += 1
                if seg_of[idles[cid]["reg"]] != seg_of[q_idx]:
                    R.evals_later["idle-before-quiescent:idle-registered-for-an-earlier-run"] += 1
            if not any(p_exit < j < q_idx for j in idles[cid]["entries"]):
                why = ""
                begin = max((k for k in range(p_exit) if hist[k]["e"] == "run_begin"), default=0)
                for c in hist[begin:q_idx]:
                    if c["e"] == "call" and c.get("ctx") and c["ctx"][1] == "idle" and c["op"] in ("enter_idle", "remove_enter_idle") and c.get("ret") is not False:
                        why = "|after-an-idle-callback-changed-idle-registrations"
                        break
                    if c["e"] == "exit" and c["kind"] == "idle" and c["raised"] is not None:
                        why = "|after-an-idle-callback-raised"
                        break
                R.bad(
                    "idle-before-quiescent",
                    "idle-not-run-before-quiescence" + ("|owed-since-the-callback-that-ended-the-previous-run" if carried else why),
                    f"idle {cid} not entered between {hist[p_exit]['kind']} callback {hist[p_exit]['id']} (event {p_exit}) and {what} (event {q_idx})",
                    q_idx,
                )

    unserved: dict[str, int] = {}  # watch id -> index of a quiescent wait that started with its fd readable
    seg_raise = None  # index of first raising exit in the current run segment
    last_exit = None  # exit index of the last alarm/watch callback with no quiescence since
    in_run = False
    for i, ev in enumerate(hist):
        e = ev["e"]
        if e == "run_begin":
            # last_exit is NOT reset: an alarm/watch callback that ran at the end of the previous run() (typically the one
            # whose exception ended it) is still owed an idle pass "before the loop next goes quiescent", and the next
            # time the loop goes quiescent is in this run()
            in_run, seg_raise = True, None
            unserved.clear()
        elif e == "run_end":
            in_run = False
        elif not in_run:
            continue
        elif e == "exit":
            if ev["raised"] is not None and seg_raise is None:
                seg_raise = i
            if ev["kind"] in ("alarm", "watch"):
                last_exit = i
        elif e == "block" and seg_raise is None and is_q(ev):
            if last_exit is not None:
                judge_quiescence(last_exit, i, "quiescent wait")
                last_exit = None
            for cid, w in watches.items():
                if not active(watches, cid, i, i):
                    continue
                R.evals["watch-served"] += 1
                R.evals_later["watch-served"] += bool(seg_of[i])
                if w["fd"] not in ev.get("readable_from", ()):
                    unserved.pop(cid, None)
                elif virtual:
                    # the fake OS reports every registered readable descriptor at once: blocking proves it was not registered
                    R.bad("watch-served", "blocked-while-watched-fd-readable", f"loop blocked while watch {cid} fd {w['fd']} readable", i)
                elif cid in unserved and not any(unserved[cid] < j < i for j in w["entries"]):
                    # real OS: a registered readable descriptor ends a wait at once and must be dispatched before the
                    # loop waits again; two quiescent waits in a row that both start with it readable prove it is not served
                    R.bad("watch-served", "two-quiescent-waits-while-watched-fd-readable" + ("|watch-was-registered-in-idle-callback" if (hist[w["reg"]].get("ctx") or [None, None])[1] == "idle" else _last_return_truthy(hist, {c for c, x in watches.items() if x["fd"] == w["fd"]}, unserved[cid])), f"loop started two quiescent waits (events {unserved[cid]}, {i}) while watch {cid} fd {w['fd']} stayed readable and was not called", i)
                else:
                    unserved[cid] = i

    # ---------------------------------------------------------------- exit / exception rules, per run segment
    segs = []
    cur = None
    for i, ev in enumerate(hist):
        if ev["e"] == "run_begin":
            cur = {"begin": i, "raises": [], "end": None}
        elif ev["e"] == "run_end" and cur is not None:
            cur["end"] = i
            segs.append(cur)
            cur = None
        elif ev["e"] == "exit" and cur is not None and ev["raised"] is not None:
            cur["raises"].append(i)
    earlier_tags = []
    for s in segs:
        end = hist[s["end"]]
        outcome = end["outcome"]
        if outcome in ("deadlock", "livelock"):
            R.evals["loop-progress"] += 1
            R.bad("loop-progress", f"{outcome}|{'after-raise' if s['raises'] else 'no-raise'}", f"virtual OS: {outcome} (loop never reaches its pending exit alarm)", s["end"])
            continue
        exc = end["exc"]
        if earlier_tags:
            R.evals["exc-once"] += 1
            if outcome == "raise" and exc.get("tag") in earlier_tags and not any(_same(exc, hist[j]["raised"]) for j in s["raises"]):
                R.bad("exc-once", "exception-of-previous-run-raised-again", f"a following run() raised {exc} again", s["end"])
                for j in s["raises"]:
                    if hist[j]["raised"].get("tag") is not None:
                        earlier_tags.append(hist[j]["raised"]["tag"])
                continue
        R.evals["foreign-exception"] += 1
        if outcome == "raise" and not exc["type"].endswith("ExceptionGroup") and not any(_same(exc, hist[j]["raised"]) for j in s["raises"]):
            R.bad("foreign-exception", f"run-raised-{_exc_at(exc)}", f"run() raised {exc}, which no callback raised (callbacks raised: {[hist[j]['raised'] for j in s['raises']]})", s["end"])
            continue
        if not s["raises"]:
            R.evals["exit-silent"] += 1
            R.bad("exit-silent", f"run-ended-without-callback-exception|{outcome}:{_exc_at(end['exc'])}", f"run() ended ({outcome} {end['exc']}) though no callback raised", s["end"])
            continue
        r1 = s["raises"][0]
        r1ev = hist[r1]
        first = r1ev["raised"]
        clause = "exit-silent" if _is_exit(first) else "exc-reraised"
        R.evals[clause] += 1
        R.evals_later[clause] += bool(seg_of[s["end"]])
        if len(s["raises"]) > 1:
            R.obs["more-than-one-callback-raised-in-a-run"] += 1
        # did the loop continue (go quiescent) after the first raise?
        continued = None
        waited = None
        later_cb = 0
        for j in range(r1 + 1, s["end"]):
            ev = hist[j]
            if ev["e"] == "enter":
                later_cb += 1
                if waited is not None and ev["kind"] in ("alarm", "watch"):
                    # the loop went to sleep after the exception AND dispatched another alarm/watch callback afterwards
                    # (a wait alone is not enough: trio's shutdown enters a long wait that its own wake-up ends at once)
                    continued = j
                    break
            elif ev["e"] == "block" and is_q(ev) and waited is None:
                waited = j
                if ev["t_to"] is None:
                    continued = j
                    break
        if later_cb:
            R.obs["callback-entered-after-another-raised"] += 1
        if continued is not None:
            R.bad(
                clause,
                f"{_exc_name(first)}-from-{r1ev['kind']}-callback-swallowed",
                f"{r1ev['kind']} callback {r1ev['id']} raised {first} but the loop went on waiting; run() ended with {outcome} {end['exc']}",
                continued,
            )
        else:
            exc = end["exc"]
            later = [hist[j]["raised"] for j in s["raises"][1:]]
            if _is_exit(first):
                if outcome != "return":
                    if exc.get("identical") and not _is_exit(exc) and any(_same(exc, x) for x in later):
                        d = f"exit-then-{'Boom' if exc.get('tag') is not None else _exc_name(exc)}-from-a-later-callback-raised-by-run"
                    elif exc["type"].endswith("ExceptionGroup"):
                        d = "exit-and-later-exception-grouped"
                    else:
                        d = f"run-raised-{_exc_at(exc)}-nobody-raised"
                    R.bad(clause, d, f"first exception ExitMainLoop (callback {r1ev['id']}) but run() raised {exc}", s["end"])
            else:
                if outcome == "return":
                    d = f"{_exc_name(first)}-from-{r1ev['kind']}-callback-swallowed"
                    R.bad(clause, d, f"{r1ev['kind']} callback {r1ev['id']} raised {first} but run() returned", s["end"])
                elif _same(exc, first):
                    if not exc.get("identical"):
                        R.bad(clause, "different-object-raised", f"run() raised an equal but not identical exception {exc}", s["end"])
                elif exc["type"].endswith("ExceptionGroup"):
                    R.bad(clause, f"wrapped-in-{exc['type']}-with-a-later-callbacks-exception", f"run() raised {exc} instead of {first}", s["end"])
                elif any(_same(exc, x) for x in later):
                    R.bad(clause, "first-exception-replaced-by-a-later-callbacks-exception", f"run() raised {exc}, first raised was {first}", s["end"])
                else:
                    R.bad(
                        clause,
                        f"run-raised-{_exc_at(exc)}-instead",
                        f"{r1ev['kind']} callback {r1ev['id']} raised {first} but run() raised {exc}",
                        s["end"],
                    )
        # foreign exception raised *by a callback body* cannot happen (bodies only raise Exit/Boom); a foreign
        # type recorded as `raised` means an API call raised inside the body and is reported by api-call.
        for j in s["raises"]:
            t = hist[j]["raised"].get("tag")
            if t is not None:
                earlier_tags.append(t)
    return R


# -------------------------------------------------------------------------------- helpers


def _active_at(rec, i):
    """registered before event i and no successful removal before i"""
    return rec["reg"] < i and not any(j < i and ret is True for j, ret, _c in rec["removes"])


def _same(a, b):
    return a is not None and b is not None and a.get("type") == b.get("type") and a.get("tag") == b.get("tag")


def _ctxkind(ctx, own=None):
    if ctx is None:
        return "outside-callbacks"
    if own is not None and ctx[0] == own:
        return "by-itself"
    return f"in-{ctx[1]}-callback"


def _where(ev):
    return _ctxkind(ev.get("ctx"))


def _last_return_truthy(hist, cids, upto):
    """signature suffix: did the last completed call of a watch callback for this descriptor (ids `cids`: the watch
    itself or an earlier watch on the same descriptor) before event `upto` return a true value?"""
    for k in range(upto, -1, -1):
        ev = hist[k]
        if ev["e"] == "exit" and ev["id"] in cids:
            return "|after-its-callback-returned-a-true-value" if ev.get("ret") in ("true", "one", "str", "obj") and ev["raised"] is None else ""
    return ""


def _is_quiescent(ev, qwait):
    """virtual OS: a block record exists only when the fake clock advanced (nothing was ready).
    real OS: the wait primitive was entered with a requested timeout of at least qwait (or none)."""
    if "timeout" in ev:
        return ev["timeout"] is None or ev["timeout"] >= qwait
    return ev["t_to"] is None or ev["t_to"] > ev["t_from"]
