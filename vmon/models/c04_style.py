"""c04_style.py -- reference reading of urwid palette / attribute *spec strings* (for C04).

Independent of urwid: imports only the stdlib.  Written from the documentation of
``register_palette_entry`` / ``AttrSpec`` (the docstrings that list colour names, settings and
high-colour forms) and from xterm's indexed-colour layout, not from urwid's parser.

What a spec string means on the terminal
----------------------------------------
    foreground  'colour,setting,setting...'   (any order, comma separated, blanks ignored)
    background  'colour'
    settings    bold italics underline blink standout strikethrough
    colour      '' | 'default'            -> terminal default (None)
                one of the 16 names       -> SGR 30-37 / 90-97 (index 0..15)
                'h<N>'                    -> indexed colour N (88/256 colour modes)
                '#rgb' with r,g,b in {0,f}-> the corner of the colour cube
                                              256: 16 + 36r + 6g + b   (r,g,b in {0,5})
                                              88 : 16 + 16r + 4g + b   (r,g,b in {0,3})
                                              2**24: (255 or 0, ...)
                '#rrggbb'                 -> direct colour (2**24 mode only)

Only forms whose meaning is not disputed are accepted (nearest-colour matching of arbitrary
'#rgb' / 'gNN' values is property C18's subject); anything else raises Unsupported so that a
generator bug cannot silently weaken the oracle.

Depth selection for a palette entry (name, fg, bg[, mono[, fg_high, bg_high]]):
    1      -> settings of `mono` (None = no settings), colours default
    16     -> fg, bg
    88, 256, 2**24 -> fg_high or fg, bg_high or bg
An attribute that is not in the palette paints default/default.  An AttrSpec used directly as
an attribute carries its own strings and its own depth.
"""

from __future__ import annotations

from typing import NamedTuple

BASIC = (
    "black",
    "dark red",
    "dark green",
    "brown",
    "dark blue",
    "dark magenta",
    "dark cyan",
    "light gray",
    "dark gray",
    "light red",
    "light green",
    "yellow",
    "light blue",
    "light magenta",
    "light cyan",
    "white",
)
SETTINGS = ("bold", "italics", "underline", "blink", "standout", "strikethrough")
TRUE = 2**24


class Unsupported(ValueError):
    pass


class Style(NamedTuple):
    fg: object = None  # None | int | (r, g, b)
    bg: object = None
    bold: bool = False
    italics: bool = False
    underline: bool = False
    blink: bool = False
    standout: bool = False
    strikethrough: bool = False


DEFAULT_STYLE = Style()


def parse_color(part: str, depth: int):
    part = part.strip()
    if part in ("", "default"):
        return None
    if part in BASIC:
        if depth == 1:
            raise Unsupported(f"colour {part!r} at depth 1")
        return BASIC.index(part)
    if depth in (1, 16):
        raise Unsupported(f"high colour {part!r} at depth {depth}")
    if part.startswith("h") and part[1:].isdigit():
        n = int(part[1:])
        if depth == TRUE:
            raise Unsupported("hN in true-colour mode (palette RGB values are C18's subject)")
        if n >= depth:
            raise Unsupported(f"{part!r} out of range for {depth} colours")
        return n
    if part.startswith("#") and len(part) == 4 and all(c in "0fF" for c in part[1:]):
        r, g, b = (0 if c == "0" else 1 for c in part[1:])
        if depth == 256:
            return 16 + 36 * 5 * r + 6 * 5 * g + 5 * b
        if depth == 88:
            return 16 + 16 * 3 * r + 4 * 3 * g + 3 * b
        return (255 * r, 255 * g, 255 * b)
    if part.startswith("#") and len(part) == 7 and depth == TRUE:
        v = int(part[1:], 16)
        return (v >> 16, (v >> 8) & 255, v & 255)
    raise Unsupported(f"colour form {part!r} at depth {depth}")


def parse_fg(s: str, depth: int):
    color = None
    flags = dict.fromkeys(SETTINGS, False)
    for part in s.split(","):
        p = part.strip()
        if p in SETTINGS:
            flags[p] = True
        else:
            c = parse_color(p, depth)
            if c is not None:
                color = c
    return color, flags


def parse_spec(fg: str, bg: str, depth: int) -> Style:
    color, flags = parse_fg(fg or "", depth)
    bgc = parse_color(bg or "", depth) if depth != 1 else None
    if depth == 1:
        color = None
    return Style(fg=color, bg=bgc, **flags)


class Palette:
    """my own reading of a palette given as a list of entries in registration order:
    [name, fg, bg] | [name, fg, bg, mono] | [name, fg, bg, mono, fg_high, bg_high] | [name, like_name]"""

    def __init__(self, entries):
        self.entries = {None: (None, "default", "default", None, None, None)}
        for e in entries:
            e = list(e)
            if len(e) == 2:
                self.entries[e[0]] = self.entries[e[1]]
            else:
                name, fg, bg = e[:3]
                mono = e[3] if len(e) > 3 else None
                fgh = e[4] if len(e) > 4 else None
                bgh = e[5] if len(e) > 5 else None
                self.entries[name] = (name, fg, bg, mono, fgh, bgh)

    def defined(self, name) -> bool:
        try:
            return name in self.entries
        except TypeError:
            return False

    def style(self, name, depth: int) -> Style:
        if not self.defined(name):
            return DEFAULT_STYLE
        _n, fg, bg, mono, fgh, bgh = self.entries[name]
        if depth == 1:
            return parse_spec(mono or "", "", 1)
        if depth == 16:
            return parse_spec(fg, bg, 16)
        return parse_spec(fg if fgh is None else fgh, bg if bgh is None else bgh, depth)


def fg_key(fg, bold: bool, bright_is_bold: bool):
    """comparison key for (foreground, bold): on a terminal that shows bold as bright, bold +
    basic colour n < 8 and bright colour n + 8 are the same thing (and bold on an already bright
    colour adds nothing)"""
    if bright_is_bold and isinstance(fg, int) and fg < 16:
        return ("basic", fg % 8, bool(fg >= 8 or bold)), None
    return ("c", fg), bool(bold)


def visible(ch: str, fg, bg, bold, italics, underline, blink, reverse, strikethrough, bright_is_bold: bool):
    """what can be told apart on the glass.  For a blank cell only the background, underline,
    reverse video and strikethrough are visible (plus the foreground if reversed)."""
    k, b = fg_key(fg, bold, bright_is_bold)
    if ch == " ":
        return (" ", k if reverse else None, bg, None, None, bool(underline), None, bool(reverse), bool(strikethrough))
    return (ch, k, bg, b, bool(italics), bool(underline), bool(blink), bool(reverse), bool(strikethrough))


FIELDS = ("glyph", "fg", "bg", "bold", "italics", "underline", "blink", "standout", "strikethrough")


def diff_fields(a, b):
    return [FIELDS[i] for i in range(len(FIELDS)) if a[i] != b[i]]
