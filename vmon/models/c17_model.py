"""c17_model.py -- independent reference side for C17 (imports nothing from urwid).

Three small models:

* markup      : "innermost enclosing tag" of every source character of a nested markup descriptor
* maps        : attribute map application / composition (outer applied to the result of inner)
* palette/SGR : what a palette entry *says* for a colour depth, parsed from the entry's STRINGS:
                (foreground acceptable-set, background acceptable-set, style flags), and the
                bold-as-bright normalisation used when the terminal shows bright colours via bold

Descriptors are JSON friendly (lists / str / int); attribute values are indices into a pool owned
by the check (so tuples / None / ints survive a JSON round trip).
"""

from __future__ import annotations

from fractions import Fraction

from . import xterm_colors as X

# ------------------------------------------------------------------ markup
# desc := ["S", "text"] | ["T", attr_index, desc] | ["L", [desc, ...]]


def flatten_markup(desc, pool, cur=None):
    """-> list of (char, attr) in source order; attr = innermost enclosing tag (None outside any tag)"""
    kind = desc[0]
    if kind == "S":
        return [(ch, cur) for ch in desc[1]]
    if kind == "T":
        return flatten_markup(desc[2], pool, pool[desc[1]])
    if kind == "L":
        out = []
        for d in desc[1]:
            out += flatten_markup(d, pool, cur)
        return out
    raise ValueError(desc)


def markup_text(desc) -> str:
    kind = desc[0]
    if kind == "S":
        return desc[1]
    if kind == "T":
        return markup_text(desc[2])
    return "".join(markup_text(d) for d in desc[1])


def markup_depth(desc) -> int:
    kind = desc[0]
    if kind == "S":
        return 0
    if kind == "T":
        return 1 + markup_depth(desc[2])
    return 1 + max([markup_depth(d) for d in desc[1]] or [0])


def drop_char(desc, k):
    """descriptor with the k-th source character removed (structure kept); returns (desc, remaining k)"""
    kind = desc[0]
    if kind == "S":
        s = desc[1]
        if 0 <= k < len(s):
            return ["S", s[:k] + s[k + 1 :]], -1
        return desc, (k - len(s) if k >= 0 else k)
    if kind == "T":
        sub, k = drop_char(desc[2], k)
        return ["T", desc[1], sub], k
    out = []
    for d in desc[1]:
        if k >= 0:
            d, k2 = drop_char(d, k)
            k = k2
        out.append(d)
    return ["L", out], k


def simplify(desc):
    """remove empty strings / empty lists / single-element lists where that keeps the tagging"""
    kind = desc[0]
    if kind == "S":
        return desc
    if kind == "T":
        return ["T", desc[1], simplify(desc[2])]
    items = [simplify(d) for d in desc[1]]
    items = [d for d in items if not (d[0] == "S" and d[1] == "") and not (d[0] == "L" and not d[1])]
    if len(items) == 1:
        return items[0]
    return ["L", items]


# ------------------------------------------------------------------ attribute maps


def apply_map(mapping: dict, a):
    """an attribute map replaces exactly the attributes it lists, leaves others untouched"""
    try:
        if a in mapping:
            return mapping[a]
    except TypeError:
        pass
    return a


def fold_maps(maps, a):
    """maps listed inner -> outer"""
    for m in maps:
        a = apply_map(m, a)
    return a


# ------------------------------------------------------------------ palette specs -> terminal style

SETTINGS = ("bold", "italics", "underline", "blink", "standout", "strikethrough")
# decoded flag order used everywhere in C17: (bold, italics, underline, blink, reverse, strikethrough)


class SpecError(ValueError):
    pass


def split_spec(spec: str):
    """'yellow, bold' -> (colour string or None, frozenset of settings)"""
    colour = None
    flags = set()
    for part in spec.split(","):
        part = part.strip()
        if part in SETTINGS:
            flags.add(part)
            continue
        if part in ("", "default"):
            part = "default"
        if colour is not None:
            raise SpecError(f"two colours in {spec!r}")
        colour = part
    return colour or "default", frozenset(flags)


def _hexdigit_value(ch: str) -> int:
    return int(ch, 16)


def colour_accept(colour: str, depth: int, slack: int = 12):
    """Set of acceptable decoded terminal colours for the colour string at the depth.

    Elements: None (default) | int palette index | ("rgb", lo, hi) boxes for direct colour.
    Exactness of the nearest-colour rounding is C18's business; here a small slack keeps C17 about
    'the right entry / the right field / fg vs bg / flags', not about rounding.
    Returns None if the string is not meaningful at that depth (case is then not judged).
    """
    if colour == "default":
        return {None}
    if depth == 1:
        return {None}
    if colour in X.BASIC_NAMES:
        return {X.BASIC_NAMES.index(colour)}
    if depth == 16:
        return None
    n = 88 if depth == 88 else 256
    idx = None
    rgb = None
    if colour.startswith("h"):
        try:
            k = int(colour[1:], 10)
        except ValueError:
            return None
        if not 0 <= k < n:
            return None
        idx = {k}
        rgb = X.PALETTE[n][k]
    elif colour.startswith("g#") and len(colour) == 4:
        v = int(colour[2:], 16)
        idx = set(X.nearest_gray_indices(n, Fraction(v), slack))
        rgb = (v, v, v)
    elif colour.startswith("g") and colour[1:].isdigit():
        pc = int(colour[1:])
        if not 0 <= pc <= 100:
            return None
        v = Fraction(pc * 255, 100)
        idx = set(X.nearest_gray_indices(n, v, slack))
        rgb = (int(v), int(v), int(v))
    elif colour.startswith("#") and len(colour) == 4:
        comps = [_hexdigit_value(c) * 17 for c in colour[1:]]
        lv = [X.nearest_cube_levels(n, Fraction(c), slack) for c in comps]
        idx = {X.cube_index(n, r, g, b) for r in lv[0] for g in lv[1] for b in lv[2]}
        rgb = tuple(comps)
    elif colour.startswith("#") and len(colour) == 7:
        comps = [int(colour[i : i + 2], 16) for i in (1, 3, 5)]
        if depth != 2**24:
            lv = [X.nearest_cube_levels(n, Fraction(c), slack + 8) for c in comps]
            idx = {X.cube_index(n, r, g, b) for r in lv[0] for g in lv[1] for b in lv[2]}
        else:
            idx = set()
        rgb = tuple(comps)
    else:
        return None
    if depth != 2**24:
        return set(idx)
    # direct colour: the exact rgb the string names, or (for palette-style strings) the xterm rgb of
    # the palette entry it names; a box of +-20 absorbs #rgb -> r0g0b0 / rrggbb expansion and cube rounding
    out = set(idx)  # a terminal index is also a faithful rendering of an index-style string
    tol = 0 if (colour.startswith("#") and len(colour) == 7) else 24
    out.add(("rgb", tuple(max(0, c - tol) for c in rgb), tuple(min(255, c + tol) for c in rgb)))
    for k in idx:
        p = X.PALETTE[256][k]
        out.add(("rgb", tuple(max(0, c - 8) for c in p), tuple(min(255, c + 8) for c in p)))
    return out


def colour_ok(decoded, accept) -> bool:
    for a in accept:
        if isinstance(a, tuple) and a and a[0] == "rgb":
            if isinstance(decoded, tuple) and all(lo <= c <= hi for c, lo, hi in zip(decoded, a[1], a[2])):
                return True
        elif a == decoded and type(a) is type(decoded):
            return True
    return False


def uses_large_h(spec: str) -> bool:
    c, _ = split_spec(spec)
    return c.startswith("h") and c[1:].isdigit() and int(c[1:]) > 15


def entry_expect(entry, depth: int, large_h_fallback: bool = True):
    """entry = (fg16, bg16, mono, fg_high, bg_high) strings (mono / high may be None).
    -> (fg_accept, bg_accept, flags frozenset) or None when the entry has no defined meaning at that depth"""
    fg16, bg16, mono, fgh, bgh = entry
    if depth == 1:
        _, flags = split_spec(mono if mono is not None else "default")
        return {None}, {None}, flags
    if depth == 16:
        fgs, bgs = fg16, bg16
    else:
        fgs = fgh if fgh is not None else fg16
        bgs = bgh if bgh is not None else bg16
        if depth == 88 and large_h_fallback and (uses_large_h(fgs) or uses_large_h(bgs)):
            # colour numbers above 15 mean different colours in the 88-colour cube: the entry's
            # 16-colour fields are what is left to say something at this depth
            fgs, bgs = fg16, bg16
    fc, flags = split_spec(fgs)
    bc, bflags = split_spec(bgs)
    if bflags:
        return None
    fa = colour_accept(fc, depth)
    ba = colour_accept(bc, depth)
    if fa is None or ba is None:
        return None
    return fa, ba, flags


def flags_tuple(flags) -> tuple:
    return (
        "bold" in flags,
        "italics" in flags,
        "underline" in flags,
        "blink" in flags,
        "standout" in flags,
        "strikethrough" in flags,
    )


def normalise_bright(fg, bold: bool, bright_is_bold: bool):
    """bold-as-bright: on such a terminal (basic colour n<8, bold) and (n+8) are the same thing"""
    if bright_is_bold and isinstance(fg, int) and 0 <= fg < 16:
        if fg >= 8:
            return fg, True
        if bold:
            return fg + 8, True
    return fg, bold
