"""C05 reference side: expected events for well-formed terminal-input tokens.

Independent of urwid (never imports it).  Written from
  * the xterm control-sequence documentation ("Mouse Tracking": X10/normal encoding
    ESC [ M Cb Cx Cy, SGR 1006 encoding ESC [ < Pb ; Px ; Py M|m),
  * ECMA-48 (CPR = CSI Pl ; Pc R, 1-based),
  * RFC 3629 (strict UTF-8), the EUC-JP / GBK two-byte layouts,
  * urwid's *documentation* of event names (docs/manual/userinput.rst and the
    Screen.get_input docstring): 'enter', 'tab', 'backspace', 'esc', 'ctrl x',
    'meta x', ('[shift ][meta ][ctrl ]mouse press|release|drag', button 1..5 or 0, x, y)
    0-based, ('cursor position', x, y) 0-based, unicode str for UTF-8 characters,
    the raw two bytes (as a 2-character str) for double-byte characters, the raw
    byte (1-character str) for 8-bit characters.
The table of named escape sequences (seq -> name) is *data* handed in by the check
(it is the documented name table); this module implements no trie and no decoder of
its own for it - tokens are generated, not parsed.

A stream is a list of *token descriptors* (JSON-able lists).  `Model.realize(desc, mode)`
returns a Tok with the bytes of the token and the list of events it must produce
(`None` = outside the documented domain: only totality / fragmentation are judged;
an element `ANY` = exactly one key event whose name is not specified).
"""

from __future__ import annotations

ESC = 0x1B
ANY = "\0<any-one-key-event>"

MODES = ("utf8", "wide", "narrow")
MODE_ENCODING = {"utf8": "utf-8", "wide": "euc-jp", "narrow": "ascii"}


class Tok:
    __slots__ = ("data", "events", "kind", "garbage", "end_only", "next_lt")

    def __init__(self, data, events, kind, garbage=False, end_only=False, next_lt=256):
        self.data = bytes(data)
        self.events = events  # list | None
        self.kind = kind  # coarse class used in signatures
        self.garbage = garbage
        self.end_only = end_only  # incomplete: must be the last token (flushed by the timer)
        self.next_lt = next_lt  # first byte of the following token must be < next_lt


# ---------------------------------------------------------------- single bytes


def c0_name(b: int):
    """documented name of a 7-bit control byte / DEL; None for NUL (undocumented)"""
    if b == 8 or b == 127:
        return "backspace"
    if b == 9:
        return "tab"
    if b in (10, 13):
        return "enter"
    if b == 27:
        return "esc"
    if 1 <= b <= 26:
        return "ctrl " + chr(ord("a") + b - 1)
    if 28 <= b <= 31:
        return "ctrl " + chr(64 + b)
    return None


def wide_pair_class(b1: int, b2: int) -> str:
    """do the two bytes form ONE double-byte character?  Documented layout of the wide encodings urwid supports
    (euc-jp/kr/cn/tw, gbk, big5, uhc): lead 0x81..0xFE, trail 0x40..0x7E or 0x80..0xFE.  'pair' / 'not-pair' where
    that layout decides; 'undocumented' for lead 0x80 / 0xFF or trail 0xFF combined with an 8-bit partner"""
    lead_ok = 0x81 <= b1 <= 0xFE
    if b2 < 0x40 or b2 == 0x7F:
        return "not-pair"  # controls, digits, punctuation, DEL are never trail bytes
    if b2 < 0x7F:
        if b1 == 0xFF:
            return "undocumented"  # 0xFF is no lead byte of any supported encoding; urwid's >= 0x81 test accepts it
        return "pair" if lead_ok else "not-pair"
    if lead_ok and b2 <= 0xFE:
        return "pair"
    return "undocumented"


def utf8_encode(cp: int) -> bytes:
    if cp < 0x80:
        return bytes([cp])
    if cp < 0x800:
        return bytes([0xC0 | cp >> 6, 0x80 | cp & 0x3F])
    if cp < 0x10000:
        return bytes([0xE0 | cp >> 12, 0x80 | cp >> 6 & 0x3F, 0x80 | cp & 0x3F])
    return bytes([0xF0 | cp >> 18, 0x80 | cp >> 12 & 0x3F, 0x80 | cp >> 6 & 0x3F, 0x80 | cp & 0x3F])


def utf8_strict_len(data, i: int) -> int:
    """length (2..4) of the well-formed UTF-8 sequence of a non-ASCII scalar at data[i:], else 0 (RFC 3629 table)"""
    b0 = data[i]
    n = len(data)

    def cont(j, lo=0x80, hi=0xBF):
        return j < n and lo <= data[j] <= hi

    if 0xC2 <= b0 <= 0xDF:
        return 2 if cont(i + 1) else 0
    if b0 == 0xE0:
        return 3 if cont(i + 1, 0xA0) and cont(i + 2) else 0
    if 0xE1 <= b0 <= 0xEC or 0xEE <= b0 <= 0xEF:
        return 3 if cont(i + 1) and cont(i + 2) else 0
    if b0 == 0xED:
        return 3 if cont(i + 1, 0x80, 0x9F) and cont(i + 2) else 0
    if b0 == 0xF0:
        return 4 if cont(i + 1, 0x90) and cont(i + 2) and cont(i + 3) else 0
    if 0xF1 <= b0 <= 0xF3:
        return 4 if cont(i + 1) and cont(i + 2) and cont(i + 3) else 0
    if b0 == 0xF4:
        return 4 if cont(i + 1, 0x80, 0x8F) and cont(i + 2) and cont(i + 3) else 0
    return 0


def utf8_all_invalid(run: bytes) -> bool:
    """every byte of run is >= 0x80 and none of them starts a well-formed sequence, even when
    followed by an ASCII byte (so each must come out as a single pass-through event)"""
    data = bytes(run) + b"A"
    for i in range(len(run)):
        if data[i] < 0x80 or utf8_strict_len(data, i):
            return False
    return True


# ---------------------------------------------------------------- mouse


def _mods(b: int) -> str:
    return ("shift " if b & 4 else "") + ("meta " if b & 8 else "") + ("ctrl " if b & 16 else "")


def _button_domain(b: int):
    """(button 1..5, is_wheel) for button codes inside urwid's documented domain, else None"""
    if b & 128:
        return None  # buttons 8-11
    low = b & 3
    if b & 64:
        if low > 1 or b & 32:
            return None  # buttons 6/7, wheel+motion
        return 4 + low, True
    if low == 3:
        return 0, False
    return 1 + low, False


def x10_expected(cb: int, cx: int, cy: int):
    """ESC [ M Cb Cx Cy  (xterm: each value is 32 + v, coordinates 1-based)"""
    if cb < 32 or cx < 33 or cy < 33:
        return None
    b = cb - 32
    d = _button_domain(b)
    if d is None:
        return None
    button, _wheel = d
    x, y = cx - 33, cy - 33
    if button == 0:
        if b & 32:
            return None  # motion without a button (mode 1003) - not enabled by urwid
        return [(_mods(b) + "mouse release", 0, x, y)]
    return [(_mods(b) + ("mouse drag" if b & 32 else "mouse press"), button, x, y)]


def sgr_expected(b: int, x: int, y: int, final: str):
    """ESC [ < b ; x ; y M|m  (button code without the +32 bias, 1-based decimal coordinates)"""
    if x < 1 or y < 1 or b < 0:
        return None
    d = _button_domain(b)
    if d is None:
        return None
    button, wheel = d
    if button == 0:
        return None  # low bits 3 are not used for release in SGR mode
    if final == "M":
        return [(_mods(b) + ("mouse drag" if b & 32 else "mouse press"), button, x - 1, y - 1)]
    if wheel or b & 32:
        return None  # no wheel release / motion release reports
    return [(_mods(b) + "mouse release", button, x - 1, y - 1)]


# ---------------------------------------------------------------- the model


class Model:
    def __init__(self, table):
        """table: iterable of (sequence-after-ESC, name) - the documented name table"""
        self.table = {}
        for seq, name in table:
            self.table[seq] = name
        self.special = {s for s, n in self.table.items() if n in ("mouse", "sgrmouse")}
        self.named = sorted(s for s in self.table if s not in self.special)
        self.prefixes = set()
        for s in self.table:
            for k in range(1, len(s)):
                self.prefixes.add(s[:k])
        self.proper_prefixes = sorted(self.prefixes - set(self.table))
        # documented key-name grammar: up to one each of the modifiers shift / meta / ctrl, then a base key
        self.bases = {"tab", "enter", "backspace", "esc", "window resize"}
        for name in self.table.values():
            self.bases.add(strip_modifiers(name)[1])

    # -- helpers
    def no_known_prefix(self, seq: str) -> bool:
        """no prefix of seq (nor seq itself) is a table entry"""
        return not any(seq[:k] in self.table for k in range(1, len(seq) + 1))

    def is_cpr(self, seq: str) -> bool:
        if not (seq.startswith("[") and seq.endswith("R")):
            return False
        parts = seq[1:-1].split(";")
        return len(parts) == 2 and all(p.isascii() and p.isdigit() and not p.startswith("0") for p in parts)

    def plain_events(self, text: str):
        """events of 7-bit text delivered byte by byte (printables and documented controls)"""
        out = []
        for ch in text:
            o = ord(ch)
            if 32 <= o <= 126:
                out.append(ch)
            else:
                n = c0_name(o)
                out.append(ANY if n is None else n)
        return out

    def broken_esc_events(self, seq: str):
        """ESC + seq where seq starts no known sequence beyond its first char: 'meta <c>' then the rest one by one"""
        return ["meta " + seq[0], *self.plain_events(seq[1:])]

    def broken_ok(self, cls: str, seq: str, end_only: bool) -> bool:
        """is ESC+seq really a malformed / truncated sequence of the stated class (so that the
        pass-through expectation applies)?  Anything doubtful -> no expectation."""
        if not seq or not all(32 <= ord(c) <= 126 for c in seq):
            return False
        if cls.startswith("sgr-"):
            if not seq.startswith("[<"):
                return False
            if cls == "sgr-truncated":
                return end_only and not any(c in "Mm" for c in seq[2:])
            body, final = seq[2:-1], seq[-1]
            if final not in "Mm" or any(c in "Mm" for c in body):
                return False
            parts = body.split(";")
            # three decimal fields = syntactically a report; a zero coordinate is a value-range question
            # (off-screen by one), not "no known sequence" -> not judged here
            wellformed = len(parts) == 3 and all(p.isdigit() for p in parts)
            return not wellformed
        if cls == "x10-truncated":
            return end_only and seq.startswith("[M") and len(seq) < 5
        if not self.no_known_prefix(seq) or self.is_cpr(seq):
            return False
        if end_only:
            return True
        # complete garbage: its last character must kill every possible continuation
        if seq in self.prefixes:
            return False
        if seq[0] == "[" and all(c in "0123456789;" for c in seq[1:]):
            return False  # still a possible cursor-position report
        return True

    # -- realisation of descriptors
    def realize(self, d, mode: str) -> Tok:
        k = d[0]
        if k == "byte":  # one 7-bit byte or one 8-bit byte
            v = d[1]
            if 32 <= v <= 126:
                return Tok([v], [chr(v)], "printable")
            if v == 0:
                return Tok([v], [ANY], "nul", garbage=True)
            if v < 128:
                if v == ESC:
                    return Tok([v], ["esc"], "esc", end_only=True)
                return Tok([v], [c0_name(v)], "c0")
            if mode == "narrow":
                return Tok([v], [chr(v)], "high-narrow")
            if mode == "utf8":
                return Tok([v], [ANY], "utf8-invalid", garbage=True, next_lt=0x80)
            return Tok([v], [ANY], "wide-stray-lead", garbage=True, next_lt=0x40)
        if k == "seq":
            s = d[1]
            return Tok([ESC, *s.encode("latin-1")], [self.table[s]], "table")
        if k == "x10":
            return Tok([ESC, 0x5B, 0x4D, d[1], d[2], d[3]], x10_expected(d[1], d[2], d[3]), "x10")
        if k == "sgr":
            body = f"[<{d[1]};{d[2]};{d[3]}{d[4]}"
            return Tok([ESC, *body.encode()], sgr_expected(d[1], d[2], d[3], d[4]), "sgr")
        if k == "cpr":
            body = f"[{d[1]};{d[2]}R"
            if body in self.table or d[1] < 1 or d[2] < 1:
                return Tok([ESC, *body.encode()], None, "cpr-ambiguous")
            return Tok([ESC, *body.encode()], [("cursor position", d[2] - 1, d[1] - 1)], "cpr")
        if k == "utf8":
            cp = d[1]
            if mode != "utf8" or cp < 0x80 or 0xD800 <= cp <= 0xDFFF or cp > 0x10FFFF:
                return Tok(utf8_encode(cp), None, "utf8-offmode")
            return Tok(utf8_encode(cp), [chr(cp)], "utf8")
        if k == "dbcs":
            if mode != "wide":
                return Tok([d[1], d[2]], None, "dbcs-offmode")
            return Tok([d[1], d[2]], [chr(d[1]) + chr(d[2])], "dbcs")
        if k == "wpair":  # wide mode: a byte >= 0x80 followed by any byte
            b1, b2 = d[1], d[2]
            if mode != "wide" or b1 < 0x80:
                return Tok([b1, b2], None, "wpair-offmode")
            cls = wide_pair_class(b1, b2)
            if cls == "pair":
                return Tok([b1, b2], [chr(b1) + chr(b2)], "dbcs")
            if cls == "not-pair" and b2 != ESC:
                second = chr(b2) if 32 <= b2 <= 126 else (c0_name(b2) or ANY)
                return Tok([b1, b2], [ANY, second], "wide-lead+single-byte", garbage=True)
            return Tok([b1, b2], None, "wpair-undocumented")
        if k == "u8bad":  # run of bytes none of which can start/continue a valid character
            run = bytes(d[1])
            if mode != "utf8" or not utf8_all_invalid(run):
                return Tok(run, None, "u8bad-offmode")
            return Tok(run, [ANY] * len(run), "utf8-invalid", garbage=True, next_lt=0x80)
        if k == "meta":
            # ESC in front of a token.  Rule (docs: ALT+J -> 'meta j'; tests/test_escapes.py test_esc_meta_1, test_bug_104):
            # the first event of what follows takes the 'meta ' modifier, unless it is a report, is 'esc' itself or already
            # carries 'meta ' - then the ESC is its own 'esc' event in front of it.  Nothing else of the inner run changes.
            inner = self.realize(d[1], mode)
            ev = None
            kind = "meta-" + inner.kind
            if inner.events:
                first = inner.events[0]
                single_key = inner.kind in ("printable", "c0", "utf8", "dbcs", "high-narrow")
                if first == ANY or (single_key and inner.data[:1] in (b"[", b"O")):
                    ev = None  # undocumented name / would start a sequence
                elif isinstance(first, tuple) or first == "esc" or "meta " in first:
                    ev = ["esc", *inner.events]
                else:
                    ev = ["meta " + first, *inner.events[1:]]
            return Tok([ESC, *inner.data], ev, kind, garbage=inner.garbage, end_only=inner.end_only, next_lt=inner.next_lt)
        if k == "broken":  # ["broken", class, text-after-ESC, end_only]
            cls, seq, end_only = d[1], d[2], bool(d[3])
            ev = self.broken_esc_events(seq) if self.broken_ok(cls, seq, end_only) else None
            return Tok([ESC, *seq.encode("latin-1")], ev, cls, garbage=True, end_only=end_only)
        if k == "raw":  # arbitrary bytes, no expectation
            return Tok(bytes(d[1]), None, "raw")
        raise ValueError(d)

    def stream(self, descs, mode):
        """-> (bytes, token list, expected events | None, token byte spans)"""
        toks = [self.realize(d, mode) for d in descs]
        data = b"".join(t.data for t in toks)
        spans = []
        p = 0
        for t in toks:
            spans.append((p, p + len(t.data)))
            p += len(t.data)
        ok = all(t.events is not None for t in toks)
        for i, t in enumerate(toks):
            if i + 1 < len(toks):
                if t.end_only:
                    ok = False
                if toks[i + 1].data[0] >= t.next_lt:
                    ok = False
        exp = [e for t in toks for e in t.events] if ok else None
        return data, toks, exp, spans


MODIFIERS = ("shift ", "meta ", "ctrl ")
_PASS = __import__("re").compile(r"<\d+>\Z")
_MOUSE = __import__("re").compile(r"(shift )?(meta )?(ctrl )?mouse (press|release|drag)\Z")


def strip_modifiers(name: str):
    """-> (list of leading modifiers, base)"""
    mods = []
    while True:
        for m in MODIFIERS:
            if name.startswith(m) and len(name) > len(m):
                mods.append(m)
                name = name[len(m) :]
                break
        else:
            return mods, name


def name_problem(ev, bases, mode):
    """None if ev is a documented event name: [modifiers, each at most once] + base key / single character
    (two for a double-byte character) / '<n>' pass-through; a report tuple with a documented event string"""
    if isinstance(ev, tuple):
        if len(ev) == 3 and ev[0] == "cursor position":
            return None
        if len(ev) == 4 and isinstance(ev[0], str) and _MOUSE.match(ev[0]):
            return None
        return "unknown-report"
    if not isinstance(ev, str) or not ev:
        return "not-a-string"
    if len(ev) == 1 or (mode == "wide" and len(ev) == 2 and ord(ev[0]) >= 0x80):
        return None
    mods, base = strip_modifiers(ev)
    if len(set(mods)) != len(mods):
        return "modifier-repeated"
    if base in bases or len(base) == 1 or _PASS.match(base) or (mode == "wide" and len(base) == 2 and ord(base[0]) >= 0x80):
        return None
    return "unknown-base-key"


def event_matches(exp, act) -> bool:
    if exp == ANY:
        return isinstance(act, str) and len(act) > 0
    if isinstance(exp, tuple):
        return isinstance(act, tuple) and len(act) == len(exp) and all(type(a) is type(e) and a == e for a, e in zip(act, exp))
    return isinstance(act, str) and act == exp


def events_match(exp, act) -> bool:
    return len(exp) == len(act) and all(event_matches(e, a) for e, a in zip(exp, act))
